package main

import (
	"encoding/json"
	"flag"
	"fmt"
	"os"
	"strings"
)

func main() {
	if len(os.Args) > 1 && os.Args[1] == "dev" {
		devMain(os.Args[2:])
		return
	}
	checkMain(os.Args[1:])
}

// dev <pkg> <Func> [flags]: run one harness and dump statistics.
func devMain(args []string) {
	fs := flag.NewFlagSet("dev", flag.ExitOnError)
	sched := fs.Bool("sched", false, "schedule mode")
	pre := fs.Int("preempt", 2, "preemption bound")
	races := fs.Bool("races", false, "race monitor")
	intm := fs.Bool("int", false, "Int mode")
	orders := fs.Bool("orders", false, "map orders")
	logen := fs.Bool("log", false, "trace logging enabled (zerolog events report Enabled())")
	workers := fs.Int("j", 16, "workers")
	solver := fs.String("solver", defaultSolver(), "solver binary")
	maxp := fs.Int("maxpaths", 0, "path budget")
	nobatch := fs.Bool("nobatch", false, "one query per assertion")
	tmo := fs.Int("timeout", 30000, "solver timeout ms")
	fs.Parse(args[2:])
	if os.Getenv("GOSYM_PROFILE") != "" {
		profileSites = map[string]int{}
	}
	pkgPath, fn := args[0], args[1]
	P, _, _, err := LoadProgram("/verif/harness", []string{"./" + pkgPath})
	if err != nil {
		fmt.Println("LOAD ERROR:", err)
		os.Exit(2)
	}
	pkg := P.pkgs[modJoin(P.modPath, pkgPath)]
	spec := HarnessSpec{Pkg: pkgPath, Func: fn, MaxPaths: *maxp, Opts: ExecOpts{Schedule: *sched, Preemptions: *pre, Races: *races, IntMode: *intm, MapOrders: *orders, NoBatch: *nobatch, LogEnabled: *logen}, TimeoutMs: *tmo}
	st := Explore(P, pkg, spec, *workers, *solver, 30000)
	fmt.Printf("paths=%d completed=%d infeasible=%d steps=%d wall=%v\n", st.Paths, st.Completed, st.Infeasible, st.Steps, st.Wall)
	fmt.Printf("solver: %+v\n", st.Solver)
	fmt.Printf("asserts: %v (total %d)\ncovers: %v\n", st.Asserts, st.AssertsTotal, st.Covers)
	for _, e := range dedupe(st.Errors, 3) {
		if len(e) > 600 {
			e = e[:600]
		}
		fmt.Println("ERROR:", e)
	}
	for _, e := range st.Bounds {
		fmt.Println("BOUND:", e)
	}
	for _, e := range st.Inconclusive {
		fmt.Println("INCONCLUSIVE:", e)
	}
	for i, v := range st.Violations {
		if i > 5 {
			break
		}
		b, _ := json.MarshalIndent(v, "", " ")
		fmt.Println("VIOLATION:", string(b))
	}
	if profileSites != nil {
		for _, k := range sortedKeys(profileSites) {
			if profileSites[k] > 200 {
				fmt.Println("QSITE", profileSites[k], k)
			}
		}
	}
	var fl []string
	for _, k := range sortedKeys(st.Funcs) {
		if strings.Contains(k, "vouch") {
			fl = append(fl, fmt.Sprintf("%s:%d", k, st.Funcs[k]))
		}
	}
	fmt.Println("vouch funcs:", strings.Join(fl, " "))
	fmt.Println("stubs:", st.Stubs)
}
