package main

import (
	"fmt"
	"go/token"
	"go/types"
	"math/big"

	"golang.org/x/tools/go/ssa"
)

func (e *Exec) unop(th *Thread, in *ssa.UnOp, x Value) Value {
	c := e.ctx
	switch in.Op {
	case token.MUL: // load
		p, ok := x.(*Value)
		if !ok {
			panic(pathAbort{"error", fmt.Sprintf("load through %T", x)})
		}
		if p == nil {
			panic(goPanic{msg: "invalid memory address or nil pointer dereference (load)"})
		}
		if e.race != nil {
			e.race.access(e, th, p, false, in.Pos())
		}
		return copyVal(*p)
	case token.NOT:
		return c.Not(x.(*Term))
	case token.SUB:
		t := x.(*Term)
		if t.sort.K == SReal {
			return c.RBin("-", c.RConst(new(big.Rat)), t) // negation is exact
		}
		if t.sort.K == SFP {
			return e.fpBin("fp.sub", e.fpConst(0), t)
		}
		return c.Neg(t)
	case token.XOR:
		return c.BNot(x.(*Term))
	case token.ARROW:
		ch := x.(*ChanV)
		v, ok := e.chanRecv(th, ch, in.X.Type().Underlying().(*types.Chan).Elem())
		if in.CommaOk {
			return TupleV{v, c.Bool(ok)}
		}
		return v
	}
	panic(pathAbort{"error", "unsupported unop " + in.Op.String()})
}

func (e *Exec) binop(op token.Token, xt types.Type, x, y Value, rt types.Type) Value {
	c := e.ctx
	switch op {
	case token.EQL:
		return e.eqVal(x, y)
	case token.NEQ:
		return c.Not(e.eqVal(x, y))
	}
	// strings
	if xs, ok := x.(string); ok {
		switch ys := y.(type) {
		case string:
			switch op {
			case token.ADD:
				return xs + ys
			case token.LSS:
				return c.Bool(xs < ys)
			case token.LEQ:
				return c.Bool(xs <= ys)
			case token.GTR:
				return c.Bool(xs > ys)
			case token.GEQ:
				return c.Bool(xs >= ys)
			}
		case *SymStr:
			if op == token.ADD {
				return normSym(&SymStr{parts: append([]interface{}{xs}, ys.parts...)})
			}
		}
		panic(pathAbort{"error", "unsupported string binop " + op.String()})
	}
	if xs, ok := x.(*SymStr); ok {
		if op == token.ADD {
			switch ys := y.(type) {
			case string:
				return normSym(&SymStr{parts: append(append([]interface{}{}, xs.parts...), ys)})
			case *SymStr:
				return normSym(&SymStr{parts: append(append([]interface{}{}, xs.parts...), ys.parts...)})
			}
		}
		panic(pathAbort{"error", "unsupported symbolic string binop " + op.String()})
	}
	a, ok1 := x.(*Term)
	b, ok2 := y.(*Term)
	if !ok1 || !ok2 {
		panic(pathAbort{"error", fmt.Sprintf("binop %s on %T, %T", op, x, y)})
	}
	if a.sort.K == SFP || a.sort.K == SReal {
		switch op {
		case token.ADD:
			return e.fpBin("fp.add", a, b)
		case token.SUB:
			return e.fpBin("fp.sub", a, b)
		case token.MUL:
			return e.fpBin("fp.mul", a, b)
		case token.QUO:
			return e.fpBin("fp.div", a, b)
		case token.LSS:
			return e.fpCmp("fp.lt", a, b)
		case token.LEQ:
			return e.fpCmp("fp.leq", a, b)
		case token.GTR:
			return e.fpCmp("fp.gt", a, b)
		case token.GEQ:
			return e.fpCmp("fp.geq", a, b)
		}
		panic(pathAbort{"error", "unsupported float binop " + op.String()})
	}
	if a.sort.K == SBool {
		switch op {
		case token.LAND, token.AND:
			return c.And(a, b)
		case token.LOR, token.OR:
			return c.Or(a, b)
		}
		panic(pathAbort{"error", "unsupported bool binop " + op.String()})
	}
	w, signed, _ := intWidth(xt)
	if e.intMode && a.sort.K == SInt {
		return e.intModeBinop(op, a, b, w, signed)
	}
	switch op {
	case token.ADD:
		return c.Add(a, b)
	case token.SUB:
		return c.Sub(a, b)
	case token.MUL:
		return c.Mul(a, b)
	case token.QUO, token.REM:
		zero := c.Eq(b, c.BVConst(w, 0))
		if e.branch(zero) {
			panic(goPanic{msg: "integer divide by zero"})
		}
		if signed {
			if op == token.QUO {
				return c.SDiv(a, b)
			}
			return c.SRem(a, b)
		}
		if op == token.QUO {
			return c.UDiv(a, b)
		}
		return c.URem(a, b)
	case token.AND:
		return c.BAnd(a, b)
	case token.OR:
		return c.BOr(a, b)
	case token.XOR:
		return c.BXor(a, b)
	case token.AND_NOT:
		return c.BAnd(a, c.BNot(b))
	case token.SHL, token.SHR:
		// shift count may have another width; Go: count >= width gives 0 (or sign fill)
		bw := b.sort.W
		var cnt *Term
		if bw == w {
			cnt = b
		} else if bw < w {
			cnt = c.ZExt(b, w)
		} else {
			// saturate
			big := c.ULt(c.BVConst(bw, int64(w)), b)
			cnt = c.Ite(big, c.BVConst(w, int64(w)), c.Extract(w-1, 0, b))
		}
		if op == token.SHL {
			return c.Shl(a, cnt)
		}
		if signed {
			return c.AShr(a, cnt)
		}
		return c.LShr(a, cnt)
	case token.LSS:
		if signed {
			return c.SLt(a, b)
		}
		return c.ULt(a, b)
	case token.LEQ:
		if signed {
			return c.SLe(a, b)
		}
		return c.ULe(a, b)
	case token.GTR:
		if signed {
			return c.SLt(b, a)
		}
		return c.ULt(b, a)
	case token.GEQ:
		if signed {
			return c.SLe(b, a)
		}
		return c.ULe(b, a)
	}
	panic(pathAbort{"error", "unsupported binop " + op.String()})
}

// Int mode: integers are mathematical; every result is obliged to stay within
// its machine range (checked by the solver under the path condition).
func (e *Exec) intModeBinop(op token.Token, a, b *Term, w int, signed bool) Value {
	c := e.ctx
	var r *Term
	switch op {
	case token.ADD:
		r = c.intBin("+", a, b)
	case token.SUB:
		r = c.intBin("-", a, b)
	case token.MUL:
		r = c.intBin("*", a, b)
	case token.QUO, token.REM:
		zero := c.Eq(b, c.IntConst(0))
		if e.branch(zero) {
			panic(goPanic{msg: "integer divide by zero"})
		}
		if signed {
			// Go truncates towards zero; SMT-LIB div/mod round to the floor for a positive divisor.
			// A positive divisor is required; a negative dividend is divided as its magnitude and the
			// result negated (quotient and remainder both take the dividend's sign).
			e.intObligation(c.intCmp("lt", c.IntConst(0), b), "signed division: divisor positive")
			neg := c.intCmp("lt", a, c.IntConst(0))
			if neg.IsConst() && neg.c.Sign() == 0 {
				neg = nil
			}
			smt := "div"
			if op == token.REM {
				smt = "mod"
			}
			if neg == nil {
				return c.intBin(smt, a, b)
			}
			minus := func(x *Term) *Term { return c.intBin("-", c.IntConst(0), x) }
			return c.Ite(neg, minus(c.intBin(smt, minus(a), b)), c.intBin(smt, a, b))
		}
		if op == token.QUO {
			return c.intBin("div", a, b)
		}
		return c.intBin("mod", a, b)
	case token.LSS:
		return c.intCmp("lt", a, b)
	case token.LEQ:
		return c.intCmp("le", a, b)
	case token.GTR:
		return c.intCmp("lt", b, a)
	case token.GEQ:
		return c.intCmp("le", b, a)
	default:
		panic(pathAbort{"error", "Int mode: unsupported operator " + op.String()})
	}
	e.intRange(r, w, signed, "arithmetic "+op.String())
	return r
}

func (e *Exec) intBounds(w int, signed bool) (*Term, *Term) {
	c := e.ctx
	if signed {
		lo := new(big.Int).Neg(new(big.Int).Lsh(one, uint(w-1)))
		hi := new(big.Int).Sub(new(big.Int).Lsh(one, uint(w-1)), one)
		return c.Const(IntSort, lo), c.Const(IntSort, hi)
	}
	return c.IntConst(0), c.Const(IntSort, mask(w))
}

func (e *Exec) intRange(r *Term, w int, signed bool, what string) {
	lo, hi := e.intBounds(w, signed)
	c := e.ctx
	e.intObligation(c.And(c.intCmp("le", lo, r), c.intCmp("le", r, hi)), what+" stays in range")
}

// intObligation: cond must hold on every model of the path condition, else the
// Int-mode encoding is not faithful (possible wrap-around) and the run is rejected.
func (e *Exec) intObligation(cond *Term, what string) {
	if cond.IsTrue() {
		return
	}
	e.overflowObl++
	v := e.feasible(e.ctx.Not(cond))
	if v != Unsat {
		panic(pathAbort{"error", "Int mode obligation not discharged (" + v.String() + "): " + what})
	}
}

func (e *Exec) conv(dst, src types.Type, x Value) Value {
	c := e.ctx
	ud, us := dst.Underlying(), src.Underlying()
	// type-parameter core types
	switch us := us.(type) {
	case *types.Basic:
		if us.Info()&types.IsString != 0 {
			switch ud := ud.(type) {
			case *types.Slice:
				s, ok := x.(string)
				if !ok {
					panic(pathAbort{"error", "conversion of symbolic string to slice"})
				}
				if eb, ok := ud.Elem().Underlying().(*types.Basic); ok && eb.Kind() == types.Int32 {
					rs := []rune(s)
					out := make(SliceV, len(rs))
					for i, r := range rs {
						out[i] = c.BVConst(32, int64(r))
					}
					return out
				}
				out := make(SliceV, len(s))
				for i := 0; i < len(s); i++ {
					out[i] = e.intConst(8, int64(s[i]))
				}
				return out
			case *types.Basic:
				if ud.Info()&types.IsString != 0 {
					return x
				}
			}
		}
		if us.Info()&types.IsInteger != 0 {
			t := x.(*Term)
			sw, ssigned, _ := intWidth(us)
			switch ud := ud.(type) {
			case *types.Basic:
				if ud.Info()&types.IsInteger != 0 {
					dw, dsigned, _ := intWidth(ud)
					if e.intMode && t.sort.K == SInt {
						e.intRange(t, dw, dsigned, "integer conversion")
						return t
					}
					if dw <= sw {
						return c.Extract(dw-1, 0, t)
					}
					if ssigned {
						return c.SExt(t, dw)
					}
					return c.ZExt(t, dw)
				}
				if ud.Info()&types.IsFloat != 0 {
					return e.fpFromInt(t, ssigned)
				}
				if ud.Info()&types.IsString != 0 {
					if t.IsConst() {
						return string(rune(t.Int64()))
					}
					panic(pathAbort{"error", "string(symbolic rune)"})
				}
			}
		}
		if us.Info()&types.IsFloat != 0 {
			t := x.(*Term)
			if ud, ok := ud.(*types.Basic); ok {
				if ud.Info()&types.IsFloat != 0 {
					return t
				}
				if ud.Info()&types.IsInteger != 0 {
					dw, dsigned, _ := intWidth(ud)
					return e.fpToInt(t, dw, dsigned)
				}
			}
		}
		if us.Kind() == types.UnsafePointer {
			return x
		}
	case *types.Slice:
		if ud, ok := ud.(*types.Basic); ok && ud.Info()&types.IsString != 0 {
			s := x.(SliceV)
			bs := make([]byte, len(s))
			for i, b := range s {
				t := b.(*Term)
				if !t.IsConst() {
					panic(pathAbort{"error", "string([]byte) with symbolic content"})
				}
				bs[i] = byte(t.Uint64())
			}
			if eb, ok := us.Elem().Underlying().(*types.Basic); ok && eb.Kind() == types.Int32 {
				rs := make([]rune, len(s))
				for i, b := range s {
					rs[i] = rune(b.(*Term).Int64())
				}
				return string(rs)
			}
			return string(bs)
		}
		if _, ok := ud.(*types.Slice); ok {
			return x
		}
		if ad, ok := ud.(*types.Array); ok {
			s := x.(SliceV)
			if int64(len(s)) < ad.Len() {
				panic(goPanic{msg: fmt.Sprintf("cannot convert slice with length %d to array or pointer to array with length %d", len(s), ad.Len())})
			}
			return copyVal(ArrayV(s[:ad.Len()]))
		}
		if pd, ok := ud.(*types.Pointer); ok {
			s := x.(SliceV)
			n := int(pd.Elem().Underlying().(*types.Array).Len())
			if len(s) < n {
				panic(goPanic{msg: fmt.Sprintf("cannot convert slice with length %d to array or pointer to array with length %d", len(s), n)})
			}
			if s == nil {
				return (*Value)(nil)
			}
			var v Value = ArrayV(s[:n:n])
			return &v
		}
	case *types.Pointer:
		return x
	}
	panic(pathAbort{"error", fmt.Sprintf("unsupported conversion %v -> %v", src, dst)})
}

func (e *Exec) sliceOp(fr *Frame, in *ssa.Slice) Value {
	x := e.get(fr, in.X)
	getIdx := func(v ssa.Value, def int) int {
		if v == nil {
			return def
		}
		return e.concreteInt(e.get(fr, v), "slice bound")
	}
	switch x := x.(type) {
	case SliceV:
		lo := getIdx(in.Low, 0)
		hi := getIdx(in.High, len(x))
		mx := getIdx(in.Max, cap(x))
		if lo < 0 || hi < lo || hi > cap(x) || mx < hi || mx > cap(x) {
			panic(goPanic{msg: fmt.Sprintf("slice bounds out of range [%d:%d] with capacity %d", lo, hi, cap(x))})
		}
		if x == nil {
			return SliceV(nil)
		}
		return x[lo:hi:mx]
	case *Value:
		if x == nil {
			panic(goPanic{msg: "invalid memory address or nil pointer dereference (slice of nil array pointer)"})
		}
		a := (*x).(ArrayV)
		lo := getIdx(in.Low, 0)
		hi := getIdx(in.High, len(a))
		mx := getIdx(in.Max, len(a))
		if lo < 0 || hi < lo || hi > len(a) || mx < hi || mx > len(a) {
			panic(goPanic{msg: fmt.Sprintf("slice bounds out of range [%d:%d] with length %d", lo, hi, len(a))})
		}
		return SliceV(a)[lo:hi:mx]
	case string:
		lo := getIdx(in.Low, 0)
		hi := getIdx(in.High, len(x))
		if lo < 0 || hi < lo || hi > len(x) {
			panic(goPanic{msg: fmt.Sprintf("slice bounds out of range [%d:%d] with length %d", lo, hi, len(x))})
		}
		return x[lo:hi]
	}
	panic(pathAbort{"error", fmt.Sprintf("slice of %T", x)})
}

// ---- maps ----

// mapFind locates key in m, forking on symbolic key equality.
func (e *Exec) mapFind(m *MapV, key Value) *mapEntry {
	if m == nil {
		return nil
	}
	for _, en := range m.entries {
		eq := e.eqVal(en.k, key)
		if eq.IsTrue() {
			return en
		}
		if eq.IsFalse() {
			continue
		}
		if e.branch(eq) {
			return en
		}
	}
	return nil
}

func (e *Exec) lookup(th *Thread, in *ssa.Lookup, x, idx Value) Value {
	switch x := x.(type) {
	case *MapV:
		if e.race != nil && x != nil {
			e.race.accessObj(e, th, x, false, in.Pos())
		}
		en := e.mapFind(x, idx)
		var v Value
		if en != nil {
			v = copyVal(en.v)
		} else {
			v = e.zero(in.X.Type().Underlying().(*types.Map).Elem())
		}
		if in.CommaOk {
			return TupleV{v, e.ctx.Bool(en != nil)}
		}
		return v
	case string:
		t := idx.(*Term)
		i := e.concretizeIndex(t, len(x), true)
		if i < 0 {
			panic(goPanic{msg: "index out of range (string)"})
		}
		return e.intConst(8, int64(x[i]))
	}
	panic(pathAbort{"error", fmt.Sprintf("lookup on %T", x)})
}

func (e *Exec) mapSet(th *Thread, m *MapV, k, v Value, pos token.Pos) {
	if e.race != nil {
		e.race.accessObj(e, th, m, true, pos)
	}
	if en := e.mapFind(m, k); en != nil {
		en.v = copyVal(v)
		return
	}
	m.entries = append(m.entries, &mapEntry{k: copyVal(k), v: copyVal(v)})
}

func (e *Exec) mapDelete(th *Thread, m *MapV, k Value) {
	if m == nil {
		return
	}
	if e.race != nil {
		e.race.accessObj(e, th, m, true, token.NoPos)
	}
	en := e.mapFind(m, k)
	if en == nil {
		return
	}
	for i, x := range m.entries {
		if x == en {
			m.entries = append(m.entries[:i:i], m.entries[i+1:]...)
			return
		}
	}
}

type iterV struct {
	m       *MapV
	entries []*mapEntry
	str     string
	isStr   bool
	i       int
}

func (e *Exec) rangeIter(th *Thread, x Value) Value {
	switch x := x.(type) {
	case *MapV:
		it := &iterV{m: x}
		if x != nil {
			if e.race != nil {
				e.race.accessObj(e, th, x, false, token.NoPos)
			}
			it.entries = append(it.entries, x.entries...)
			if e.opts.MapOrders && len(it.entries) > 1 && len(it.entries) <= 3 {
				// explore every iteration order
				perms := permutations(len(it.entries))
				alts := make([]*Term, len(perms))
				for i := range alts {
					alts[i] = e.ctx.True
				}
				p := perms[e.choose("maporder", alts)]
				ne := make([]*mapEntry, len(p))
				for i, j := range p {
					ne[i] = it.entries[j]
				}
				it.entries = ne
			}
		}
		return it
	case string:
		return &iterV{str: x, isStr: true}
	}
	panic(pathAbort{"error", fmt.Sprintf("range over %T", x)})
}

func permutations(n int) [][]int {
	if n == 1 {
		return [][]int{{0}}
	}
	var out [][]int
	for _, p := range permutations(n - 1) {
		for pos := n - 1; pos >= 0; pos-- {
			q := make([]int, 0, n)
			q = append(q, p[:pos]...)
			q = append(q, n-1)
			q = append(q, p[pos:]...)
			out = append(out, q)
		}
	}
	return out
}

func (it *iterV) next(e *Exec) Value {
	c := e.ctx
	if it.isStr {
		if it.i >= len(it.str) {
			return TupleV{c.False, c.BVConst(64, 0), c.BVConst(32, 0)}
		}
		rs := []rune(it.str[it.i:])
		r := rs[0]
		idx := it.i
		it.i += len(string(r))
		return TupleV{c.True, c.BVConst(64, int64(idx)), c.BVConst(32, int64(r))}
	}
	for it.i < len(it.entries) {
		en := it.entries[it.i]
		it.i++
		// skip entries deleted during iteration
		live := false
		for _, x := range it.m.entries {
			if x == en {
				live = true
			}
		}
		if live {
			return TupleV{c.True, copyVal(en.k), copyVal(en.v)}
		}
	}
	return TupleV{c.False, nil, nil}
}

// ---- type assertions ----

func (e *Exec) implements(t types.Type, iface *types.Interface) bool {
	e.P.buildMu.Lock()
	defer e.P.buildMu.Unlock()
	return types.Implements(t, iface)
}

func (e *Exec) typeAssert(in *ssa.TypeAssert, x IfaceV) Value {
	ok := false
	var v Value
	if x.t != nil {
		if it, isIface := in.AssertedType.Underlying().(*types.Interface); isIface {
			if _, opaque := x.v.(*OpaqueV); opaque {
				ok = true
			} else {
				ok = e.implements(x.t, it)
			}
			v = x
		} else {
			ok = types.Identical(x.t, in.AssertedType)
			v = x.v
		}
	}
	if !ok {
		if in.CommaOk {
			return TupleV{e.zero(in.AssertedType), e.ctx.False}
		}
		panic(goPanic{msg: fmt.Sprintf("interface conversion: interface is %v, not %v", x.t, in.AssertedType)})
	}
	if in.CommaOk {
		return TupleV{v, e.ctx.True}
	}
	return v
}

// ---- builtins ----

func (e *Exec) callBuiltin(th *Thread, b *ssa.Builtin, args []Value) Value {
	c := e.ctx
	switch b.Name() {
	case "append":
		if len(args) == 1 {
			return args[0]
		}
		dst, _ := args[0].(SliceV)
		switch src := args[1].(type) {
		case SliceV:
			if len(src) == 0 {
				return dst
			}
			out := dst
			for _, x := range src {
				inPlace := len(out) < cap(out)
				out = append(out, copyVal(x))
				if inPlace && e.race != nil {
					// appended within the capacity: a write to a cell of the backing array that
					// other slices of the same array (and their readers) share
					pos := token.NoPos
					if fr := th.top; fr != nil && fr.block != nil && fr.pc < len(fr.block.Instrs) {
						pos = fr.block.Instrs[fr.pc].Pos()
					}
					e.race.access(e, th, &out[len(out)-1], true, pos)
				}
			}
			return out
		case string:
			out := dst
			for i := 0; i < len(src); i++ {
				out = append(out, e.intConst(8, int64(src[i])))
			}
			return out
		case nil:
			return dst
		}
		panic(pathAbort{"error", fmt.Sprintf("append of %T", args[1])})
	case "copy":
		dst := args[0].(SliceV)
		n := 0
		switch src := args[1].(type) {
		case SliceV:
			n = len(src)
			if len(dst) < n {
				n = len(dst)
			}
			tmp := make([]Value, n)
			for i := 0; i < n; i++ {
				tmp[i] = copyVal(src[i])
			}
			for i := 0; i < n; i++ {
				dst[i] = tmp[i]
			}
		case string:
			n = len(src)
			if len(dst) < n {
				n = len(dst)
			}
			for i := 0; i < n; i++ {
				dst[i] = e.intConst(8, int64(src[i]))
			}
		}
		return e.intConst(64, int64(n))
	case "len":
		switch x := args[0].(type) {
		case string:
			return e.intConst(64, int64(len(x)))
		case *SymStr:
			panic(pathAbort{"error", "len of symbolic string"})
		case SliceV:
			return e.intConst(64, int64(len(x)))
		case ArrayV:
			return e.intConst(64, int64(len(x)))
		case *Value:
			return e.intConst(64, int64(len((*x).(ArrayV))))
		case *MapV:
			if x == nil {
				return e.intConst(64, 0)
			}
			if e.race != nil {
				e.race.accessObj(e, th, x, false, token.NoPos)
			}
			return e.intConst(64, int64(len(x.entries)))
		case *ChanV:
			if x == nil {
				return e.intConst(64, 0)
			}
			return e.intConst(64, int64(len(x.buf)))
		}
		panic(pathAbort{"error", fmt.Sprintf("len of %T", args[0])})
	case "cap":
		switch x := args[0].(type) {
		case SliceV:
			return e.intConst(64, int64(cap(x)))
		case ArrayV:
			return e.intConst(64, int64(len(x)))
		case *ChanV:
			if x == nil {
				return e.intConst(64, 0)
			}
			return e.intConst(64, int64(x.cap))
		}
		panic(pathAbort{"error", fmt.Sprintf("cap of %T", args[0])})
	case "delete":
		e.mapDelete(th, args[0].(*MapV), args[1])
		return nil
	case "close":
		e.chanClose(th, args[0].(*ChanV))
		return nil
	case "panic":
		panic(goPanic{val: args[0], msg: "panic: " + e.panicString(th, args[0])})
	case "recover":
		return e.doRecover(th)
	case "print", "println":
		return nil
	case "min", "max":
		r := args[0].(*Term)
		for _, a := range args[1:] {
			t := a.(*Term)
			var lt *Term
			if r.sort.K == SFP || r.sort.K == SReal {
				lt = e.fpCmp("fp.lt", t, r)
			} else if r.sort.K == SInt {
				lt = c.intCmp("lt", t, r)
			} else {
				// signedness unknown here: derive from builtin signature
				sig := b.Type().(*types.Signature)
				_, signed, _ := intWidth(sig.Params().At(0).Type())
				if signed {
					lt = c.SLt(t, r)
				} else {
					lt = c.ULt(t, r)
				}
			}
			if b.Name() == "min" {
				r = c.Ite(lt, t, r)
			} else {
				r = c.Ite(lt, r, t)
			}
		}
		return r
	case "clear":
		switch x := args[0].(type) {
		case *MapV:
			if x != nil {
				x.entries = nil
			}
		}
		return nil
	case "ssa:wrapnilchk":
		if isNilValue(args[0]) {
			panic(goPanic{msg: "value method called using nil pointer"})
		}
		return args[0]
	}
	panic(pathAbort{"error", "unsupported builtin " + b.Name()})
}
