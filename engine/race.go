package main

// Happens-before race monitor (vector clocks over synchronisation executed
// so far). Plain loads/stores through pointers and map operations are
// recorded per location; two conflicting accesses not ordered by
// happens-before are reported as a data race.

import (
	"fmt"
	"go/token"
	"strings"

	"golang.org/x/tools/go/ssa"
)

type accessRec struct {
	tid   int
	clock int
	write bool
	pos   token.Pos
}

type raceMon struct {
	cells     map[*Value][]accessRec
	objs      map[interface{}][]accessRec
	found     *Violation
	harnessFn map[*ssa.Function]bool
}

func newRaceMon() *raceMon {
	return &raceMon{cells: map[*Value][]accessRec{}, objs: map[interface{}][]accessRec{}, harnessFn: map[*ssa.Function]bool{}}
}

func vcGet(vc []int, i int) int {
	if i < len(vc) {
		return vc[i]
	}
	return 0
}

func vcSet(vc *[]int, i, v int) {
	for len(*vc) <= i {
		*vc = append(*vc, 0)
	}
	(*vc)[i] = v
}

func vcJoin(dst *[]int, src []int) {
	for i, v := range src {
		if vcGet(*dst, i) < v {
			vcSet(dst, i, v)
		}
	}
}

func (r *raceMon) newThread(e *Exec, th *Thread) {
	if th.id >= 0 {
		vcSet(&th.vc, th.id, 1)
	}
}

func (r *raceMon) fork(e *Exec, parent, child *Thread) {
	child.vc = append([]int(nil), parent.vc...)
	vcSet(&child.vc, child.id, 1)
	if parent.id >= 0 {
		vcSet(&parent.vc, parent.id, vcGet(parent.vc, parent.id)+1)
	}
}

func (r *raceMon) threadExit(e *Exec, th *Thread) {}

func (r *raceMon) acquire(e *Exec, th *Thread, vc []int) {
	if th == nil || th.id < 0 {
		return
	}
	vcJoin(&th.vc, vc)
}

func (r *raceMon) release(e *Exec, th *Thread, vc *[]int) {
	if th == nil || th.id < 0 {
		return
	}
	vcJoin(vc, th.vc)
	vcSet(&th.vc, th.id, vcGet(th.vc, th.id)+1)
}

func (r *raceMon) check(e *Exec, th *Thread, recs []accessRec, write bool, pos token.Pos) []accessRec {
	if th == nil || th.id < 0 {
		return recs
	}
	for _, a := range recs {
		if a.tid == th.id {
			continue
		}
		if !a.write && !write {
			continue
		}
		if vcGet(th.vc, a.tid) >= a.clock {
			continue // ordered
		}
		if r.found == nil {
			kind := func(w bool) string {
				if w {
					return "write"
				}
				return "read"
			}
			r.found = &Violation{Kind: "race", Label: "data-race",
				Msg: fmt.Sprintf("unsynchronised %s at %s (goroutine %d) conflicts with %s at %s (goroutine %d)",
					kind(write), e.pos(pos), th.id, kind(a.write), e.pos(a.pos), a.tid),
				Stack: e.stack(th)}
		}
	}
	// keep last write and reads since
	rec := accessRec{tid: th.id, clock: vcGet(th.vc, th.id), write: write, pos: pos}
	if write {
		return []accessRec{rec}
	}
	out := recs[:0:0]
	for _, a := range recs {
		if !(a.tid == th.id && !a.write) {
			out = append(out, a)
		}
	}
	return append(out, rec)
}

// inHarness reports whether the thread currently executes harness code (stubs
// and oracles are not the subject of the race check).
func (r *raceMon) inHarness(e *Exec, th *Thread) bool {
	if th == nil || th.top == nil || th.top.fn == nil {
		return true
	}
	fn := th.top.fn
	if v, ok := r.harnessFn[fn]; ok {
		return v
	}
	name := e.P.fset.Position(fn.Pos()).Filename
	for p := fn; name == "" && p != nil; p = p.Parent() {
		name = e.P.fset.Position(p.Pos()).Filename
	}
	h := strings.Contains(name, "zz_verif") || strings.Contains(name, "/internal/vstub/") || strings.Contains(name, "/internal/vnd/") || !strings.HasPrefix(name, repoDir+"/")
	r.harnessFn[fn] = h
	return h
}

func (r *raceMon) access(e *Exec, th *Thread, p *Value, write bool, pos token.Pos) {
	if len(e.threads) < 2 || r.inHarness(e, th) {
		return
	}
	r.cells[p] = r.check(e, th, r.cells[p], write, pos)
}

func (r *raceMon) accessObj(e *Exec, th *Thread, o interface{}, write bool, pos token.Pos) {
	if len(e.threads) < 2 || r.inHarness(e, th) {
		return
	}
	r.objs[o] = r.check(e, th, r.objs[o], write, pos)
}
