package main

// Hash-consed SMT term DAG with eager simplification.
// Integers are bit-vectors (wrap-around Go semantics); optionally
// mathematical integers ("Int mode", see ctx.intMode).

import (
	"fmt"
	"math/big"
	"strings"
)

type SortKind int

const (
	SBool SortKind = iota
	SBV
	SInt
	SFP // float64
	SReal
)

type Sort struct {
	K SortKind
	W int
}

func (s Sort) String() string {
	switch s.K {
	case SBool:
		return "Bool"
	case SBV:
		return fmt.Sprintf("(_ BitVec %d)", s.W)
	case SInt:
		return "Int"
	case SFP:
		return "(_ FloatingPoint 11 53)"
	case SReal:
		return "Real"
	}
	return "?"
}

var BoolSort = Sort{SBool, 0}
var IntSort = Sort{SInt, 0}
var FPSort = Sort{SFP, 64}
var RealSort = Sort{SReal, 0}

func BV(w int) Sort { return Sort{SBV, w} }

type Term struct {
	id   int
	op   string
	sort Sort
	args []*Term
	c    *big.Int // constants (BV/Int/Bool as 0/1); FP const bits
	name string   // variables / UF names
	p1   int      // extract hi / extend amount
	p2   int      // extract lo
	rat  *big.Rat // rconst
}

func (t *Term) IsConst() bool { return t.op == "const" }
func (t *Term) String() string {
	if t.op == "const" {
		if t.sort.K == SBool {
			if t.c.Sign() != 0 {
				return "true"
			}
			return "false"
		}
		return t.c.String()
	}
	if t.op == "var" {
		return t.name
	}
	var sb strings.Builder
	sb.WriteString("(" + t.op)
	if t.op == "extract" {
		fmt.Fprintf(&sb, "[%d:%d]", t.p1, t.p2)
	}
	if t.op == "app" {
		sb.WriteString(":" + t.name)
	}
	for _, a := range t.args {
		sb.WriteString(" ")
		s := a.String()
		if len(s) > 200 {
			s = s[:200] + "…"
		}
		sb.WriteString(s)
	}
	sb.WriteString(")")
	return sb.String()
}

// Ctx owns a term table. One per worker (not shared between goroutines).
type Ctx struct {
	tab     map[string]*Term
	terms   []*Term
	vars    []*Term
	ufs     map[string]*ufDecl
	ufOrder []string
	True    *Term
	False   *Term
	nfresh  int
}

type ufDecl struct {
	name string
	args []Sort
	res  Sort
}

func NewCtx() *Ctx {
	c := &Ctx{tab: map[string]*Term{}, ufs: map[string]*ufDecl{}}
	c.True = c.Const(BoolSort, big.NewInt(1))
	c.False = c.Const(BoolSort, big.NewInt(0))
	return c
}

func (c *Ctx) intern(t *Term) *Term {
	var sb strings.Builder
	sb.WriteString(t.op)
	sb.WriteByte('|')
	sb.WriteString(t.sort.String())
	sb.WriteByte('|')
	if t.c != nil {
		sb.WriteString(t.c.String())
	}
	sb.WriteByte('|')
	sb.WriteString(t.name)
	fmt.Fprintf(&sb, "|%d|%d", t.p1, t.p2)
	for _, a := range t.args {
		fmt.Fprintf(&sb, ",%d", a.id)
	}
	k := sb.String()
	if e, ok := c.tab[k]; ok {
		return e
	}
	t.id = len(c.terms)
	c.terms = append(c.terms, t)
	c.tab[k] = t
	return t
}

var one = big.NewInt(1)

func mask(w int) *big.Int {
	m := new(big.Int).Lsh(one, uint(w))
	return m.Sub(m, one)
}

func (c *Ctx) Const(s Sort, v *big.Int) *Term {
	v = new(big.Int).Set(v)
	if s.K == SBV {
		v.And(v, mask(s.W)) // two's complement for negatives handled by And on big.Int
	}
	return c.intern(&Term{op: "const", sort: s, c: v})
}

func (c *Ctx) BVConst(w int, v int64) *Term {
	return c.Const(BV(w), big.NewInt(v))
}
func (c *Ctx) BVConstU(w int, v uint64) *Term {
	return c.Const(BV(w), new(big.Int).SetUint64(v))
}
func (c *Ctx) Bool(b bool) *Term {
	if b {
		return c.True
	}
	return c.False
}

func (c *Ctx) Var(name string, s Sort) *Term {
	t := c.intern(&Term{op: "var", sort: s, name: name})
	if t.id == len(c.terms)-1 {
		// possibly newly created
		found := false
		for i := len(c.vars) - 1; i >= 0 && i >= len(c.vars)-4; i-- {
			if c.vars[i] == t {
				found = true
			}
		}
		if !found {
			c.vars = append(c.vars, t)
		}
	}
	return t
}

func (c *Ctx) Fresh(prefix string, s Sort) *Term {
	c.nfresh++
	return c.Var(fmt.Sprintf("%s!%d", prefix, c.nfresh), s)
}

// signed value of a BV constant
func (t *Term) Signed() *big.Int {
	v := new(big.Int).Set(t.c)
	if t.sort.K == SBV && v.Bit(t.sort.W-1) == 1 {
		v.Sub(v, new(big.Int).Lsh(one, uint(t.sort.W)))
	}
	return v
}

func (t *Term) Uint64() uint64 { return t.c.Uint64() }
func (t *Term) Int64() int64   { return t.Signed().Int64() }
func (t *Term) IsTrue() bool   { return t.op == "const" && t.sort.K == SBool && t.c.Sign() != 0 }
func (t *Term) IsFalse() bool  { return t.op == "const" && t.sort.K == SBool && t.c.Sign() == 0 }

func (c *Ctx) mk(op string, s Sort, args ...*Term) *Term {
	return c.intern(&Term{op: op, sort: s, args: args})
}

// ---- boolean ----

func (c *Ctx) Not(a *Term) *Term {
	if a.IsConst() {
		return c.Bool(a.c.Sign() == 0)
	}
	if a.op == "not" {
		return a.args[0]
	}
	return c.mk("not", BoolSort, a)
}

func (c *Ctx) And(a, b *Term) *Term {
	if a.IsFalse() || b.IsFalse() {
		return c.False
	}
	if a.IsTrue() {
		return b
	}
	if b.IsTrue() {
		return a
	}
	if a == b {
		return a
	}
	if c.Not(a) == b {
		return c.False
	}
	return c.mk("and", BoolSort, a, b)
}

func (c *Ctx) Or(a, b *Term) *Term {
	if a.IsTrue() || b.IsTrue() {
		return c.True
	}
	if a.IsFalse() {
		return b
	}
	if b.IsFalse() {
		return a
	}
	if a == b {
		return a
	}
	if c.Not(a) == b {
		return c.True
	}
	return c.mk("or", BoolSort, a, b)
}

func (c *Ctx) Implies(a, b *Term) *Term { return c.Or(c.Not(a), b) }

func (c *Ctx) AndN(ts ...*Term) *Term {
	r := c.True
	for _, t := range ts {
		r = c.And(r, t)
	}
	return r
}

func (c *Ctx) Ite(cond, a, b *Term) *Term {
	if cond.IsTrue() {
		return a
	}
	if cond.IsFalse() {
		return b
	}
	if a == b {
		return a
	}
	if a.sort.K == SBool {
		if a.IsTrue() && b.IsFalse() {
			return cond
		}
		if a.IsFalse() && b.IsTrue() {
			return c.Not(cond)
		}
	}
	return c.mk("ite", a.sort, cond, a, b)
}

func (c *Ctx) Eq(a, b *Term) *Term {
	if a == b {
		return c.True
	}
	if a.sort != b.sort {
		panic(fmt.Sprintf("Eq sort mismatch %v %v: %v vs %v", a.sort, b.sort, a, b))
	}
	if a.IsConst() && b.IsConst() {
		return c.Bool(a.c.Cmp(b.c) == 0)
	}
	if a.sort.K == SBool {
		if a.IsTrue() {
			return b
		}
		if b.IsTrue() {
			return a
		}
		if a.IsFalse() {
			return c.Not(b)
		}
		if b.IsFalse() {
			return c.Not(a)
		}
	}
	if a.sort.K == SFP {
		return c.mk("fp.eq", BoolSort, a, b)
	}
	if a.id > b.id {
		a, b = b, a
	}
	// (ite c k1 k2) == k  simplification
	for _, p := range [][2]*Term{{a, b}, {b, a}} {
		x, k := p[0], p[1]
		if x.op == "ite" && k.IsConst() && x.args[1].IsConst() && x.args[2].IsConst() {
			e1 := x.args[1].c.Cmp(k.c) == 0
			e2 := x.args[2].c.Cmp(k.c) == 0
			switch {
			case e1 && e2:
				return c.True
			case e1:
				return x.args[0]
			case e2:
				return c.Not(x.args[0])
			default:
				return c.False
			}
		}
	}
	return c.mk("=", BoolSort, a, b)
}

// ---- bit-vector arithmetic ----

func (c *Ctx) bin(op string, a, b *Term) *Term {
	if a.sort != b.sort {
		panic(fmt.Sprintf("%s sort mismatch %v %v (%v, %v)", op, a.sort, b.sort, a, b))
	}
	w := a.sort.W
	if a.sort.K == SInt {
		return c.intBin(op, a, b)
	}
	if a.IsConst() && b.IsConst() {
		x, y := a.c, b.c
		r := new(big.Int)
		switch op {
		case "bvadd":
			r.Add(x, y)
		case "bvsub":
			r.Sub(x, y)
		case "bvmul":
			r.Mul(x, y)
		case "bvudiv":
			if y.Sign() == 0 {
				r = mask(w)
			} else {
				r.Div(x, y)
			}
		case "bvurem":
			if y.Sign() == 0 {
				r.Set(x)
			} else {
				r.Mod(x, y)
			}
		case "bvsdiv":
			if y.Sign() == 0 {
				goto nofold
			}
			r.Quo(a.Signed(), b.Signed())
		case "bvsrem":
			if y.Sign() == 0 {
				goto nofold
			}
			r.Rem(a.Signed(), b.Signed())
		case "bvand":
			r.And(x, y)
		case "bvor":
			r.Or(x, y)
		case "bvxor":
			r.Xor(x, y)
		case "bvshl":
			if y.Cmp(big.NewInt(int64(w))) >= 0 {
				r.SetInt64(0)
			} else {
				r.Lsh(x, uint(y.Uint64()))
			}
		case "bvlshr":
			if y.Cmp(big.NewInt(int64(w))) >= 0 {
				r.SetInt64(0)
			} else {
				r.Rsh(x, uint(y.Uint64()))
			}
		case "bvashr":
			sh := uint(w)
			if y.Cmp(big.NewInt(int64(w))) < 0 {
				sh = uint(y.Uint64())
			}
			r.Rsh(a.Signed(), sh)
		default:
			goto nofold
		}
		return c.Const(a.sort, r)
	}
nofold:
	// identities
	switch op {
	case "bvadd":
		if a.IsConst() && a.c.Sign() == 0 {
			return b
		}
		if b.IsConst() && b.c.Sign() == 0 {
			return a
		}
		if a.IsConst() { // canonical: const on the right
			a, b = b, a
		}
		// (x + k1) + k2
		if b.IsConst() && a.op == "bvadd" && a.args[1].IsConst() {
			return c.bin("bvadd", a.args[0], c.Const(a.sort, new(big.Int).Add(a.args[1].c, b.c)))
		}
	case "bvsub":
		if b.IsConst() && b.c.Sign() == 0 {
			return a
		}
		if b.op == "bvsub" && b.args[0] == a {
			return b.args[1] // a - (a - x) = x
		}
		if a == b {
			return c.Const(a.sort, big.NewInt(0))
		}
		if b.IsConst() {
			return c.bin("bvadd", a, c.Const(a.sort, new(big.Int).Neg(b.c)))
		}
	case "bvmul":
		if a.IsConst() {
			a, b = b, a
		}
		if b.IsConst() {
			if b.c.Sign() == 0 {
				return b
			}
			if b.c.Cmp(one) == 0 {
				return a
			}
		}
	case "bvudiv", "bvsdiv":
		if b.IsConst() && b.c.Cmp(one) == 0 {
			return a
		}
	case "bvand":
		if a == b {
			return a
		}
		if a.IsConst() {
			a, b = b, a
		}
		if b.IsConst() {
			if b.c.Sign() == 0 {
				return b
			}
			if b.c.Cmp(mask(w)) == 0 {
				return a
			}
		}
	case "bvor":
		if a == b {
			return a
		}
		if a.IsConst() {
			a, b = b, a
		}
		if b.IsConst() {
			if b.c.Sign() == 0 {
				return a
			}
			if b.c.Cmp(mask(w)) == 0 {
				return b
			}
		}
	case "bvxor":
		if a == b {
			return c.Const(a.sort, big.NewInt(0))
		}
		if b.IsConst() && b.c.Sign() == 0 {
			return a
		}
		if a.IsConst() && a.c.Sign() == 0 {
			return b
		}
	case "bvshl", "bvlshr", "bvashr":
		if b.IsConst() && b.c.Sign() == 0 {
			return a
		}
	}
	return c.mk(op, a.sort, a, b)
}

func (c *Ctx) Add(a, b *Term) *Term  { return c.bin("bvadd", a, b) }
func (c *Ctx) Sub(a, b *Term) *Term  { return c.bin("bvsub", a, b) }
func (c *Ctx) Mul(a, b *Term) *Term  { return c.bin("bvmul", a, b) }
func (c *Ctx) UDiv(a, b *Term) *Term { return c.bin("bvudiv", a, b) }
func (c *Ctx) SDiv(a, b *Term) *Term { return c.bin("bvsdiv", a, b) }
func (c *Ctx) URem(a, b *Term) *Term { return c.bin("bvurem", a, b) }
func (c *Ctx) SRem(a, b *Term) *Term { return c.bin("bvsrem", a, b) }
func (c *Ctx) BAnd(a, b *Term) *Term { return c.bin("bvand", a, b) }
func (c *Ctx) BOr(a, b *Term) *Term  { return c.bin("bvor", a, b) }
func (c *Ctx) BXor(a, b *Term) *Term { return c.bin("bvxor", a, b) }
func (c *Ctx) Shl(a, b *Term) *Term  { return c.bin("bvshl", a, b) }
func (c *Ctx) LShr(a, b *Term) *Term { return c.bin("bvlshr", a, b) }
func (c *Ctx) AShr(a, b *Term) *Term { return c.bin("bvashr", a, b) }

func (c *Ctx) BNot(a *Term) *Term {
	if a.IsConst() {
		return c.Const(a.sort, new(big.Int).Xor(a.c, mask(a.sort.W)))
	}
	return c.mk("bvnot", a.sort, a)
}
func (c *Ctx) Neg(a *Term) *Term {
	if a.sort.K == SInt {
		return c.intBin("-", c.Const(IntSort, big.NewInt(0)), a)
	}
	if a.IsConst() {
		return c.Const(a.sort, new(big.Int).Neg(a.c))
	}
	return c.mk("bvneg", a.sort, a)
}

func (c *Ctx) cmp(op string, a, b *Term) *Term {
	if a.sort != b.sort {
		panic(fmt.Sprintf("%s sort mismatch %v %v", op, a.sort, b.sort))
	}
	if a.sort.K == SInt {
		return c.intCmp(op, a, b)
	}
	if a.IsConst() && b.IsConst() {
		var r int
		if op[2] == 'u' {
			r = a.c.Cmp(b.c)
		} else {
			r = a.Signed().Cmp(b.Signed())
		}
		switch op[3:] {
		case "lt":
			return c.Bool(r < 0)
		case "le":
			return c.Bool(r <= 0)
		}
	}
	if a == b {
		return c.Bool(op[3:] == "le")
	}
	if op == "bvult" && b.IsConst() && b.c.Sign() == 0 {
		return c.False
	}
	if op == "bvule" && a.IsConst() && a.c.Sign() == 0 {
		return c.True
	}
	return c.mk(op, BoolSort, a, b)
}

func (c *Ctx) ULt(a, b *Term) *Term { return c.cmp("bvult", a, b) }
func (c *Ctx) ULe(a, b *Term) *Term { return c.cmp("bvule", a, b) }
func (c *Ctx) SLt(a, b *Term) *Term { return c.cmp("bvslt", a, b) }
func (c *Ctx) SLe(a, b *Term) *Term { return c.cmp("bvsle", a, b) }

func (c *Ctx) Extract(hi, lo int, a *Term) *Term {
	if lo == 0 && hi == a.sort.W-1 {
		return a
	}
	if a.IsConst() {
		r := new(big.Int).Rsh(a.c, uint(lo))
		return c.Const(BV(hi-lo+1), r)
	}
	if a.op == "zext" || a.op == "sext" {
		in := a.args[0]
		if hi < in.sort.W {
			return c.Extract(hi, lo, in)
		}
	}
	if a.op == "concat" {
		lw := a.args[1].sort.W
		if hi < lw {
			return c.Extract(hi, lo, a.args[1])
		}
		if lo >= lw {
			return c.Extract(hi-lw, lo-lw, a.args[0])
		}
	}
	return c.intern(&Term{op: "extract", sort: BV(hi - lo + 1), args: []*Term{a}, p1: hi, p2: lo})
}

func (c *Ctx) ZExt(a *Term, w int) *Term {
	if a.sort.W == w {
		return a
	}
	if a.sort.W > w {
		return c.Extract(w-1, 0, a)
	}
	if a.IsConst() {
		return c.Const(BV(w), a.c)
	}
	return c.intern(&Term{op: "zext", sort: BV(w), args: []*Term{a}, p1: w - a.sort.W})
}

func (c *Ctx) SExt(a *Term, w int) *Term {
	if a.sort.W == w {
		return a
	}
	if a.sort.W > w {
		return c.Extract(w-1, 0, a)
	}
	if a.IsConst() {
		return c.Const(BV(w), a.Signed())
	}
	return c.intern(&Term{op: "sext", sort: BV(w), args: []*Term{a}, p1: w - a.sort.W})
}

func (c *Ctx) Concat(hi, lo *Term) *Term {
	if hi.IsConst() && lo.IsConst() {
		r := new(big.Int).Lsh(hi.c, uint(lo.sort.W))
		r.Or(r, lo.c)
		return c.Const(BV(hi.sort.W+lo.sort.W), r)
	}
	return c.mk("concat", BV(hi.sort.W+lo.sort.W), hi, lo)
}

// ---- mathematical integers (Int mode) ----

func (c *Ctx) IntConst(v int64) *Term { return c.Const(IntSort, big.NewInt(v)) }

func (c *Ctx) intBin(op string, a, b *Term) *Term {
	m := map[string]string{"bvadd": "+", "bvsub": "-", "bvmul": "*", "bvudiv": "div", "bvurem": "mod", "bvsdiv": "div", "bvsrem": "mod"}
	if o, ok := m[op]; ok {
		op = o
	}
	if a.IsConst() && b.IsConst() {
		r := new(big.Int)
		switch op {
		case "+":
			return c.Const(IntSort, r.Add(a.c, b.c))
		case "-":
			return c.Const(IntSort, r.Sub(a.c, b.c))
		case "*":
			return c.Const(IntSort, r.Mul(a.c, b.c))
		case "div":
			if b.c.Sign() != 0 {
				return c.Const(IntSort, r.Div(a.c, b.c))
			}
		case "mod":
			if b.c.Sign() != 0 {
				return c.Const(IntSort, r.Mod(a.c, b.c))
			}
		}
	}
	switch op {
	case "+":
		if a.IsConst() && a.c.Sign() == 0 {
			return b
		}
		if b.IsConst() && b.c.Sign() == 0 {
			return a
		}
	case "-":
		if b.IsConst() && b.c.Sign() == 0 {
			return a
		}
	case "*":
		if a.IsConst() && a.c.Cmp(one) == 0 {
			return b
		}
		if b.IsConst() && b.c.Cmp(one) == 0 {
			return a
		}
	case "div":
		if b.IsConst() && b.c.Cmp(one) == 0 {
			return a
		}
	}
	return c.mk(op, IntSort, a, b)
}

func (c *Ctx) intCmp(op string, a, b *Term) *Term {
	o := "<"
	if strings.HasSuffix(op, "le") {
		o = "<="
	}
	if a.IsConst() && b.IsConst() {
		r := a.c.Cmp(b.c)
		if o == "<" {
			return c.Bool(r < 0)
		}
		return c.Bool(r <= 0)
	}
	return c.mk(o, BoolSort, a, b)
}

// ---- floating point (float64 only) ----

func (c *Ctx) FPConst(f float64) *Term {
	return c.intern(&Term{op: "fpconst", sort: FPSort, name: fmt.Sprintf("%b", f), c: new(big.Int).SetUint64(f64bits(f))})
}
func (c *Ctx) FPBin(op string, a, b *Term) *Term { // fp.add fp.sub fp.mul fp.div
	if a.op == "fpconst" && b.op == "fpconst" {
		x, y := f64frombits(a.c.Uint64()), f64frombits(b.c.Uint64())
		switch op {
		case "fp.add":
			return c.FPConst(x + y)
		case "fp.sub":
			return c.FPConst(x - y)
		case "fp.mul":
			return c.FPConst(x * y)
		case "fp.div":
			return c.FPConst(x / y)
		}
	}
	return c.mk(op, FPSort, a, b)
}
func (c *Ctx) FPCmp(op string, a, b *Term) *Term { // fp.lt fp.leq fp.gt fp.geq fp.eq
	if a.op == "fpconst" && b.op == "fpconst" {
		x, y := f64frombits(a.c.Uint64()), f64frombits(b.c.Uint64())
		switch op {
		case "fp.lt":
			return c.Bool(x < y)
		case "fp.leq":
			return c.Bool(x <= y)
		case "fp.gt":
			return c.Bool(x > y)
		case "fp.geq":
			return c.Bool(x >= y)
		case "fp.eq":
			return c.Bool(x == y)
		}
	}
	return c.mk(op, BoolSort, a, b)
}
func (c *Ctx) FPFromBV(a *Term, signed bool) *Term {
	if a.IsConst() {
		if signed {
			return c.FPConst(float64(a.Int64()))
		}
		return c.FPConst(float64(a.Uint64()))
	}
	if signed {
		return c.mk("fp.from_sbv", FPSort, a)
	}
	return c.mk("fp.from_ubv", FPSort, a)
}
func (c *Ctx) FPToBV(a *Term, w int, signed bool) *Term {
	if a.op == "fpconst" {
		f := f64frombits(a.c.Uint64())
		if signed {
			return c.BVConst(w, int64(f))
		}
		return c.BVConstU(w, uint64(f))
	}
	op := "fp.to_ubv"
	if signed {
		op = "fp.to_sbv"
	}
	return c.intern(&Term{op: op, sort: BV(w), args: []*Term{a}, p1: w})
}

// ---- uninterpreted functions ----

func (c *Ctx) App(name string, res Sort, args ...*Term) *Term {
	d, ok := c.ufs[name]
	if !ok {
		d = &ufDecl{name: name, res: res}
		for _, a := range args {
			d.args = append(d.args, a.sort)
		}
		c.ufs[name] = d
		c.ufOrder = append(c.ufOrder, name)
	} else {
		if len(d.args) != len(args) || d.res != res {
			panic("UF arity/sort mismatch for " + name)
		}
	}
	if len(args) == 0 {
		return c.Var("uf0_"+name, res)
	}
	return c.intern(&Term{op: "app", sort: res, args: args, name: name})
}

// ---- SMT-LIB printing ----

func smtName(s string) string {
	var sb strings.Builder
	for _, r := range s {
		switch {
		case r >= 'a' && r <= 'z', r >= 'A' && r <= 'Z', r >= '0' && r <= '9', r == '_', r == '.', r == '!':
			sb.WriteRune(r)
		default:
			fmt.Fprintf(&sb, "_%x_", r)
		}
	}
	return sb.String()
}

func (t *Term) ref() string {
	switch t.op {
	case "const":
		switch t.sort.K {
		case SBool:
			if t.c.Sign() != 0 {
				return "true"
			}
			return "false"
		case SBV:
			if t.sort.W%4 == 0 {
				return fmt.Sprintf("#x%0*s", t.sort.W/4, t.c.Text(16))
			}
			return fmt.Sprintf("#b%0*s", t.sort.W, t.c.Text(2))
		case SInt:
			if t.c.Sign() < 0 {
				return "(- " + new(big.Int).Neg(t.c).String() + ")"
			}
			return t.c.String()
		}
	case "rconst":
		n, d := t.rat.Num(), t.rat.Denom()
		if n.Sign() < 0 {
			return fmt.Sprintf("(- (/ %s.0 %s.0))", new(big.Int).Neg(n).String(), d.String())
		}
		return fmt.Sprintf("(/ %s.0 %s.0)", n.String(), d.String())
	case "fpconst":
		b := t.c.Uint64()
		return fmt.Sprintf("(fp #b%01b #b%011b #x%013x)", b>>63, (b>>52)&0x7ff, b&((1<<52)-1))
	case "var":
		return "v_" + smtName(t.name)
	}
	return fmt.Sprintf("t%d", t.id)
}

// def returns the SMT-LIB definition line for a compound term (or declaration for a var).
func (t *Term) def() string {
	switch t.op {
	case "const", "fpconst", "rconst":
		return ""
	case "var":
		return fmt.Sprintf("(declare-const %s %s)", t.ref(), t.sort)
	}
	var sb strings.Builder
	fmt.Fprintf(&sb, "(define-fun t%d () %s ", t.id, t.sort)
	switch t.op {
	case "extract":
		fmt.Fprintf(&sb, "((_ extract %d %d) %s)", t.p1, t.p2, t.args[0].ref())
	case "zext":
		fmt.Fprintf(&sb, "((_ zero_extend %d) %s)", t.p1, t.args[0].ref())
	case "sext":
		fmt.Fprintf(&sb, "((_ sign_extend %d) %s)", t.p1, t.args[0].ref())
	case "app":
		fmt.Fprintf(&sb, "(uf_%s", smtName(t.name))
		for _, a := range t.args {
			sb.WriteString(" " + a.ref())
		}
		sb.WriteString(")")
	case "int2bv":
		fmt.Fprintf(&sb, "((_ int2bv %d) %s)", t.p1, t.args[0].ref())
	case "fp.add", "fp.sub", "fp.mul", "fp.div":
		fmt.Fprintf(&sb, "(%s RNE %s %s)", t.op, t.args[0].ref(), t.args[1].ref())
	case "fp.from_sbv":
		fmt.Fprintf(&sb, "((_ to_fp 11 53) RNE %s)", t.args[0].ref())
	case "fp.from_ubv":
		fmt.Fprintf(&sb, "((_ to_fp_unsigned 11 53) RNE %s)", t.args[0].ref())
	case "fp.to_ubv":
		fmt.Fprintf(&sb, "((_ fp.to_ubv %d) RTZ %s)", t.p1, t.args[0].ref())
	case "fp.to_sbv":
		fmt.Fprintf(&sb, "((_ fp.to_sbv %d) RTZ %s)", t.p1, t.args[0].ref())
	default:
		sb.WriteString("(" + t.op)
		for _, a := range t.args {
			sb.WriteString(" " + a.ref())
		}
		sb.WriteString(")")
	}
	sb.WriteString(")")
	return sb.String()
}

// ---- reals (the relaxed model of float64 in Int mode) ----

func (c *Ctx) RConst(r *big.Rat) *Term {
	return c.intern(&Term{op: "rconst", sort: RealSort, name: r.RatString(), rat: new(big.Rat).Set(r)})
}

func (c *Ctx) RBin(op string, a, b *Term) *Term { // + - * /
	if a.op == "rconst" && b.op == "rconst" {
		r := new(big.Rat)
		switch op {
		case "+":
			return c.RConst(r.Add(a.rat, b.rat))
		case "-":
			return c.RConst(r.Sub(a.rat, b.rat))
		case "*":
			return c.RConst(r.Mul(a.rat, b.rat))
		case "/":
			if b.rat.Sign() != 0 {
				return c.RConst(r.Quo(a.rat, b.rat))
			}
		}
	}
	return c.mk(op, RealSort, a, b)
}

func (c *Ctx) RCmp(op string, a, b *Term) *Term { // < <= > >= =
	if a.op == "rconst" && b.op == "rconst" {
		k := a.rat.Cmp(b.rat)
		switch op {
		case "<":
			return c.Bool(k < 0)
		case "<=":
			return c.Bool(k <= 0)
		case ">":
			return c.Bool(k > 0)
		case ">=":
			return c.Bool(k >= 0)
		case "=":
			return c.Bool(k == 0)
		}
	}
	return c.mk(op, BoolSort, a, b)
}

func (c *Ctx) ToReal(i *Term) *Term {
	if i.IsConst() {
		return c.RConst(new(big.Rat).SetInt(i.c))
	}
	return c.mk("to_real", RealSort, i)
}

// ToIntFloor is SMT-LIB to_int (floor).
func (c *Ctx) ToIntFloor(r *Term) *Term {
	if r.op == "rconst" {
		q := new(big.Int)
		m := new(big.Int)
		q.DivMod(r.rat.Num(), r.rat.Denom(), m) // Euclidean: floor for positive denominators
		return c.Const(IntSort, q)
	}
	return c.mk("to_int", IntSort, r)
}
