package main

// Conversion of native Go values (results of library functions evaluated
// concretely, e.g. net/url.Parse) into engine values, by reflection.

import (
	"fmt"
	"go/types"
	"net/url"
	"reflect"
	"sort"
	"strings"

	"golang.org/x/tools/go/ssa"
)

func (e *Exec) fromNative(v reflect.Value, t types.Type) Value {
	c := e.ctx
	switch u := t.Underlying().(type) {
	case *types.Basic:
		switch {
		case u.Info()&types.IsBoolean != 0:
			return c.Bool(v.Bool())
		case u.Info()&types.IsString != 0:
			return v.String()
		case u.Info()&types.IsInteger != 0:
			w, signed, _ := intWidth(u)
			if signed {
				return c.BVConst(w, v.Int())
			}
			return c.BVConstU(w, v.Uint())
		case u.Info()&types.IsFloat != 0:
			return c.FPConst(v.Float())
		}
	case *types.Struct:
		out := make(StructV, u.NumFields())
		for i := 0; i < u.NumFields(); i++ {
			out[i] = e.fromNative(v.Field(i), u.Field(i).Type())
		}
		return out
	case *types.Pointer:
		if v.IsNil() {
			return (*Value)(nil)
		}
		var cell Value = e.fromNative(v.Elem(), u.Elem())
		return &cell
	case *types.Slice:
		if v.IsNil() {
			return SliceV(nil)
		}
		out := make(SliceV, v.Len())
		for i := range out {
			out[i] = e.fromNative(v.Index(i), u.Elem())
		}
		return out
	case *types.Interface:
		if v.IsNil() {
			return IfaceV{}
		}
	}
	panic(pathAbort{"error", fmt.Sprintf("fromNative: unsupported type %v", t)})
}

func init() {
	I := intrinsics
	I["net/url.Parse"] = func(e *Exec, th *Thread, fn *ssa.Function, a []Value) Value {
		u, err := url.Parse(e.goString(a[0], "url.Parse"))
		rt := fn.Signature.Results().At(0).Type()
		if err != nil {
			return TupleV{(*Value)(nil), e.newError(err.Error(), nil)}
		}
		return TupleV{e.fromNative(reflect.ValueOf(u), rt), IfaceV{}}
	}
	// nested sections of the flat store: the immediate children of a key
	children := func(e *Exec, prefix string) []string {
		prefix = strings.ToLower(prefix) + "."
		seen := map[string]bool{}
		var out []string
		for k := range e.viper {
			if strings.HasPrefix(k, prefix) {
				c := k[len(prefix):]
				if i := strings.IndexByte(c, '.'); i >= 0 {
					c = c[:i]
				}
				if !seen[c] {
					seen[c] = true
					out = append(out, c)
				}
			}
		}
		sort.Strings(out)
		return out
	}
	I["github.com/spf13/viper.GetStringMap"] = func(e *Exec, th *Thread, fn *ssa.Function, a []Value) Value {
		e.nmap++
		m := &MapV{id: e.nmap}
		for _, c := range children(e, e.goString(a[0], "viper key")) {
			m.entries = append(m.entries, &mapEntry{k: c, v: IfaceV{}})
		}
		return m
	}
	I["github.com/spf13/viper.GetStringMapString"] = func(e *Exec, th *Thread, fn *ssa.Function, a []Value) Value {
		e.nmap++
		m := &MapV{id: e.nmap}
		key := e.goString(a[0], "viper key")
		for _, c := range children(e, key) {
			v, ok := e.viper[strings.ToLower(key)+"."+c]
			if !ok {
				continue
			}
			s, isStr := v.v.(string)
			if !isStr {
				panic(pathAbort{"error", "viper.GetStringMapString on a non-string value"})
			}
			m.entries = append(m.entries, &mapEntry{k: c, v: s})
		}
		return m
	}
}
