package main

import (
	"fmt"
	"go/constant"
	"go/token"
	"go/types"
	"math/big"
	"strings"
	"sync"

	"golang.org/x/tools/go/ssa"
)

// ---------------------------------------------------------------------------
// control-flow signals (Go panics used inside the engine)

type pathAbort struct {
	kind string // "infeasible", "error", "violation", "bound", "done"
	msg  string
}

type pathAbortV struct {
	pathAbort
	viol *Violation
}

type goPanic struct {
	val Value
	msg string
}

type blockedSig struct{}
type yieldSig struct{}

// ---------------------------------------------------------------------------

type deferred struct {
	fn   Value
	args []Value
}

type Frame struct {
	fn        *ssa.Function
	block     *ssa.BasicBlock
	prev      *ssa.BasicBlock
	pc        int
	env       map[ssa.Value]Value
	defers    []*deferred
	caller    *Frame
	onReturn  func(res Value) // called with the result when the frame returns
	result    Value
	panicking bool
	recovered bool
	panicVal  *goPanic
	deferOf   *Frame // set when this frame runs a deferred call of deferOf
	isDefer   bool
	depth     int
}

type Thread struct {
	id        int
	top       *Frame
	done      bool
	blocked   bool
	wake      func() bool // blocked thread becomes runnable when this returns true
	blockWhat string
	skipYield bool
	unwinding bool
	vc        []int // vector clock (race monitor)
	onWake    func()
	start     func()
	yielded   bool
	sending   *ChanV
	sleeping  bool
	sleepDone bool
	wcounted  bool
	condW     *condWaiter
	name      string
	result    Value
}

var profileSites map[string]int
var profileMu sync.Mutex

// Program is the shared, read-only part.
type Program struct {
	prog    *ssa.Program
	fset    *token.FileSet
	buildMu sync.Mutex
	pkgs    map[string]*ssa.Package
	modPath string
}

// Exec executes one path.
type Exec struct {
	P      *Program
	ctx    *Ctx
	solver *Solver

	pc        []*Term
	prefix    []int
	decPos    int
	decisions []int
	forks     [][]int // sibling prefixes discovered on this path

	threads []*Thread
	cur     *Thread
	globals map[*ssa.Global]*Value
	inited  map[*ssa.Package]bool

	now    *Term
	timers []*timer
	ntimer int

	locks            map[*Value]*lockState
	conds            map[*Value]*condState
	wgs              map[*Value]*wgState
	sems             map[*Value]*semState
	onces            map[*Value]bool
	nmap             int
	intMode          bool
	maxGap           int                 // most instructions executed between two signs of progress
	progressAt       int                 // e.steps at the last sign of progress (see livelock)
	quickFeasibility bool                // the query in progress decides a branch only (see feasible)
	goTimers         map[*Value]*goTimer // time.Timer structs made by NewTimer / AfterFunc
	blsInvalid       map[string]bool     // public key bytes the harness declared undecodable
	blsVerifies      []*Term             // results of the BLS signature verifications made on this path (symbolic)
	bigHuge          int                 // big.Int values outside the modelled range met so far
	fpErrN           int                 // fresh rounding-error variables of the relaxed float64 model (Int mode)

	opts ExecOpts

	vndVars     map[string]*Term
	vndOrder    []string
	vndCount    map[string]int
	asserts     map[string]int // label -> discharged count on this path
	covers      map[string]bool
	coverModel  map[string]map[string]string
	steps       int
	funcs       map[*ssa.Function]int // functions executed (instr counts)
	lastStack   []string
	stubs       map[string]int
	unknowns    int
	overflowObl int

	violation       *Violation
	trace           []string
	ghost           []string
	race            *raceMon
	preempts        int
	ctxType         types.Type
	bgCtx           *CtxV
	unixOrigin      map[*Term]*Term
	durSplit        map[*Term][2]*Term
	timeDivs        int
	atomVC          map[*Value][]int
	redirects       map[string]Value
	nativeHash      func(name string, in []byte) []byte
	gomaxprocs      int
	mainThread      *Thread
	harnessPkg      *ssa.Package
	inconclusive    []string
	assertsTotal    int
	ufApps          map[string][]ufApp
	intOrigin       map[*Term]*Term
	bigs            map[*Value]*Term
	lastRun         *Thread
	usedUF          bool
	viper           map[string]IfaceV
	pending         []pendingAssert
	known           map[*Term]bool
	regexps         map[*Value]string
	initNow         *ssa.Function
	wantCoverModels bool
}

type ExecOpts struct {
	Schedule    bool // explore interleavings at sync points
	Preemptions int
	MapOrders   bool // explore all iteration orders of maps with <=3 entries
	MaxSteps    int
	// LivelockSteps: instructions one path may execute without any goroutine blocking or
	// ending and without the clock advancing before it is reported as a busy loop
	// (default: half the step bound, judged when the step bound is hit).
	LivelockSteps int
	Races         bool
	IntMode       bool
	Trace         bool
	FullBytes     bool // vnd.Root/Sig/... fully symbolic instead of 5 symbolic bytes
	NoBatch       bool // discharge every assertion with its own query
	// LogEnabled: zerolog events report Enabled() (trace-level logging on), so blocks guarded by
	// `if e := log.Trace(); e.Enabled()` are executed; default: every event is disabled
	LogEnabled bool
}

type Violation struct {
	Kind   string            `json:"kind"` // assert, panic, deadlock, livelock, race
	Label  string            `json:"label"`
	Msg    string            `json:"msg"`
	Model  map[string]string `json:"model"`
	Prefix []int             `json:"decisions"`
	Stack  []string          `json:"stack,omitempty"`
	// Threads is the number of goroutines the path started (its outcome may then
	// depend on an order the Go runtime picks for itself in a native run).
	Threads int `json:"goroutines,omitempty"`
}

// ---------------------------------------------------------------------------
// decisions and path condition

func (e *Exec) assume(t *Term) {
	if t.IsTrue() {
		return
	}
	e.pc = append(e.pc, t)
}

func (e *Exec) feasible(extra ...*Term) Verdict {
	for _, x := range extra {
		if x.IsFalse() {
			return Unsat
		}
	}
	if profileSites != nil && e.cur != nil && e.cur.top != nil && e.cur.top.fn != nil {
		fr := e.cur.top
		key := fr.fn.String()
		if fr.block != nil && fr.pc < len(fr.block.Instrs) {
			key += " " + e.pos(fr.block.Instrs[fr.pc].Pos())
		}
		profileMu.Lock()
		profileSites[key]++
		profileMu.Unlock()
	}
	lits := make([]*Term, 0, len(e.pc)+len(extra))
	lits = append(lits, e.pc...)
	lits = append(lits, extra...)
	// a branch-feasibility question left unanswered is resolved by keeping the branch (sound): no need
	// for the longer second and third attempts that assertions and obligations get
	saved := e.solver.noRetry
	if e.quickFeasibility {
		e.solver.noRetry = true
	}
	v := e.solver.Check(lits)
	e.solver.noRetry = saved
	if v == Unknown {
		e.unknowns++
	}
	return v
}

// choose picks one of alts (Bool terms, each the condition of an alternative),
// forking the rest. Alternatives are assumed to be exhaustive.
func (e *Exec) choose(kind string, alts []*Term) int {
	if e.decPos < len(e.prefix) {
		i := e.prefix[e.decPos]
		e.decPos++
		e.decisions = append(e.decisions, i)
		if i >= len(alts) {
			panic(pathAbort{"error", fmt.Sprintf("replay divergence at decision %d (%s): alt %d of %d", e.decPos-1, kind, i, len(alts))})
		}
		e.assume(alts[i])
		return i
	}
	// fast path: exactly one alternative not syntactically false
	var feas []int
	nonFalse := 0
	for _, a := range alts {
		if !a.IsFalse() {
			nonFalse++
		}
	}
	for i, a := range alts {
		if a.IsFalse() {
			continue
		}
		if a.IsTrue() {
			feas = append(feas, i)
			continue
		}
		if nonFalse == 1 {
			feas = append(feas, i)
			continue
		}
		// last alternative and nothing feasible so far: must be feasible (exhaustive)
		if i == len(alts)-1 && len(feas) == 0 {
			feas = append(feas, i)
			continue
		}
		e.quickFeasibility = true
		fv := e.feasible(a)
		e.quickFeasibility = false
		if fv != Unsat {
			feas = append(feas, i)
		}
	}
	if len(feas) == 0 {
		panic(pathAbort{"infeasible", "no feasible alternative at " + kind})
	}
	base := append([]int(nil), e.decisions...)
	for _, i := range feas[1:] {
		p := append(append([]int(nil), base...), i)
		e.forks = append(e.forks, p)
	}
	i := feas[0]
	e.decPos++
	e.decisions = append(e.decisions, i)
	e.assume(alts[i])
	return i
}

// branch decides a symbolic condition.
func (e *Exec) branch(cond *Term) bool {
	if cond.IsTrue() {
		return true
	}
	if cond.IsFalse() {
		return false
	}
	// literals already decided on this path need no query (and no decision)
	if v, ok := e.known[cond]; ok {
		return v
	}
	nd := len(e.decisions)
	r := e.choose("branch", []*Term{cond, e.ctx.Not(cond)}) == 0
	_ = nd
	e.known[cond] = r
	e.known[e.ctx.Not(cond)] = !r
	return r
}

// concretize returns a concrete value of t in [0, n), forking per value; the
// extra alternative "out of range" returns -1.
func (e *Exec) concretizeIndex(t *Term, n int, signed bool) int {
	if t.IsConst() {
		var v *big.Int
		if signed {
			v = t.Signed()
		} else {
			v = t.c
		}
		if v.Sign() < 0 || v.Cmp(big.NewInt(int64(n))) >= 0 {
			return -1
		}
		return int(v.Int64())
	}
	alts := make([]*Term, n+1)
	for i := 0; i < n; i++ {
		alts[i] = e.ctx.Eq(t, e.constLike(t, int64(i)))
	}
	oob := e.ctx.True
	for i := 0; i < n; i++ {
		oob = e.ctx.And(oob, e.ctx.Not(alts[i]))
	}
	alts[n] = oob
	i := e.choose("index", alts)
	if i == n {
		return -1
	}
	return i
}

func (e *Exec) constLike(t *Term, v int64) *Term {
	if t.sort.K == SInt {
		return e.ctx.IntConst(v)
	}
	return e.ctx.BVConst(t.sort.W, v)
}

// concreteInt demands a concrete integer (lengths, capacities...).
func (e *Exec) concreteInt(v Value, what string) int {
	t, ok := v.(*Term)
	if !ok {
		panic(pathAbort{"error", fmt.Sprintf("%s: not an integer (%T)", what, v)})
	}
	if !t.IsConst() {
		// concretise small ranges by forking over 0..63
		i := e.concretizeIndex(t, 64, true)
		if i < 0 {
			panic(pathAbort{"bound", fmt.Sprintf("%s: symbolic size outside 0..63", what)})
		}
		return i
	}
	return int(t.Signed().Int64())
}

// ---------------------------------------------------------------------------
// frames / threads

func (e *Exec) newThread(fn Value, args []Value, name string) *Thread {
	th := &Thread{id: len(e.threads), name: name}
	e.progress()
	e.threads = append(e.threads, th)
	if e.race != nil {
		e.race.newThread(e, th)
	}
	e.pushCall(th, fn, args, func(r Value) { th.result = r })
	return th
}

func (e *Exec) get(fr *Frame, v ssa.Value) Value {
	switch v := v.(type) {
	case *ssa.Const:
		return e.constValue(v)
	case *ssa.Global:
		return e.globalAddr(v)
	case *ssa.Function:
		return v
	case *ssa.Builtin:
		return v
	case nil:
		return nil
	}
	r, ok := fr.env[v]
	if !ok {
		panic(pathAbort{"error", fmt.Sprintf("get: no value for %s (%T) in %s", v.Name(), v, fr.fn)})
	}
	return r
}

func (e *Exec) constValue(c *ssa.Const) Value {
	if c.Value == nil {
		return e.zero(c.Type())
	}
	t := c.Type().Underlying()
	if b, ok := t.(*types.Basic); ok {
		switch {
		case b.Info()&types.IsBoolean != 0:
			return e.ctx.Bool(constant.BoolVal(c.Value))
		case b.Info()&types.IsString != 0:
			return constant.StringVal(c.Value)
		case b.Info()&types.IsFloat != 0:
			f, _ := constant.Float64Val(c.Value)
			return e.fpConst(f)
		case b.Info()&types.IsInteger != 0:
			w, _, _ := intWidth(b)
			bi, _ := new(big.Int).SetString(constant.ToInt(c.Value).ExactString(), 10)
			if e.intMode {
				return e.ctx.Const(IntSort, bi)
			}
			return e.ctx.Const(BV(w), bi)
		}
	}
	if _, ok := t.(*types.TypeParam); ok {
		panic(pathAbort{"error", "const of type parameter"})
	}
	panic(pathAbort{"error", fmt.Sprintf("constValue: unsupported const %v : %v", c.Value, c.Type())})
}

func (e *Exec) globalAddr(g *ssa.Global) *Value {
	if p, ok := e.globals[g]; ok {
		return p
	}
	e.ensureInit(g.Pkg)
	if p, ok := e.globals[g]; ok {
		return p
	}
	p := new(Value)
	*p = e.zero(g.Type().(*types.Pointer).Elem())
	e.globals[g] = p
	// lazy sentinel errors for packages whose init is not run
	if !e.inited[g.Pkg] {
		if types.Identical(g.Type().(*types.Pointer).Elem(), types.Universe.Lookup("error").Type()) {
			*p = e.newError(g.Pkg.Pkg.Name()+"."+g.Name(), nil)
		}
	}
	return p
}

var initWhitelist = []string{
	"github.com/attestantio/",
	"github.com/prysmaticlabs/go-bitfield",
	"github.com/holiman/uint256",
	"github.com/wealdtech/go-eth2-types",
	"github.com/shopspring/decimal",
}

func (e *Exec) ensureInit(p *ssa.Package) {
	if p == nil || e.inited[p] {
		return
	}
	ok := false
	for _, w := range initWhitelist {
		if strings.HasPrefix(p.Pkg.Path(), w) {
			ok = true
		}
	}
	if !ok {
		return
	}
	e.inited[p] = true
	e.P.build(p)
	init := p.Func("init")
	if init == nil || init.Blocks == nil {
		return
	}
	// run init synchronously on a scratch thread
	saved := e.cur
	th := &Thread{id: -1, name: "init:" + p.Pkg.Path()}
	e.cur = th
	prevInit := e.initNow
	e.initNow = init
	func() {
		// A dependency's initialiser may use operations the engine does not model
		// (shopspring/decimal converts floats bit by bit): what it initialised up to
		// there stays, the rest keeps its zero value (a later use of such a variable
		// shows as a nil dereference that the native replay refutes - exit 3, never
		// a pass). vouch's own initialisers must run completely.
		if strings.HasPrefix(p.Pkg.Path(), e.P.modPath) {
			e.callSync(th, init, nil)
			return
		}
		defer func() {
			if r := recover(); r != nil {
				if pa, ok := r.(pathAbort); ok && (pa.kind == "error" || pa.kind == "bound") {
					e.stubs["partial-init:"+p.Pkg.Path()]++
					return
				}
				panic(r)
			}
		}()
		e.callSync(th, init, nil)
	}()
	e.initNow = prevInit
	e.cur = saved
}

func (P *Program) build(p *ssa.Package) {
	P.buildMu.Lock()
	defer P.buildMu.Unlock()
	p.Build()
}

// lookupMethod is a panic-safe, serialised wrapper around Program.LookupMethod.
func (P *Program) lookupMethod(t types.Type, pkg *types.Package, name string) *ssa.Function {
	P.buildMu.Lock()
	defer P.buildMu.Unlock()
	defer func() { recover() }()
	return P.prog.LookupMethod(t, pkg, name)
}

func (P *Program) ensureBuilt(fn *ssa.Function) {
	if fn.Blocks != nil {
		return
	}
	if fn.Pkg != nil {
		P.build(fn.Pkg)
	} else if o := fn.Origin(); o != nil && o.Pkg != nil {
		P.build(o.Pkg)
	}
}
