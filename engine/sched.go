package main

import (
	"fmt"
	"go/types"

	"golang.org/x/tools/go/ssa"
)

// ---------------------------------------------------------------------------
// channels

type ChanV struct {
	id      int
	buf     []Value
	cap     int
	closed  bool
	waiting int   // receivers currently blocked on it (unbuffered rendezvous approximation)
	vc      []int // race monitor: clock released by senders / close
}

func (e *Exec) newChan(n int) *ChanV {
	e.nmap++
	return &ChanV{id: e.nmap, cap: n}
}

func (e *Exec) block(th *Thread, what string, wake func() bool) {
	th.blocked = true
	th.wake = wake
	th.blockWhat = what
	panic(blockedSig{})
}

// yieldPoint gives the scheduler a chance to switch before a synchronisation
// operation (schedule mode only).
func (e *Exec) yieldPoint(th *Thread) {
	if !e.opts.Schedule || th.id < 0 {
		return
	}
	if th.skipYield {
		th.skipYield = false
		return
	}
	panic(yieldSig{})
}

func (e *Exec) chanSend(th *Thread, ch *ChanV, v Value) {
	e.yieldPoint(th)
	if ch == nil {
		e.block(th, "send on nil channel", func() bool { return false })
	}
	if ch.closed {
		panic(goPanic{msg: "send on closed channel"})
	}
	if ch.cap == 0 {
		if ch.waiting > 0 && len(ch.buf) == 0 {
			ch.buf = append(ch.buf, copyVal(v))
			if e.race != nil {
				e.race.release(e, th, &ch.vc)
			}
			return
		}
		e.block(th, "send on unbuffered channel", func() bool { return ch.closed || (ch.waiting > 0 && len(ch.buf) == 0) })
	}
	if len(ch.buf) >= ch.cap {
		e.block(th, fmt.Sprintf("send on full channel #%d (cap %d)", ch.id, ch.cap), func() bool { return ch.closed || len(ch.buf) < ch.cap })
	}
	ch.buf = append(ch.buf, copyVal(v))
	if e.race != nil {
		e.race.release(e, th, &ch.vc)
	}
}

func (e *Exec) chanRecv(th *Thread, ch *ChanV, elem types.Type) (Value, bool) {
	e.yieldPoint(th)
	if ch == nil {
		e.block(th, "receive on nil channel", func() bool { return false })
	}
	if len(ch.buf) > 0 {
		v := ch.buf[0]
		ch.buf = append([]Value(nil), ch.buf[1:]...)
		if e.race != nil {
			e.race.acquire(e, th, ch.vc)
		}
		return v, true
	}
	if ch.closed {
		if e.race != nil {
			e.race.acquire(e, th, ch.vc)
		}
		return e.zero(elem), false
	}
	ch.waiting++
	th.onWake = func() { ch.waiting-- }
	e.block(th, fmt.Sprintf("receive on empty channel #%d", ch.id), func() bool { return ch.closed || len(ch.buf) > 0 })
	return nil, false
}

func (e *Exec) chanClose(th *Thread, ch *ChanV) {
	e.yieldPoint(th)
	if ch == nil {
		panic(goPanic{msg: "close of nil channel"})
	}
	if ch.closed {
		panic(goPanic{msg: "close of closed channel"})
	}
	ch.closed = true
	if e.race != nil {
		e.race.release(e, th, &ch.vc)
	}
}

func (e *Exec) selectOp(th *Thread, fr *Frame, in *ssa.Select) Value {
	e.yieldPoint(th)
	c := e.ctx
	type cs struct {
		ch   *ChanV
		send Value
		dir  types.ChanDir
	}
	cases := make([]cs, len(in.States))
	for i, st := range in.States {
		cases[i].ch, _ = e.get(fr, st.Chan).(*ChanV)
		cases[i].dir = st.Dir
		if st.Send != nil {
			cases[i].send = e.get(fr, st.Send)
		}
	}
	ready := func() []int {
		var r []int
		for i, cse := range cases {
			ch := cse.ch
			if ch == nil {
				continue
			}
			if cse.dir == types.RecvOnly {
				if len(ch.buf) > 0 || ch.closed {
					r = append(r, i)
				}
			} else {
				if ch.closed || len(ch.buf) < ch.cap || (ch.cap == 0 && ch.waiting > 0 && len(ch.buf) == 0) {
					r = append(r, i)
				}
			}
		}
		return r
	}
	r := ready()
	chosen := -1
	if len(r) == 0 {
		if !in.Blocking {
			chosen = -1
		} else {
			for _, cse := range cases {
				if cse.ch != nil && cse.dir == types.RecvOnly {
					cse.ch.waiting++
				}
			}
			th.onWake = func() {
				for _, cse := range cases {
					if cse.ch != nil && cse.dir == types.RecvOnly {
						cse.ch.waiting--
					}
				}
			}
			e.block(th, "select", func() bool { return len(ready()) > 0 })
		}
	} else if len(r) == 1 {
		chosen = r[0]
	} else {
		alts := make([]*Term, len(r))
		for i := range alts {
			alts[i] = c.True
		}
		chosen = r[e.choose("select", alts)]
	}
	res := TupleV{e.intConst(64, int64(chosen)), c.False}
	var recvVals []Value
	for i, st := range in.States {
		if st.Dir == types.RecvOnly {
			elem := st.Chan.Type().Underlying().(*types.Chan).Elem()
			if i == chosen {
				ch := cases[i].ch
				if len(ch.buf) > 0 {
					v := ch.buf[0]
					ch.buf = append([]Value(nil), ch.buf[1:]...)
					recvVals = append(recvVals, v)
					res[1] = c.True
				} else {
					recvVals = append(recvVals, e.zero(elem))
				}
				if e.race != nil {
					e.race.acquire(e, th, ch.vc)
				}
			} else {
				recvVals = append(recvVals, e.zero(elem))
			}
		} else if i == chosen {
			ch := cases[i].ch
			if ch.closed {
				panic(goPanic{msg: "send on closed channel"})
			}
			ch.buf = append(ch.buf, copyVal(cases[i].send))
			if e.race != nil {
				e.race.release(e, th, &ch.vc)
			}
		}
	}
	return append(res, recvVals...)
}

// ---------------------------------------------------------------------------
// goroutines

func (e *Exec) spawn(parent *Thread, fn Value, args []Value) {
	name := "go"
	switch f := fn.(type) {
	case *ssa.Function:
		name = f.String()
	case *ClosureV:
		name = f.fn.String()
	}
	th := &Thread{id: len(e.threads), name: name}
	e.threads = append(e.threads, th)
	if e.race != nil {
		e.race.fork(e, parent, th)
	}
	// the call may be an intrinsic that completes (or blocks) immediately;
	// run it lazily on the new thread via a trampoline frame.
	th.start = func() {
		th.start = nil
		if !e.pushCall(th, fn, args, nil) {
			if th.top == nil {
				th.done = true
				e.progress()
			}
		}
	}
	if len(e.threads) > 64 {
		panic(pathAbort{"bound", "more than 64 goroutines"})
	}
}

func (e *Exec) runnable(th *Thread) bool {
	if th.done {
		return false
	}
	if th.blocked {
		if th.wake != nil && th.wake() {
			return true
		}
		return false
	}
	return true
}

// runThread runs th until it blocks, yields, finishes or (schedule mode)
// reaches a sync point.
func (e *Exec) runThread(th *Thread) {
	e.cur = th
	e.lastRun = th
	if th.blocked {
		e.progress()
		th.blocked = false
		th.wake = nil
		if th.onWake != nil {
			th.onWake()
			th.onWake = nil
		}
	}
	for !th.done && !th.blocked {
		stop := false
		func() {
			defer func() {
				if r := recover(); r != nil {
					switch r := r.(type) {
					case blockedSig:
						// th.blocked already set
					case yieldSig:
						stop = true
						th.yielded = true
					case goPanic:
						p := r
						if th.start == nil && th.top != nil {
							e.startPanic(th, &p)
						} else {
							panic(uncaughtPanic{p: &p, th: th})
						}
					default:
						panic(r)
					}
				}
			}()
			if th.start != nil {
				th.start()
				return
			}
			if th.top == nil {
				th.done = true
				e.progress()
				return
			}
			e.stepInstr(th)
		}()
		if stop {
			return
		}
	}
	if th.done && e.race != nil {
		e.race.threadExit(e, th)
	}
}

// ---------------------------------------------------------------------------
// virtual time

type timer struct {
	id        int
	when      *Term
	fire      func()
	cancelled bool
	what      string
}

func (e *Exec) addTimer(d *Term, what string, fire func()) *timer {
	// d is a 64-bit signed duration in ns
	c := e.ctx
	neg := c.SLt(d, e.intConst(64, 0))
	var when *Term
	if e.branch(neg) {
		when = e.now
	} else {
		when = c.Add(e.now, d)
		// no overflow of the virtual clock
		e.assumeFeasible(c.SLe(e.now, when), "virtual clock overflow")
	}
	e.ntimer++
	t := &timer{id: e.ntimer, when: when, fire: fire, what: what}
	e.timers = append(e.timers, t)
	return t
}

func (e *Exec) assumeFeasible(t *Term, what string) {
	if t.IsTrue() {
		return
	}
	if e.decPos < len(e.prefix) {
		e.assume(t)
		return
	}
	if e.feasible(t) == Unsat {
		panic(pathAbort{"infeasible", what})
	}
	e.assume(t)
}

// advanceTime fires one pending timer (the earliest; ties in either order).
func (e *Exec) advanceTime() bool {
	var live []*timer
	for _, t := range e.timers {
		if !t.cancelled {
			live = append(live, t)
		}
	}
	e.timers = live
	if len(live) == 0 {
		return false
	}
	c := e.ctx
	alts := make([]*Term, len(live))
	for i, t := range live {
		cond := c.True
		for j, u := range live {
			if i == j {
				continue
			}
			if t.when == u.when {
				if j < i {
					// identical instants: fire in creation order only
					cond = c.False
				}
				continue
			}
			if j < i {
				cond = c.And(cond, c.SLt(t.when, u.when)) // strict: ties resolved to the earlier-created timer
			} else {
				cond = c.And(cond, c.SLe(t.when, u.when))
			}
		}
		alts[i] = cond
	}
	i := e.choose("timer", alts)
	t := live[i]
	t.cancelled = true
	e.now = t.when
	e.progress()
	if e.opts.Trace {
		e.trace = append(e.trace, fmt.Sprintf("timer %s fires", t.what))
	}
	t.fire()
	// events at the same instant are concurrent: fire every later-created
	// timer whose time equals the new clock value before threads run.
	for _, u := range live[i+1:] {
		if u.cancelled {
			continue
		}
		if e.branch(c.Eq(u.when, e.now)) {
			u.cancelled = true
			if e.opts.Trace {
				e.trace = append(e.trace, fmt.Sprintf("timer %s fires (same instant)", u.what))
			}
			u.fire()
		}
	}
	return true
}

// ---------------------------------------------------------------------------
// scheduler main loop

// pickNext chooses the next thread to run among the runnable ones (except
// exclude). In schedule mode the choice is a decision: continuing the thread
// that ran last is free, switching away from it while it could continue
// costs one preemption (bounded); when it blocked or finished any choice is free.
func (e *Exec) pickNext(exclude *Thread) *Thread {
	var rs []*Thread
	for _, th := range e.threads {
		if th != exclude && e.runnable(th) {
			rs = append(rs, th)
		}
	}
	if len(rs) == 0 {
		return nil
	}
	last := e.lastRun
	lastRunnable := false
	for _, th := range rs {
		if th == last {
			lastRunnable = true
		}
	}
	if !e.opts.Schedule {
		if lastRunnable {
			return last
		}
		return rs[0]
	}
	var order []*Thread
	if lastRunnable {
		order = append(order, last)
		if e.preempts < e.opts.Preemptions {
			for _, th := range rs {
				if th != last {
					order = append(order, th)
				}
			}
		}
	} else {
		order = rs
	}
	i := 0
	if len(order) > 1 {
		alts := make([]*Term, len(order))
		for k := range alts {
			alts[k] = e.ctx.True
		}
		i = e.choose("sched", alts)
		if lastRunnable && i > 0 {
			e.preempts++
		}
	}
	th := order[i]
	th.skipYield = th.yielded
	th.yielded = false
	return th
}

func (e *Exec) pickThread() *Thread { return e.pickNext(nil) }

// runAll runs until the main thread finishes (returns true) or nothing can
// progress (returns false: deadlock).
func (e *Exec) runAll(main *Thread) bool {
	for !main.done {
		th := e.pickThread()
		if th == nil {
			if !e.advanceTime() {
				return false
			}
			continue
		}
		e.runThread(th)
	}
	return true
}

// quiesce runs every other thread and timer until nothing can progress.
// It is called from the main thread (vnd.Quiesce); returns the number of
// threads left blocked.
func (e *Exec) quiesce(main *Thread) int {
	saved := e.cur
	for {
		th := e.pickNext(main)
		if th != nil {
			e.runThread(th)
			continue
		}
		if !e.advanceTime() {
			break
		}
	}
	e.cur = saved
	n := 0
	for _, t := range e.threads {
		if t != main && !t.done {
			n++
		}
	}
	return n
}
