package main

import (
	"fmt"
	"go/types"
	"math/big"
	"strings"

	"golang.org/x/tools/go/ssa"
)

// Value is a symbolic Go value:
//
//	*Term            bool, integers, float64 (constants included)
//	string / *SymStr strings (concrete / formatted with symbolic arguments)
//	StructV, ArrayV  aggregates (value semantics; copied on load/store)
//	SliceV           Go slice over a shared backing []Value
//	*Value           pointer (nil Go pointer = nil)
//	*MapV, *ChanV    reference types (typed nil pointer = nil)
//	IfaceV           interface value
//	*ssa.Function, *ClosureV, *ssa.Builtin   function values
//	TupleV           multiple results
type Value interface{}

type StructV []Value
type ArrayV []Value
type TupleV []Value
type SliceV []Value

type IfaceV struct {
	t types.Type // dynamic type; nil = nil interface
	v Value
}

type ClosureV struct {
	fn  *ssa.Function
	env []Value
}

// NativeFn is an engine-provided function value (e.g. a context cancel func).
type NativeFn struct {
	name string
	f    func(th *Thread, args []Value) Value
}

type mapEntry struct {
	k, v Value
}

type MapV struct {
	entries []*mapEntry
	id      int
}

// SymStr is a string made of literal parts and symbolic scalar arguments
// (result of fmt.Sprintf / string conversion with symbolic operands).
type SymStr struct {
	parts []interface{} // string | symPart
}
type symPart struct {
	verb string
	t    *Term
	uns  bool // the formatted integer was of an unsigned type
}

func (s *SymStr) String() string {
	var sb strings.Builder
	for _, p := range s.parts {
		switch p := p.(type) {
		case string:
			sb.WriteString(p)
		case symPart:
			fmt.Fprintf(&sb, "‹%s:%v›", p.verb, p.t)
		}
	}
	return sb.String()
}

// HashV is a running cryptographic hash (crypto/sha256.New()).
type HashV struct {
	name string
	size int
	buf  []Value
}

// OpaqueV stands for a value of a stubbed library type (logger, span, ...).
type OpaqueV struct{ what string }

func isNilValue(v Value) bool {
	switch v := v.(type) {
	case nil:
		return true
	case *Value:
		return v == nil
	case *MapV:
		return v == nil
	case *ChanV:
		return v == nil
	case SliceV:
		return v == nil
	case IfaceV:
		return v.t == nil
	case *ClosureV:
		return v == nil
	case *ssa.Function:
		return v == nil
	case *NativeFn:
		return v == nil
	}
	return false
}

func intWidth(t types.Type) (w int, signed bool, ok bool) {
	b, isb := t.Underlying().(*types.Basic)
	if !isb {
		return 0, false, false
	}
	switch b.Kind() {
	case types.Int8:
		return 8, true, true
	case types.Int16:
		return 16, true, true
	case types.Int32, types.UntypedRune:
		return 32, true, true
	case types.Int64, types.Int, types.UntypedInt:
		return 64, true, true
	case types.Uint8:
		return 8, false, true
	case types.Uint16:
		return 16, false, true
	case types.Uint32:
		return 32, false, true
	case types.Uint64, types.Uint, types.Uintptr:
		return 64, false, true
	}
	return 0, false, false
}

func isFloat(t types.Type) bool {
	b, ok := t.Underlying().(*types.Basic)
	return ok && b.Info()&types.IsFloat != 0
}

func (e *Exec) zero(t types.Type) Value {
	c := e.ctx
	switch t := t.(type) {
	case *types.Basic:
		if t.Kind() == types.UnsafePointer {
			return (*Value)(nil)
		}
		if t.Kind() == types.UntypedNil {
			return nil
		}
		if t.Info()&types.IsBoolean != 0 {
			return c.False
		}
		if t.Info()&types.IsString != 0 {
			return ""
		}
		if t.Info()&types.IsFloat != 0 {
			return e.fpConst(0)
		}
		if w, _, ok := intWidth(t); ok {
			return e.intConst(w, 0)
		}
		panic(fmt.Sprintf("zero: unsupported basic type %v", t))
	case *types.Pointer:
		return (*Value)(nil)
	case *types.Array:
		a := make(ArrayV, t.Len())
		for i := range a {
			a[i] = e.zero(t.Elem())
		}
		return a
	case *types.Named, *types.Alias:
		return e.zero(t.Underlying())
	case *types.Interface:
		return IfaceV{}
	case *types.Slice:
		return SliceV(nil)
	case *types.Struct:
		s := make(StructV, t.NumFields())
		for i := range s {
			s[i] = e.zero(t.Field(i).Type())
		}
		return s
	case *types.Tuple:
		if t.Len() == 1 {
			return e.zero(t.At(0).Type())
		}
		s := make(TupleV, t.Len())
		for i := range s {
			s[i] = e.zero(t.At(i).Type())
		}
		return s
	case *types.Chan:
		return (*ChanV)(nil)
	case *types.Map:
		return (*MapV)(nil)
	case *types.Signature:
		return (*ClosureV)(nil)
	case *types.TypeParam:
		panic("zero of type parameter")
	}
	panic(fmt.Sprintf("zero: unsupported type %T %v", t, t))
}

// copyVal deep-copies aggregates (value semantics).
func copyVal(v Value) Value {
	switch v := v.(type) {
	case StructV:
		n := make(StructV, len(v))
		for i, x := range v {
			n[i] = copyVal(x)
		}
		return n
	case ArrayV:
		n := make(ArrayV, len(v))
		for i, x := range v {
			n[i] = copyVal(x)
		}
		return n
	case TupleV:
		n := make(TupleV, len(v))
		for i, x := range v {
			n[i] = copyVal(x)
		}
		return n
	}
	return v
}

// storeInto writes v into *addr; aggregates of the same shape are copied
// element-wise so pointers into the destination stay valid.
func storeInto(addr *Value, v Value) {
	switch nv := v.(type) {
	case StructV:
		if old, ok := (*addr).(StructV); ok && len(old) == len(nv) {
			for i := range nv {
				storeInto(&old[i], nv[i])
			}
			return
		}
	case ArrayV:
		if old, ok := (*addr).(ArrayV); ok && len(old) == len(nv) {
			for i := range nv {
				storeInto(&old[i], nv[i])
			}
			return
		}
	}
	*addr = copyVal(v)
}

// eqVal returns the Bool term for a == b (Go comparison semantics).
func (e *Exec) eqVal(a, b Value) *Term {
	c := e.ctx
	switch x := a.(type) {
	case *Term:
		y, ok := b.(*Term)
		if !ok {
			panic(fmt.Sprintf("eqVal: term vs %T", b))
		}
		return c.Eq(x, y)
	case string:
		switch y := b.(type) {
		case string:
			return c.Bool(x == y)
		case *SymStr:
			return e.symStrEq(&SymStr{parts: []interface{}{x}}, y)
		}
	case *SymStr:
		switch y := b.(type) {
		case string:
			return e.symStrEq(x, &SymStr{parts: []interface{}{y}})
		case *SymStr:
			return e.symStrEq(x, y)
		}
	case StructV:
		y := b.(StructV)
		r := c.True
		for i := range x {
			r = c.And(r, e.eqVal(x[i], y[i]))
		}
		return r
	case ArrayV:
		y := b.(ArrayV)
		r := c.True
		for i := range x {
			r = c.And(r, e.eqVal(x[i], y[i]))
		}
		return r
	case *Value:
		switch y := b.(type) {
		case *Value:
			return c.Bool(x == y)
		case nil:
			return c.Bool(x == nil)
		}
	case *MapV:
		if isNilValue(b) {
			return c.Bool(x == nil)
		}
	case SliceV:
		if isNilValue(b) {
			return c.Bool(x == nil)
		}
	case *ChanV:
		switch y := b.(type) {
		case *ChanV:
			return c.Bool(x == y)
		case nil:
			return c.Bool(x == nil)
		}
	case *ClosureV, *ssa.Function, *NativeFn, *ssa.Builtin:
		if isNilValue(b) {
			return c.Bool(isNilValue(a))
		}
	case nil:
		return c.Bool(isNilValue(b))
	case IfaceV:
		y, ok := b.(IfaceV)
		if !ok {
			if b == nil {
				return c.Bool(x.t == nil)
			}
			panic(fmt.Sprintf("eqVal: iface vs %T", b))
		}
		if x.t == nil || y.t == nil {
			return c.Bool(x.t == nil && y.t == nil)
		}
		if !types.Identical(x.t, y.t) {
			return c.False
		}
		return e.eqVal(x.v, y.v)
	case *OpaqueV:
		y, ok := b.(*OpaqueV)
		return c.Bool(ok && x == y)
	}
	panic(fmt.Sprintf("eqVal: unsupported %T vs %T", a, b))
}

func (e *Exec) symStrEq(x, y *SymStr) *Term {
	c := e.ctx
	x, y = normSym(x), normSym(y)
	// concrete string against a template with %d arguments: parse the digits
	if len(x.parts) == 1 {
		if xs, ok := x.parts[0].(string); ok {
			return e.matchTemplate(xs, y)
		}
	}
	if len(y.parts) == 1 {
		if ys, ok := y.parts[0].(string); ok {
			return e.matchTemplate(ys, x)
		}
	}
	if len(x.parts) == 0 || len(y.parts) == 0 {
		return c.Bool(len(x.parts) == len(y.parts))
	}
	if len(x.parts) != len(y.parts) {
		panic(pathAbort{"error", "comparison of symbolic strings of different shape: " + x.String() + " vs " + y.String()})
	}
	r := c.True
	for i := range x.parts {
		switch p := x.parts[i].(type) {
		case string:
			q, ok := y.parts[i].(string)
			if !ok {
				panic(pathAbort{"error", "comparison of symbolic strings of different shape: " + x.String() + " vs " + y.String()})
			}
			if p != q {
				return c.False
			}
		case symPart:
			q, ok := y.parts[i].(symPart)
			if !ok || p.verb != q.verb || p.t.sort != q.t.sort {
				panic(pathAbort{"error", "comparison of symbolic strings of different shape: " + x.String() + " vs " + y.String()})
			}
			r = c.And(r, c.Eq(p.t, q.t))
		}
	}
	return r
}

// matchTemplate decides s == tmpl for a concrete s; only %d arguments
// (decimal integers followed by a non-digit literal or the end) are supported.
func (e *Exec) matchTemplate(s string, tmpl *SymStr) *Term {
	c := e.ctx
	r := c.True
	pos := 0
	for i, p := range tmpl.parts {
		switch p := p.(type) {
		case string:
			if !strings.HasPrefix(s[pos:], p) {
				return c.False
			}
			pos += len(p)
		case symPart:
			if p.verb != "%d" || p.t.sort.K == SBool {
				panic(pathAbort{"error", "comparison of a string with a symbolic " + p.verb + " argument"})
			}
			if i+1 < len(tmpl.parts) {
				if nx, ok := tmpl.parts[i+1].(string); !ok || (len(nx) > 0 && nx[0] >= '0' && nx[0] <= '9') {
					panic(pathAbort{"error", "ambiguous symbolic string template " + tmpl.String()})
				}
			}
			j := pos
			for j < len(s) && s[j] >= '0' && s[j] <= '9' {
				j++
			}
			if j == pos {
				return c.False // (negative numbers never appear in job names)
			}
			if j-pos > 1 && s[pos] == '0' {
				return c.False
			}
			n, ok := new(big.Int).SetString(s[pos:j], 10)
			if !ok {
				return c.False
			}
			if p.t.sort.K == SBV && n.BitLen() > p.t.sort.W {
				return c.False
			}
			r = c.And(r, c.Eq(p.t, c.Const(p.t.sort, n)))
			pos = j
		}
	}
	if pos != len(s) {
		return c.False
	}
	return r
}

func normSym(s *SymStr) *SymStr {
	var out []interface{}
	for _, p := range s.parts {
		if str, ok := p.(string); ok {
			if str == "" {
				continue
			}
			if n := len(out); n > 0 {
				if prev, ok := out[n-1].(string); ok {
					out[n-1] = prev + str
					continue
				}
			}
		}
		out = append(out, p)
	}
	return &SymStr{parts: out}
}

func (e *Exec) intConst(w int, v int64) *Term {
	if e.intMode {
		return e.ctx.IntConst(v)
	}
	return e.ctx.BVConst(w, v)
}

// describe renders a value for reports.
func describe(v Value) string {
	switch v := v.(type) {
	case *Term:
		return v.String()
	case string:
		return fmt.Sprintf("%q", v)
	case *SymStr:
		return v.String()
	case StructV:
		parts := make([]string, len(v))
		for i, x := range v {
			parts[i] = describe(x)
		}
		return "{" + strings.Join(parts, ",") + "}"
	case ArrayV:
		if len(v) > 8 {
			return fmt.Sprintf("[%d]{%s,…}", len(v), describe(v[0]))
		}
		parts := make([]string, len(v))
		for i, x := range v {
			parts[i] = describe(x)
		}
		return "[" + strings.Join(parts, ",") + "]"
	case SliceV:
		return fmt.Sprintf("slice(len=%d)", len(v))
	case IfaceV:
		if v.t == nil {
			return "nil-iface"
		}
		return fmt.Sprintf("iface(%v)", v.t)
	case *Value:
		if v == nil {
			return "nil-ptr"
		}
		return "ptr"
	}
	return fmt.Sprintf("%T", v)
}
