package main

// Models of sync, sync/atomic, x/sync/semaphore, go-deadlock primitives.
// State lives in side tables keyed by the address of the primitive.

import (
	"fmt"
)

type lockState struct {
	writer   int // thread id holding write lock, -1 none
	readers  map[int]int
	wwaiting int // writers waiting (writer preference)
	vc       []int
	rvc      []int
	name     string
}

type condState struct {
	waiters []*condWaiter
}
type condWaiter struct {
	th       *Thread
	signaled bool
}

type wgState struct {
	n  int
	vc []int
}

type semState struct {
	size int64
	cur  int64
}

func (e *Exec) lockOf(p *Value) *lockState {
	if p == nil {
		panic(goPanic{msg: "invalid memory address or nil pointer dereference (mutex)"})
	}
	l, ok := e.locks[p]
	if !ok {
		l = &lockState{writer: -1, readers: map[int]int{}}
		e.locks[p] = l
	}
	return l
}

func (e *Exec) mutexLock(th *Thread, p *Value) {
	e.yieldPoint(th)
	l := e.lockOf(p)
	if l.writer == th.id {
		// self-deadlock: blocks forever
		e.block(th, "recursive Lock of a mutex already held by this goroutine", func() bool { return false })
	}
	if l.writer >= 0 || len(l.readers) > 0 {
		if !th.wcounted {
			th.wcounted = true
			l.wwaiting++
		}
		e.block(th, "mutex Lock", func() bool { return l.writer < 0 && len(l.readers) == 0 })
	}
	if th.wcounted {
		th.wcounted = false
		l.wwaiting--
	}
	l.writer = th.id
	if e.race != nil {
		e.race.acquire(e, th, l.vc)
		e.race.acquire(e, th, l.rvc)
	}
}

func (e *Exec) mutexTryLock(th *Thread, p *Value) bool {
	e.yieldPoint(th)
	l := e.lockOf(p)
	if l.writer >= 0 || len(l.readers) > 0 {
		return false
	}
	l.writer = th.id
	if e.race != nil {
		e.race.acquire(e, th, l.vc)
		e.race.acquire(e, th, l.rvc)
	}
	return true
}

func (e *Exec) mutexUnlock(th *Thread, p *Value) {
	e.yieldPoint(th)
	l := e.lockOf(p)
	if l.writer < 0 {
		panic(goPanic{msg: "sync: unlock of unlocked mutex"})
	}
	l.writer = -1
	if e.race != nil {
		e.race.release(e, th, &l.vc)
	}
}

func (e *Exec) rwRLock(th *Thread, p *Value) {
	e.yieldPoint(th)
	l := e.lockOf(p)
	// Go's RWMutex: a waiting writer blocks new readers (also recursive ones).
	if l.writer >= 0 || l.wwaiting > 0 {
		what := "RWMutex RLock"
		if l.readers[th.id] > 0 {
			what = "recursive RLock while a writer is waiting"
		}
		e.block(th, what, func() bool { return l.writer < 0 && l.wwaiting == 0 })
	}
	l.readers[th.id]++
	if e.race != nil {
		e.race.acquire(e, th, l.vc)
	}
}

func (e *Exec) rwRUnlock(th *Thread, p *Value) {
	e.yieldPoint(th)
	l := e.lockOf(p)
	// a read lock may be released by another goroutine in Go; we require some reader
	if len(l.readers) == 0 {
		panic(goPanic{msg: "sync: RUnlock of unlocked RWMutex"})
	}
	id := th.id
	if l.readers[id] == 0 {
		for k := range l.readers {
			id = k
			break
		}
	}
	l.readers[id]--
	if l.readers[id] == 0 {
		delete(l.readers, id)
	}
	if e.race != nil {
		e.race.release(e, th, &l.rvc)
	}
}

func (e *Exec) heldLocks() []string {
	var out []string
	for _, l := range e.locks {
		if l.writer >= 0 {
			out = append(out, fmt.Sprintf("write-locked by goroutine %d", l.writer))
		}
		for id, n := range l.readers {
			out = append(out, fmt.Sprintf("read-locked x%d by goroutine %d", n, id))
		}
	}
	return out
}

// ---- Cond ----

func (e *Exec) condOf(p *Value) *condState {
	c, ok := e.conds[p]
	if !ok {
		c = &condState{}
		e.conds[p] = c
	}
	return c
}

// condWait: releases L, waits for signal, re-acquires L.
func (e *Exec) condWait(th *Thread, p *Value, lockPtr *Value) {
	cs := e.condOf(p)
	if th.condW == nil {
		// first entry: unlock and enqueue
		w := &condWaiter{th: th}
		cs.waiters = append(cs.waiters, w)
		th.condW = w
		th.skipYield = true
		e.mutexUnlock(th, lockPtr)
		e.block(th, "Cond.Wait", func() bool { return w.signaled })
	}
	if !th.condW.signaled {
		w := th.condW
		e.block(th, "Cond.Wait", func() bool { return w.signaled })
	}
	// signalled: re-acquire
	l := e.lockOf(lockPtr)
	if l.writer >= 0 || len(l.readers) > 0 {
		e.block(th, "Cond.Wait re-Lock", func() bool { return l.writer < 0 && len(l.readers) == 0 })
	}
	th.condW = nil
	l.writer = th.id
	if e.race != nil {
		e.race.acquire(e, th, l.vc)
	}
}

func (e *Exec) condSignal(th *Thread, p *Value, all bool) {
	e.yieldPoint(th)
	cs := e.condOf(p)
	for len(cs.waiters) > 0 {
		w := cs.waiters[0]
		cs.waiters = cs.waiters[1:]
		w.signaled = true
		if !all {
			break
		}
	}
}

// ---- WaitGroup ----

func (e *Exec) wgOf(p *Value) *wgState {
	w, ok := e.wgs[p]
	if !ok {
		w = &wgState{}
		e.wgs[p] = w
	}
	return w
}

func (e *Exec) wgAdd(th *Thread, p *Value, n int) {
	e.yieldPoint(th)
	w := e.wgOf(p)
	w.n += n
	if w.n < 0 {
		panic(goPanic{msg: "sync: negative WaitGroup counter"})
	}
	if n < 0 && e.race != nil {
		e.race.release(e, th, &w.vc)
	}
}

func (e *Exec) wgWait(th *Thread, p *Value) {
	e.yieldPoint(th)
	w := e.wgOf(p)
	if w.n > 0 {
		e.block(th, "WaitGroup.Wait", func() bool { return w.n == 0 })
	}
	if e.race != nil {
		e.race.acquire(e, th, w.vc)
	}
}
