package main

import (
	"fmt"
	"math"
	"math/big"
)

// Float64 in Int mode: a relaxation over the reals. A float64 value is a Real
// term; every rounding operation yields exact + err with a fresh err bounded
// by the IEEE-754 round-to-nearest error, |err| <= 2^-53*|exact| + 2^-1075.
// Every float64 behaviour is a behaviour of the relaxation (given no overflow
// to infinity and no NaN, which are obliged), so "unsat" carries over to the
// real semantics; a model may be spurious and is therefore only reported when
// the native replay confirms it.

var (
	ratEps  = new(big.Rat).SetFrac(big.NewInt(1), new(big.Int).Lsh(big.NewInt(1), 53))
	ratTiny = new(big.Rat).SetFrac(big.NewInt(1), new(big.Int).Lsh(big.NewInt(1), 1075))
	ratMax  = new(big.Rat).SetInt(new(big.Int).Lsh(big.NewInt(1), 1023))
	two53   = new(big.Int).Lsh(big.NewInt(1), 53)
)

func ratOf(f float64) *big.Rat {
	r, ok := new(big.Rat).SetString(big.NewFloat(f).Text('p', 0))
	if !ok {
		r = new(big.Rat)
		r.SetFloat64(f)
	}
	return r
}

func (e *Exec) fpConst(f float64) *Term {
	if e.intMode {
		if math.IsNaN(f) || math.IsInf(f, 0) {
			panic(pathAbort{"error", "relaxed float64: NaN/Inf constant"})
		}
		r := new(big.Rat)
		r.SetFloat64(f)
		return e.ctx.RConst(r)
	}
	return e.ctx.FPConst(f)
}

func (e *Exec) rAbs(t *Term) *Term {
	c := e.ctx
	zero := c.RConst(new(big.Rat))
	return c.Ite(c.RCmp(">=", t, zero), t, c.RBin("-", zero, t))
}

// rRound adds the rounding error of one float64 operation to its exact result.
// Rounding to nearest is monotone and maps representable values to themselves,
// so the result lies on the same side of every representable value as the
// exact result does; the operands (float64 values themselves) and zero are
// such values.
func (e *Exec) rRound(exact *Term, what string, representable ...*Term) *Term {
	c := e.ctx
	if exact.op == "rconst" {
		f, _ := exact.rat.Float64() // nearest float64 (ties to even)
		if math.IsInf(f, 0) {
			panic(pathAbort{"bound", "relaxed float64: overflow to infinity in " + what})
		}
		r := new(big.Rat)
		r.SetFloat64(f)
		return c.RConst(r)
	}
	abs := e.rAbs(exact)
	if e.feasible(c.RCmp(">=", abs, c.RConst(ratMax))) != Unsat {
		panic(pathAbort{"bound", "relaxed float64: result may overflow to infinity in " + what})
	}
	ev := c.Var(fmt.Sprintf("fperr#%d", e.fpErrN), RealSort)
	e.fpErrN++
	bound := c.RBin("+", c.RBin("*", abs, c.RConst(ratEps)), c.RConst(ratTiny))
	e.assume(c.And(c.RCmp("<=", c.RBin("-", c.RConst(new(big.Rat)), bound), ev), c.RCmp("<=", ev, bound)))
	r := c.RBin("+", exact, ev)
	for _, x := range append(representable, c.RConst(new(big.Rat))) {
		e.assume(c.Or(c.Not(c.RCmp(">=", exact, x)), c.RCmp(">=", r, x)))
		e.assume(c.Or(c.Not(c.RCmp("<=", exact, x)), c.RCmp("<=", r, x)))
	}
	return r
}

func (e *Exec) fpBin(op string, a, b *Term) *Term {
	if !e.intMode {
		return e.ctx.FPBin(op, a, b)
	}
	m := map[string]string{"fp.add": "+", "fp.sub": "-", "fp.mul": "*", "fp.div": "/"}
	if op == "fp.div" {
		zero := e.ctx.RConst(new(big.Rat))
		if b.op == "rconst" && b.rat.Sign() == 0 || b.op != "rconst" && e.feasible(e.ctx.RCmp("=", b, zero)) != Unsat {
			panic(pathAbort{"bound", "relaxed float64: division by a value that may be zero"})
		}
	}
	return e.rRound(e.ctx.RBin(m[op], a, b), op, a, b)
}

func (e *Exec) fpCmp(op string, a, b *Term) *Term {
	if !e.intMode {
		return e.ctx.FPCmp(op, a, b)
	}
	m := map[string]string{"fp.lt": "<", "fp.leq": "<=", "fp.gt": ">", "fp.geq": ">=", "fp.eq": "="}
	return e.ctx.RCmp(m[op], a, b)
}

// fpFromInt converts an integer to float64 (exact up to 2^53 in magnitude).
func (e *Exec) fpFromInt(t *Term, signed bool) *Term {
	if !e.intMode {
		return e.ctx.FPFromBV(t, signed)
	}
	c := e.ctx
	if t.IsConst() {
		return e.rRound(c.ToReal(t), "integer to float64")
	}
	big53 := c.Const(IntSort, two53)
	small := c.And(c.intCmp("le", c.intBin("-", c.Const(IntSort, big.NewInt(0)), big53), t), c.intCmp("le", t, big53))
	if e.feasible(c.Not(small)) == Unsat {
		return c.ToReal(t)
	}
	return e.rRound(c.ToReal(t), "integer to float64")
}

// fpToInt converts float64 to an integer, truncating toward zero.
func (e *Exec) fpToInt(t *Term, w int, signed bool) *Term {
	if !e.intMode {
		return e.ctx.FPToBV(t, w, signed)
	}
	c := e.ctx
	zero := c.RConst(new(big.Rat))
	q := c.Ite(c.RCmp(">=", t, zero), c.ToIntFloor(t), c.intBin("-", c.Const(IntSort, big.NewInt(0)), c.ToIntFloor(c.RBin("-", zero, t))))
	e.intRange(q, w, signed, "float64 to integer conversion")
	return q
}
