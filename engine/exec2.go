package main

import (
	"fmt"
	"go/token"
	"go/types"
	"strings"

	"golang.org/x/tools/go/ssa"
)

// pushCall arranges for fn(args) to run on th. If the call completes
// immediately (builtin / intrinsic) ret is invoked at once and false is
// returned; otherwise a frame is pushed whose return will invoke ret.
func (e *Exec) pushCall(th *Thread, fnv Value, args []Value, ret func(Value)) bool {
	var fn *ssa.Function
	var env []Value
	switch f := fnv.(type) {
	case *ssa.Function:
		if f == nil {
			panic(goPanic{msg: "call of nil function"})
		}
		fn = f
	case *ClosureV:
		if f == nil {
			panic(goPanic{msg: "call of nil function"})
		}
		fn, env = f.fn, f.env
	case *ssa.Builtin:
		res := e.callBuiltin(th, f, args)
		if ret != nil {
			ret(res)
		}
		return false
	case *NativeFn:
		if f == nil {
			panic(goPanic{msg: "call of nil function"})
		}
		res := f.f(th, args)
		if ret != nil {
			ret(res)
		}
		return false
	default:
		panic(pathAbort{"error", fmt.Sprintf("cannot call %T", fnv)})
	}
	if res, handled := e.intrinsic(th, fn, args); handled {
		if ret != nil {
			ret(res)
		}
		return false
	}
	e.P.ensureBuilt(fn)
	if fn.Blocks == nil {
		panic(pathAbort{"error", "no code for function " + fn.String()})
	}
	if fn.TypeParams().Len() > 0 && len(fn.TypeArgs()) == 0 {
		panic(pathAbort{"error", "uninstantiated generic " + fn.String()})
	}
	depth := 0
	if th.top != nil {
		depth = th.top.depth + 1
	}
	if depth > 300 {
		panic(pathAbort{"bound", "call depth > 300 in " + fn.String()})
	}
	fr := &Frame{fn: fn, block: fn.Blocks[0], env: make(map[ssa.Value]Value, 16), caller: th.top, onReturn: ret, depth: depth}
	for _, l := range fn.Locals {
		p := new(Value)
		*p = e.zero(l.Type().(*types.Pointer).Elem())
		fr.env[l] = p
	}
	if len(args) != len(fn.Params) {
		panic(pathAbort{"error", fmt.Sprintf("arity mismatch calling %s: %d args, %d params", fn, len(args), len(fn.Params))})
	}
	for i, p := range fn.Params {
		fr.env[p] = args[i]
	}
	for i, fv := range fn.FreeVars {
		fr.env[fv] = env[i]
	}
	th.top = fr
	e.funcs[fn] += 0
	return true
}

// callSync runs fn(args) to completion on th (nested interpreter loop).
func (e *Exec) callSync(th *Thread, fnv Value, args []Value) Value {
	var res Value
	done := false
	base := th.top
	e.pushCall(th, fnv, args, func(r Value) { res = r; done = true })
	for !done {
		if th.top == base || th.top == nil {
			panic(pathAbort{"error", "callSync: frame vanished"})
		}
		func() {
			defer func() {
				if r := recover(); r != nil {
					switch r.(type) {
					case blockedSig, yieldSig:
						panic(pathAbort{"error", "blocking operation inside a synchronous intrinsic callback"})
					}
					panic(r)
				}
			}()
			e.stepInstr(th)
		}()
	}
	return res
}

func (e *Exec) pos(p token.Pos) string {
	if p == token.NoPos {
		return "?"
	}
	ps := e.P.fset.Position(p)
	f := ps.Filename
	f = strings.TrimPrefix(f, repoDir+"/")
	if i := strings.Index(f, "/pkg/mod/"); i >= 0 {
		f = f[i+9:]
	}
	return fmt.Sprintf("%s:%d", f, ps.Line)
}

func (e *Exec) stack(th *Thread) []string {
	var out []string
	for fr := th.top; fr != nil; fr = fr.caller {
		if fr.fn == nil {
			continue
		}
		p := token.NoPos
		if fr.block != nil && fr.pc < len(fr.block.Instrs) {
			p = fr.block.Instrs[fr.pc].Pos()
			for i := fr.pc; p == token.NoPos && i >= 0; i-- {
				p = fr.block.Instrs[i].Pos()
			}
		}
		out = append(out, fr.fn.String()+" "+e.pos(p))
	}
	return out
}

// stepInstr executes one instruction of th's top frame.
func (e *Exec) stepInstr(th *Thread) {
	fr := th.top
	if fr.panicking {
		e.continueUnwind(th, fr)
		return
	}
	if fr.recovered {
		if n := len(fr.defers); n > 0 {
			d := fr.defers[n-1]
			pushed := e.pushCall(th, d.fn, d.args, nil)
			fr.defers = fr.defers[:n-1]
			if pushed {
				th.top.isDefer = true
				th.top.deferOf = fr
			}
			return
		}
		fr.recovered = false
		if fr.fn.Recover != nil {
			fr.prev, fr.block, fr.pc = nil, fr.fn.Recover, 0
			return
		}
		e.doReturn(th, fr, e.zero(fr.fn.Signature.Results()))
		return
	}
	if fr.pc == 0 && fr.block != nil {
		e.execPhis(fr)
	}
	instr := fr.block.Instrs[fr.pc]
	savedPC := fr.pc
	e.steps++
	e.funcs[fr.fn]++
	if ll := e.opts.LivelockSteps; ll > 0 && e.steps-e.progressAt > ll {
		e.livelock(th, fr, ll)
	}
	if e.opts.MaxSteps > 0 && e.steps > e.opts.MaxSteps {
		if e.steps-e.progressAt > e.opts.MaxSteps/2 {
			e.livelock(th, fr, e.opts.MaxSteps/2)
		}
		panic(pathAbort{"bound", fmt.Sprintf("step bound %d exceeded in %s", e.opts.MaxSteps, fr.fn)})
	}
	ok := false
	defer func() {
		if !ok {
			// instruction did not complete (blocked / yield / panic): stay on it
			if th.top == fr {
				fr.pc = savedPC
			}
		}
	}()
	e.visit(th, fr, instr)
	ok = true
}

func (e *Exec) execPhis(fr *Frame) {
	n := 0
	for _, in := range fr.block.Instrs {
		if _, ok := in.(*ssa.Phi); !ok {
			break
		}
		n++
	}
	if n == 0 {
		return
	}
	idx := -1
	for i, p := range fr.block.Preds {
		if p == fr.prev {
			idx = i
			break
		}
	}
	tmp := make([]Value, n)
	for i := 0; i < n; i++ {
		tmp[i] = e.get(fr, fr.block.Instrs[i].(*ssa.Phi).Edges[idx])
	}
	for i := 0; i < n; i++ {
		fr.env[fr.block.Instrs[i].(*ssa.Phi)] = tmp[i]
	}
	fr.pc = n
}

func (e *Exec) jump(fr *Frame, succ int) {
	fr.prev, fr.block = fr.block, fr.block.Succs[succ]
	fr.pc = 0
}

func (e *Exec) prepareCall(th *Thread, fr *Frame, call *ssa.CallCommon) (Value, []Value) {
	v := e.get(fr, call.Value)
	var args []Value
	var fn Value
	if call.Method == nil {
		fn = v
	} else {
		recv, ok := v.(IfaceV)
		if !ok {
			panic(pathAbort{"error", fmt.Sprintf("invoke on non-interface %T", v)})
		}
		for _, a := range call.Args {
			args = append(args, e.get(fr, a))
		}
		if nf := e.invokeSpecial(th, recv, call, args); nf != nil {
			return nf, args
		}
		if recv.t == nil {
			panic(goPanic{msg: "invalid memory address or nil pointer dereference (method " + call.Method.Name() + " invoked on nil interface)"})
		}
		f := e.P.lookupMethod(recv.t, call.Method.Pkg(), call.Method.Name())
		if f == nil {
			panic(pathAbort{"error", fmt.Sprintf("method %s not found on %v", call.Method.Name(), recv.t)})
		}
		return f, append([]Value{recv.v}, args...)
	}
	for _, a := range call.Args {
		args = append(args, e.get(fr, a))
	}
	return fn, args
}

func (e *Exec) visit(th *Thread, fr *Frame, instr ssa.Instruction) {
	switch in := instr.(type) {
	case *ssa.DebugRef:
		fr.pc++
	case *ssa.UnOp:
		fr.env[in] = e.unop(th, in, e.get(fr, in.X))
		fr.pc++
	case *ssa.BinOp:
		fr.env[in] = e.binop(in.Op, in.X.Type(), e.get(fr, in.X), e.get(fr, in.Y), in.Type())
		fr.pc++
	case *ssa.Call:
		fn, args := e.prepareCall(th, fr, &in.Call)
		fr.pc++
		e.pushCall(th, fn, args, func(r Value) { fr.env[in] = r })
	case *ssa.ChangeInterface:
		fr.env[in] = e.get(fr, in.X)
		fr.pc++
	case *ssa.ChangeType:
		fr.env[in] = e.get(fr, in.X)
		fr.pc++
	case *ssa.Convert:
		fr.env[in] = e.conv(in.Type(), in.X.Type(), e.get(fr, in.X))
		fr.pc++
	case *ssa.MultiConvert:
		fr.env[in] = e.conv(in.Type(), in.X.Type(), e.get(fr, in.X))
		fr.pc++
	case *ssa.SliceToArrayPointer:
		x := e.get(fr, in.X).(SliceV)
		n := int(in.Type().(*types.Pointer).Elem().Underlying().(*types.Array).Len())
		if len(x) < n {
			panic(goPanic{msg: fmt.Sprintf("cannot convert slice with length %d to array or pointer to array with length %d", len(x), n)})
		}
		if x == nil {
			fr.env[in] = (*Value)(nil)
		} else {
			var v Value = ArrayV(x[:n:n])
			fr.env[in] = &v
		}
		fr.pc++
	case *ssa.MakeInterface:
		fr.env[in] = IfaceV{t: in.X.Type(), v: e.get(fr, in.X)}
		fr.pc++
	case *ssa.Extract:
		fr.env[in] = e.get(fr, in.Tuple).(TupleV)[in.Index]
		fr.pc++
	case *ssa.Slice:
		fr.env[in] = e.sliceOp(fr, in)
		fr.pc++
	case *ssa.Return:
		var res Value
		switch len(in.Results) {
		case 0:
		case 1:
			res = e.get(fr, in.Results[0])
		default:
			t := make(TupleV, len(in.Results))
			for i, r := range in.Results {
				t[i] = e.get(fr, r)
			}
			res = t
		}
		e.doReturn(th, fr, res)
	case *ssa.RunDefers:
		if n := len(fr.defers); n > 0 {
			d := fr.defers[n-1]
			// stay on RunDefers until all have run
			pushed := e.pushCall(th, d.fn, d.args, nil)
			fr.defers = fr.defers[:n-1]
			if pushed {
				th.top.isDefer = true
				th.top.deferOf = fr
			}
		} else {
			fr.pc++
		}
	case *ssa.Panic:
		v := e.get(fr, in.X)
		panic(goPanic{val: v, msg: "panic: " + e.panicString(th, v)})
	case *ssa.Send:
		e.chanSend(th, e.get(fr, in.Chan).(*ChanV), e.get(fr, in.X))
		fr.pc++
	case *ssa.Store:
		addr := e.get(fr, in.Addr).(*Value)
		if addr == nil {
			panic(goPanic{msg: "invalid memory address or nil pointer dereference (store)"})
		}
		if e.race != nil {
			e.race.access(e, th, addr, true, in.Pos())
		}
		storeInto(addr, e.get(fr, in.Val))
		fr.pc++
	case *ssa.If:
		c := e.get(fr, in.Cond).(*Term)
		if e.branch(c) {
			e.jump(fr, 0)
		} else {
			e.jump(fr, 1)
		}
	case *ssa.Jump:
		e.jump(fr, 0)
	case *ssa.Defer:
		fn, args := e.prepareCall(th, fr, &in.Call)
		fr.defers = append(fr.defers, &deferred{fn: fn, args: args})
		fr.pc++
	case *ssa.Go:
		fn, args := e.prepareCall(th, fr, &in.Call)
		fr.pc++
		e.spawn(th, fn, args)
	case *ssa.MakeChan:
		fr.env[in] = e.newChan(e.concreteInt(e.get(fr, in.Size), "chan size"))
		fr.pc++
	case *ssa.Alloc:
		var addr *Value
		if in.Heap {
			addr = new(Value)
			fr.env[in] = addr
		} else {
			addr = fr.env[in].(*Value)
		}
		*addr = e.zero(in.Type().(*types.Pointer).Elem())
		fr.pc++
	case *ssa.MakeSlice:
		n := e.concreteInt(e.get(fr, in.Len), "make len")
		cp := e.concreteInt(e.get(fr, in.Cap), "make cap")
		if n < 0 || cp < n {
			panic(goPanic{msg: "makeslice: len out of range"})
		}
		if cp > 1<<16 {
			panic(pathAbort{"bound", "makeslice capacity > 65536"})
		}
		s := make(SliceV, cp)
		el := in.Type().Underlying().(*types.Slice).Elem()
		for i := range s {
			s[i] = e.zero(el)
		}
		fr.env[in] = s[:n]
		fr.pc++
	case *ssa.MakeMap:
		e.nmap++
		fr.env[in] = &MapV{id: e.nmap}
		fr.pc++
	case *ssa.Range:
		fr.env[in] = e.rangeIter(th, e.get(fr, in.X))
		fr.pc++
	case *ssa.Next:
		fr.env[in] = e.get(fr, in.Iter).(*iterV).next(e)
		fr.pc++
	case *ssa.FieldAddr:
		p := e.get(fr, in.X).(*Value)
		if p == nil {
			panic(goPanic{msg: "invalid memory address or nil pointer dereference (field " + fieldName(in.X.Type(), in.Field) + ")"})
		}
		fr.env[in] = &(*p).(StructV)[in.Field]
		fr.pc++
	case *ssa.Field:
		fr.env[in] = e.get(fr, in.X).(StructV)[in.Field]
		fr.pc++
	case *ssa.IndexAddr:
		x := e.get(fr, in.X)
		idx := e.get(fr, in.Index).(*Term)
		_, signed, _ := intWidth(in.Index.Type())
		switch x := x.(type) {
		case SliceV:
			i := e.concretizeIndex(idx, len(x), signed)
			if i < 0 {
				panic(goPanic{msg: fmt.Sprintf("index out of range [%v] with length %d", idx, len(x))})
			}
			fr.env[in] = &x[i]
		case *Value:
			if x == nil {
				panic(goPanic{msg: "invalid memory address or nil pointer dereference (array index)"})
			}
			a := (*x).(ArrayV)
			i := e.concretizeIndex(idx, len(a), signed)
			if i < 0 {
				panic(goPanic{msg: fmt.Sprintf("index out of range [%v] with length %d", idx, len(a))})
			}
			fr.env[in] = &a[i]
		default:
			panic(pathAbort{"error", fmt.Sprintf("IndexAddr on %T", x)})
		}
		fr.pc++
	case *ssa.Index:
		x := e.get(fr, in.X)
		idx := e.get(fr, in.Index).(*Term)
		_, signed, _ := intWidth(in.Index.Type())
		switch x := x.(type) {
		case ArrayV:
			i := e.concretizeIndex(idx, len(x), signed)
			if i < 0 {
				panic(goPanic{msg: fmt.Sprintf("index out of range [%v] with length %d", idx, len(x))})
			}
			fr.env[in] = x[i]
		case string:
			i := e.concretizeIndex(idx, len(x), signed)
			if i < 0 {
				panic(goPanic{msg: fmt.Sprintf("index out of range [%v] with length %d", idx, len(x))})
			}
			fr.env[in] = e.intConst(8, int64(x[i]))
		default:
			panic(pathAbort{"error", fmt.Sprintf("Index on %T", x)})
		}
		fr.pc++
	case *ssa.Lookup:
		fr.env[in] = e.lookup(th, in, e.get(fr, in.X), e.get(fr, in.Index))
		fr.pc++
	case *ssa.MapUpdate:
		m := e.get(fr, in.Map).(*MapV)
		if m == nil {
			panic(goPanic{msg: "assignment to entry in nil map"})
		}
		e.mapSet(th, m, e.get(fr, in.Key), e.get(fr, in.Value), in.Pos())
		fr.pc++
	case *ssa.TypeAssert:
		fr.env[in] = e.typeAssert(in, e.get(fr, in.X).(IfaceV))
		fr.pc++
	case *ssa.MakeClosure:
		var b []Value
		for _, x := range in.Bindings {
			b = append(b, e.get(fr, x))
		}
		fr.env[in] = &ClosureV{fn: in.Fn.(*ssa.Function), env: b}
		fr.pc++
	case *ssa.Select:
		fr.env[in] = e.selectOp(th, fr, in)
		fr.pc++
	case *ssa.Phi:
		panic(pathAbort{"error", "phi reached"})
	default:
		panic(pathAbort{"error", fmt.Sprintf("unsupported instruction %T in %s", instr, fr.fn)})
	}
}

func fieldName(t types.Type, i int) string {
	if p, ok := t.Underlying().(*types.Pointer); ok {
		if s, ok := p.Elem().Underlying().(*types.Struct); ok && i < s.NumFields() {
			return s.Field(i).Name()
		}
	}
	return fmt.Sprint(i)
}

func (e *Exec) doReturn(th *Thread, fr *Frame, res Value) {
	th.top = fr.caller
	if fr.onReturn != nil {
		fr.onReturn(res)
	}
	if th.top == nil {
		th.done = true
		e.progress()
	}
}

// ---- panics ----

// startPanic begins unwinding th with panic p.
func (e *Exec) startPanic(th *Thread, p *goPanic) {
	fr := th.top
	if fr == nil {
		th.done = true
		e.progress()
		return
	}
	fr.panicking = true
	fr.panicVal = p
	e.lastStack = e.stack(th)
}

// continueUnwind runs the next deferred call of a panicking frame, or pops it.
func (e *Exec) continueUnwind(th *Thread, fr *Frame) {
	if n := len(fr.defers); n > 0 {
		d := fr.defers[n-1]
		fr.defers = fr.defers[:n-1]
		if e.pushCall(th, d.fn, d.args, nil) {
			th.top.isDefer = true
			th.top.deferOf = fr
		}
		return
	}
	p := fr.panicVal
	// pop
	th.top = fr.caller
	if fr.fn == nil || th.top == nil {
		// uncaught
		th.done = true
		e.progress()
		th.top = nil
		panic(uncaughtPanic{p: p, th: th, stack: e.lastStack})
	}
	// skip pseudo frames
	th.top.panicking = true
	th.top.panicVal = p
}

type uncaughtPanic struct {
	p     *goPanic
	th    *Thread
	stack []string
}

func (e *Exec) doRecover(th *Thread) Value {
	fr := th.top // frame of the deferred function calling recover()
	if fr != nil && fr.isDefer && fr.deferOf != nil && fr.deferOf.panicking {
		f := fr.deferOf
		p := f.panicVal
		f.panicking = false
		f.panicVal = nil
		f.recovered = true
		if p.val != nil {
			return p.val
		}
		return IfaceV{t: types.Typ[types.String], v: p.msg}
	}
	return IfaceV{}
}

func (e *Exec) panicString(th *Thread, v Value) string {
	if iv, ok := v.(IfaceV); ok {
		switch x := iv.v.(type) {
		case string:
			return x
		case *SymStr:
			return x.String()
		}
		if iv.t != nil {
			return fmt.Sprintf("(%v)", iv.t)
		}
	}
	return describe(v)
}

// progress notes a sign of progress of the path (see livelock).
func (e *Exec) progress() {
	if g := e.steps - e.progressAt; g > e.maxGap {
		e.maxGap = g
	}
	e.progressAt = e.steps
}

// livelock reports a goroutine that keeps executing without ever blocking,
// finishing or letting (virtual) time pass: progress is noted whenever a
// goroutine blocks or ends, a goroutine is started, or the clock advances.
// With the clock standing still no deadline can ever expire for such a loop,
// so the call it sits in does not return.
func (e *Exec) livelock(th *Thread, fr *Frame, n int) {
	m := map[string]string{}
	if e.feasible() == Sat {
		m = e.model()
	}
	v := &Violation{Kind: "livelock", Label: "livelock", Model: m, Stack: e.stackSafe(),
		Msg: fmt.Sprintf("goroutine %d (%s) executed %d instructions without blocking, finishing or time advancing: busy loop in %s", th.id, th.name, n, fr.fn)}
	panic(pathAbort{"violation", v.Msg}.with(v))
}
