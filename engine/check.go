package main

import (
	"encoding/json"
	"flag"
	"fmt"
	"os"
	"os/exec"
	"path/filepath"
	"sort"
	"strconv"
	"strings"
	"time"

	"golang.org/x/tools/go/ssa"
)

const verifDir = "/verif"

type PropSpec struct {
	Level       string        `json:"level"`
	Assumptions []string      `json:"assumptions"`
	Bounds      []string      `json:"bounds"`
	Outside     []string      `json:"outside"`
	Harnesses   []HarnessSpec `json:"harnesses"`
}

type KnownFinding struct {
	Property string `json:"property"`
	Harness  string `json:"harness"` // optional: harness function
	Label    string `json:"label"`   // assertion label / "panic" / "deadlock" / "data-race"
	Match    string `json:"match"`   // substring of message or stack identifying the specific failing site/input
	What     string `json:"what"`
}

type KnownFile struct {
	Findings []KnownFinding `json:"findings"`
	Fixed    []string       `json:"fixed"`
}

func loadKnown() KnownFile {
	var k KnownFile
	b, err := os.ReadFile(filepath.Join(verifDir, "known_findings.json"))
	if err == nil {
		json.Unmarshal(b, &k)
	}
	return k
}

func (k KnownFile) match(prop, harness string, v *Violation) *KnownFinding {
	hay := v.Msg + " " + strings.Join(v.Stack, " ")
	for i, f := range k.Findings {
		if f.Property != prop || f.Label != v.Label {
			continue
		}
		if f.Harness != "" && f.Harness != harness {
			continue
		}
		if f.Match != "" && !strings.Contains(hay, f.Match) {
			continue
		}
		return &k.Findings[i]
	}
	return nil
}

type harnessReport struct {
	Harness      string         `json:"harness"`
	Pkg          string         `json:"pkg"`
	Note         string         `json:"note,omitempty"`
	Opts         ExecOpts       `json:"options"`
	Paths        int            `json:"paths"`
	Completed    int            `json:"paths_completed"`
	Infeasible   int            `json:"paths_infeasible"`
	Steps        int            `json:"ssa_instructions_executed"`
	MaxGap       int            `json:"max_instructions_between_progress"`
	Files        map[string]int `json:"instructions_executed_per_source_file"`
	Obligations  int            `json:"assertions_checked"`
	Discharged   map[string]int `json:"assertions_discharged_by_label"`
	Covers       map[string]int `json:"covers_reached"`
	Queries      int            `json:"solver_queries"`
	Sat          int            `json:"solver_sat"`
	Unsat        int            `json:"solver_unsat"`
	Unknown      int            `json:"solver_unknown"`
	SolverS      float64        `json:"solver_time_s"`
	MaxQueryS    float64        `json:"max_query_s"`
	WallS        float64        `json:"wall_s"`
	OverflowObl  int            `json:"int_mode_range_obligations,omitempty"`
	Violations   int            `json:"violations"`
	Known        int            `json:"known_findings"`
	Errors       []string       `json:"errors,omitempty"`
	BoundsHit    []string       `json:"bounds_exceeded,omitempty"`
	Inconclusive []string       `json:"inconclusive,omitempty"`
	MissingCover []string       `json:"covers_not_reached,omitempty"`
	Validated    int            `json:"cover_models_replayed_natively"`
	ValidateFail []string       `json:"native_replay_disagreements,omitempty"`
}

func checkMain(args []string) {
	fs := flag.NewFlagSet("check", flag.ExitOnError)
	tier := fs.String("tier", "quick", "quick|thorough")
	workers := fs.Int("j", 16, "workers")
	solver := fs.String("solver", defaultSolver(), "primary solver (z3-new = z3 5.1.0 when installed, else z3)")
	timeout := fs.Int("solver-timeout", 30000, "per-query timeout ms")
	replayDir := fs.String("replay", "", "re-run a recorded counterexample directory")
	only := fs.String("only", "", "run only this harness")
	noValidate := fs.Bool("no-validate", false, "skip native replay of cover models")
	if len(args) < 1 {
		fmt.Println("usage: vcheck <property> [--tier quick|thorough] | vcheck dev ...")
		os.Exit(2)
	}
	prop := args[0]
	fs.Parse(args[1:])
	if t := os.Getenv("VERIF_TIER"); t != "" && !flagSet(fs, "tier") {
		*tier = t
	}
	seed := 0
	if s := os.Getenv("VERIF_SEED"); s != "" {
		seed, _ = strconv.Atoi(s)
	}
	if *replayDir != "" {
		os.Exit(replayRecorded(*replayDir))
	}
	t0 := time.Now()

	var reg map[string]PropSpec
	b, err := os.ReadFile(filepath.Join(verifDir, "harness", "registry.json"))
	if err != nil {
		fmt.Println("cannot read registry:", err)
		os.Exit(2)
	}
	if err := json.Unmarshal(b, &reg); err != nil {
		fmt.Println("bad registry:", err)
		os.Exit(2)
	}
	ps, ok := reg[prop]
	if !ok {
		fmt.Println("unknown property", prop)
		os.Exit(2)
	}
	var specs []HarnessSpec
	pkgSet := map[string]bool{}
	for _, h := range ps.Harnesses {
		if *only != "" && h.Func != *only {
			continue
		}
		if h.Tier == "thorough" && *tier != "thorough" {
			continue
		}
		if h.Tier == "quick-only" && *tier != "quick" {
			continue
		}
		specs = append(specs, h)
		pkgSet[h.Pkg] = true
	}
	var patterns []string
	for p := range pkgSet {
		patterns = append(patterns, "./"+p)
	}
	sort.Strings(patterns)
	P, _, overlayFiles, err := LoadProgram(filepath.Join(verifDir, "harness"), patterns)
	if err != nil {
		fmt.Printf("ERROR property=%s harness does not load against the current tree: %v\n", prop, err)
		writeEvidence(prop, *tier, seed, ps, nil, time.Since(t0), 0, []string{"load error: " + err.Error()}, nil)
		os.Exit(2)
	}
	loadS := time.Since(t0).Seconds()
	known := loadKnown()

	var reports []*harnessReport
	exit := 0
	nviol := 0
	var samples []interface{}
	funcsEncoded := map[string]int{}
	stubsUsed := map[string]int{}
	seenViol := map[string]bool{}
	for _, h := range specs {
		pkg := P.pkgs[modJoin(P.modPath, h.Pkg)]
		if pkg == nil {
			fmt.Printf("ERROR property=%s package %s not loaded\n", prop, h.Pkg)
			exit = 3
			continue
		}
		st := Explore(P, pkg, h, *workers, *solver, *timeout)
		r := &harnessReport{Harness: h.Func, Pkg: h.Pkg, Note: h.Note, Opts: h.Opts, Paths: st.Paths, Completed: st.Completed, Infeasible: st.Infeasible,
			Steps: st.Steps, MaxGap: st.MaxGap, Files: st.Files, Obligations: st.AssertsTotal, Discharged: st.Asserts, Covers: st.Covers,
			Queries: st.Solver.Queries, Sat: st.Solver.Sat, Unsat: st.Solver.Unsat, Unknown: st.Solver.Unknown,
			SolverS: st.Solver.Time.Seconds(), MaxQueryS: st.Solver.MaxQuery.Seconds(), WallS: st.Wall.Seconds(), OverflowObl: st.OverflowObl,
			Errors: dedupe(st.Errors, 5), BoundsHit: dedupe(st.Bounds, 5), Inconclusive: dedupe(st.Inconclusive, 5)}
		reports = append(reports, r)
		for k, v := range st.Funcs {
			funcsEncoded[k] += v
		}
		for k, v := range st.Stubs {
			stubsUsed[k] += v
		}
		for _, s := range st.Samples {
			if len(samples) < 6 {
				s["harness"] = h.Func
				samples = append(samples, s)
			}
		}
		// vacuity: covers named in the harness body must be reachable
		for _, c := range requiredCovers(pkg.Func(h.Func)) {
			if st.Covers[c] == 0 {
				r.MissingCover = append(r.MissingCover, c)
			}
		}
		if st.MaxPathHit {
			r.BoundsHit = append(r.BoundsHit, fmt.Sprintf("path budget %d exhausted", h.MaxPaths))
		}
		if len(st.Errors) > 0 || len(st.Bounds) > 0 || len(st.Inconclusive) > 0 || st.MaxPathHit {
			for _, e := range r.Errors {
				fmt.Printf("ERROR property=%s %s\n", prop, e)
			}
			for _, e := range r.BoundsHit {
				fmt.Printf("BOUND property=%s %s\n", prop, e)
			}
			for _, e := range r.Inconclusive {
				fmt.Printf("INCONCLUSIVE property=%s %s\n", prop, e)
			}
			if exit == 0 {
				exit = 3
			}
		}
		if st.Completed == 0 && len(st.Violations) == 0 {
			fmt.Printf("ERROR property=%s harness %s is vacuous: no path completed\n", prop, h.Func)
			if exit == 0 {
				exit = 3
			}
		}
		if len(r.MissingCover) > 0 && len(st.Violations) == 0 {
			fmt.Printf("WARNING property=%s harness %s: covers not reached: %v\n", prop, h.Func, r.MissingCover)
		}
		// violations: one report per (harness, label, site); several counterexamples of
		// one report are tried natively until one reproduces (a counterexample whose
		// outcome depends on the order in which goroutines run need not)
		sort.SliceStable(st.Violations, func(i, j int) bool { return len(st.Violations[i].Prefix) < len(st.Violations[j].Prefix) })
		var keys []string
		cands := map[string][]*Violation{}
		for _, v := range st.Violations {
			site := ""
			if len(v.Stack) > 0 {
				site = v.Stack[0]
			}
			key := h.Func + "|" + v.Label + "|" + v.Kind + "|" + site
			if v.Kind == "deadlock" || v.Kind == "race" {
				key = h.Func + "|" + v.Label + "|" + v.Msg
			}
			if seenViol[key] {
				continue
			}
			if _, ok := cands[key]; !ok {
				keys = append(keys, key)
			}
			cands[key] = append(cands[key], v)
		}
		for _, key := range keys {
			seenViol[key] = true
			vs := cands[key]
			v := vs[0]
			if kf := known.match(prop, h.Func, v); kf != nil {
				r.Known++
				fmt.Printf("KNOWN-FINDING: property=%s %s [%s %s]\n", prop, kf.What, h.Func, v.Label)
				continue
			}
			status, detail, dir := "", "", ""
			threads := 0
			for i, c := range vs {
				if i >= 6 {
					break
				}
				dir = recordReplay(prop, h, c, overlayFiles, pkg)
				status, detail = confirmReplay(dir, h, c)
				if c.Threads > threads {
					threads = c.Threads
				}
				if status == "confirmed" {
					v = c
					break
				}
			}
			if status != "confirmed" && threads > 0 {
				// every counterexample tried starts goroutines: which of them runs first is
				// the Go runtime's choice in a native run; the deterministic re-execution of
				// the recorded decisions by the engine is the replay (as in schedule mode)
				status = "confirmed"
				detail = fmt.Sprintf("goroutine-order dependent (%d goroutines): not reproduced under the Go runtime's own scheduling (%s); deterministic engine replay of the recorded decisions", threads, detail)
			}
			switch status {
			case "confirmed":
				r.Violations++
				nviol++
				fmt.Printf("VIOLATION property=%s replay=%s\n", prop, dir)
				fmt.Printf("  harness=%s kind=%s label=%s\n  %s\n  %s\n", h.Func, v.Kind, v.Label, v.Msg, detail)
				if len(v.Stack) > 0 {
					fmt.Printf("  at %s\n", strings.Join(firstN(v.Stack, 5), "\n     "))
				}
				exit = 1
			default:
				fmt.Printf("ENCODING-MISMATCH property=%s harness=%s label=%s: solver model does not reproduce natively (%s); replay=%s\n", prop, h.Func, v.Label, detail, dir)
				r.Errors = append(r.Errors, "encoding mismatch: "+v.Label+": "+detail)
				if exit == 0 {
					exit = 3
				}
			}
		}
		// translator validation: replay cover models natively
		if !*noValidate && len(st.CoverModels) > 0 && len(st.Violations) == 0 && !h.Opts.Schedule && !h.NoNative {
			okN, fails := validateCovers(prop, h, st.CoverModels, overlayFiles, pkg)
			r.Validated = okN
			r.ValidateFail = fails
			for _, f := range fails {
				fmt.Printf("ENCODING-MISMATCH property=%s harness=%s cover replay: %s\n", prop, h.Func, f)
				if exit == 0 {
					exit = 3
				}
			}
		}
	}
	extra := map[string]interface{}{
		"load_s":            loadS,
		"functions_encoded": topFuncs(funcsEncoded, P.modPath),
		"stubs_used":        stubsUsed,
		"harnesses":         reports,
		"solver":            *solver,
		"samples":           samples,
	}
	var errs []string
	if exit == 3 {
		errs = append(errs, "run inconclusive (see harness reports)")
	}
	writeEvidence(prop, *tier, seed, ps, extra, time.Since(t0), nviol, errs, reports)
	if exit == 0 {
		fmt.Printf("OK property=%s tier=%s harnesses=%d wall=%.1fs\n", prop, *tier, len(specs), time.Since(t0).Seconds())
	}
	os.Exit(exit)
}

func flagSet(fs *flag.FlagSet, name string) bool {
	set := false
	fs.Visit(func(f *flag.Flag) {
		if f.Name == name {
			set = true
		}
	})
	return set
}

func dedupe(ss []string, n int) []string {
	seen := map[string]bool{}
	var out []string
	for _, s := range ss {
		k := s
		if i := strings.Index(k, " decisions="); i > 0 {
			k = k[:i]
		}
		if !seen[k] {
			seen[k] = true
			out = append(out, s)
		}
		if len(out) >= n {
			break
		}
	}
	return out
}

func topFuncs(m map[string]int, mod string) []map[string]interface{} {
	type kv struct {
		k string
		v int
	}
	var l []kv
	for k, v := range m {
		if strings.Contains(k, mod) && !strings.Contains(k, "/internal/vnd") && !strings.Contains(k, ".Verif") && !strings.Contains(k, "/internal/vstub") {
			l = append(l, kv{k, v})
		}
	}
	sort.Slice(l, func(i, j int) bool { return l[i].v > l[j].v })
	var out []map[string]interface{}
	for _, x := range l {
		out = append(out, map[string]interface{}{"function": x.k, "instructions_executed": x.v})
	}
	return out
}

func requiredCovers(fn *ssa.Function) []string {
	if fn == nil {
		return nil
	}
	var out []string
	seen := map[string]bool{}
	var visit func(f *ssa.Function)
	visit = func(f *ssa.Function) {
		for _, b := range f.Blocks {
			for _, in := range b.Instrs {
				if c, ok := in.(*ssa.Call); ok {
					if callee := c.Call.StaticCallee(); callee != nil && callee.Name() == "Cover" && callee.Pkg != nil && strings.HasSuffix(callee.Pkg.Pkg.Path(), "internal/vnd") {
						if k, ok := c.Call.Args[0].(*ssa.Const); ok {
							s := strings.Trim(k.Value.ExactString(), "\"")
							if !seen[s] {
								seen[s] = true
								out = append(out, s)
							}
						}
					}
				}
			}
		}
		for _, a := range f.AnonFuncs {
			visit(a)
		}
	}
	visit(fn)
	return out
}

func writeEvidence(prop, tier string, seed int, ps PropSpec, extra map[string]interface{}, wall time.Duration, nviol int, errs []string, reports []*harnessReport) {
	states, trans, obl, validated, queries := 0, 0, 0, 0, 0
	var solverS float64
	for _, r := range reports {
		states += r.Completed
		trans += r.Steps
		obl += r.Obligations
		validated += r.Validated
		queries += r.Queries
		solverS += r.SolverS
	}
	cov := map[string]interface{}{
		"states":                        states,
		"transitions":                   trans,
		"traces_validated_against_impl": validated,
		"obligations":                   obl,
		"solver_queries":                queries,
		"solver_time_s":                 solverS,
		"bounds":                        ps.Bounds,
		"outside_the_claim":             ps.Outside,
		"explanation":                   "states = symbolic paths of the harnesses completed (each path stands for all inputs satisfying its path condition); transitions = SSA instructions symbolically executed; obligations = assertion instances discharged by the SMT solver (unsat of path-condition ∧ ¬assertion); traces_validated_against_impl = solver models of reachability witnesses replayed against the natively compiled code with agreeing outcome",
		"exhaustive":                    false,
	}
	for k, v := range extra {
		cov[k] = v
	}
	if _, ok := cov["samples"]; !ok || cov["samples"] == nil || len(cov["samples"].([]interface{})) == 0 {
		cov["samples"] = []interface{}{map[string]interface{}{"note": "no completed path sampled", "errors": errs}}
	}
	if states == 0 {
		cov["states"] = 0
	}
	level := ps.Level
	if level == "" {
		level = "model_checking"
	}
	ev := map[string]interface{}{
		"property_id": prop,
		"tier":        tier,
		"seed":        seed,
		"level":       level,
		"coverage":    cov,
		"assumptions": append(append([]string{}, ps.Assumptions...), "environment stubs per DESIGN.md §2.5", "bounded: see coverage.bounds"),
		"wall_s":      wall.Seconds(),
		"violations":  nviol,
	}
	if len(errs) > 0 {
		ev["errors"] = errs
	}
	evDir := filepath.Join(verifDir, "evidence")
	if os.Getenv("VERIF_REPO") != "" {
		// A trial against a scratch tree (tools/try_seed.sh) never rewrites the evidence of /repo.
		evDir = filepath.Join(os.Getenv("VERIF_REPO")+".verif", "evidence")
	}
	os.MkdirAll(evDir, 0o755)
	b, _ := json.MarshalIndent(ev, "", " ")
	os.WriteFile(filepath.Join(evDir, prop+".json"), b, 0o644)
}

// ---------------------------------------------------------------------------
// replay

type replayVector struct {
	Property  string            `json:"property"`
	Pkg       string            `json:"pkg"`
	Harness   string            `json:"harness"`
	Kind      string            `json:"kind"`
	Label     string            `json:"label"`
	Msg       string            `json:"msg"`
	Model     map[string]string `json:"model"`
	Decisions []int             `json:"decisions"`
	Stack     []string          `json:"stack"`
	Opts      ExecOpts          `json:"opts"`
	NoNative  bool              `json:"no_native"`
}

func harnessFuncs(pkg *ssa.Package) []string {
	var out []string
	for name, m := range pkg.Members {
		if f, ok := m.(*ssa.Function); ok && strings.HasPrefix(name, "Verif") && !strings.HasPrefix(name, "VerifStub_") && f.Signature.Params().Len() == 0 && f.Signature.Results().Len() == 0 {
			out = append(out, name)
		}
	}
	sort.Strings(out)
	return out
}

func writeReplayFiles(dir string, pkg *ssa.Package, pkgRel string, overlayFiles map[string]string) {
	os.MkdirAll(dir, 0o755)
	var sb strings.Builder
	fmt.Fprintf(&sb, "//go:build verif\n\npackage %s\n\nimport (\n\t\"bufio\"\n\t\"fmt\"\n\t\"os\"\n\t\"strings\"\n\t\"testing\"\n\n\t\"github.com/attestantio/vouch/internal/vnd\"\n)\n\n", pkg.Pkg.Name())
	sb.WriteString("var verifHarnesses = map[string]func(){\n")
	for _, h := range harnessFuncs(pkg) {
		fmt.Fprintf(&sb, "\t%q: %s,\n", h, h)
	}
	sb.WriteString("}\n\n")
	sb.WriteString(`// TestVerifReplay re-runs harnesses natively on recorded vectors.
// VND_BATCH names a file with lines "<harness> <vector.json>"; otherwise
// VND_HARNESS / VND_REPLAY name a single run.
func TestVerifReplay(t *testing.T) {
	run := func(h, vec string) (status string) {
		defer func() {
			if r := recover(); r != nil {
				status = fmt.Sprintf("PANIC %v", r)
			}
		}()
		os.Setenv("VND_REPLAY", vec)
		vnd.ResetAndLoad()
		verifHarnesses[h]()
		var cov []string
		for c := range vnd.Covered {
			cov = append(cov, c)
		}
		return "PASS covered=" + strings.Join(cov, ",")
	}
	if b := os.Getenv("VND_BATCH"); b != "" {
		f, err := os.Open(b)
		if err != nil {
			t.Fatal(err)
		}
		sc := bufio.NewScanner(f)
		i := 0
		for sc.Scan() {
			parts := strings.Fields(sc.Text())
			if len(parts) != 2 {
				continue
			}
			fmt.Printf("VND-RESULT %d %s\n", i, run(parts[0], parts[1]))
			i++
		}
		return
	}
	h := os.Getenv("VND_HARNESS")
	if verifHarnesses[h] == nil {
		t.Fatalf("unknown harness %q", h)
	}
	os.Setenv("VND_REPLAY", os.Getenv("VND_REPLAY"))
	vnd.ResetAndLoad()
	verifHarnesses[h]()
	fmt.Println("VND-RESULT 0 PASS")
}
`)
	testFile := filepath.Join(dir, "replay_test.go")
	os.WriteFile(testFile, []byte(sb.String()), 0o644)
	ov := map[string]map[string]string{"Replace": {}}
	for virt, real := range overlayFiles {
		ov["Replace"][virt] = real
	}
	ov["Replace"][filepath.Join(repoDir, pkgRel, "zz_verif_replay_test.go")] = testFile
	b, _ := json.MarshalIndent(ov, "", " ")
	os.WriteFile(filepath.Join(dir, "overlay.json"), b, 0o644)
}

func recordReplay(prop string, h HarnessSpec, v *Violation, overlayFiles map[string]string, pkg *ssa.Package) string {
	site := v.Label
	site = strings.Map(func(r rune) rune {
		if (r >= 'a' && r <= 'z') || (r >= 'A' && r <= 'Z') || (r >= '0' && r <= '9') || r == '.' || r == '-' || r == '_' {
			return r
		}
		return '_'
	}, site)
	dir := filepath.Join(verifDir, "replays", prop, h.Func+"-"+site)
	if d := os.Getenv("VERIF_REPO"); d != "" {
		// trials of seeded changes (tools/try_seed.sh) keep their replays with their scratch tree
		dir = filepath.Join(d+".verif", "replays", prop, h.Func+"-"+site)
	}
	for i := 1; ; i++ {
		if _, err := os.Stat(dir); err != nil {
			break
		}
		os.RemoveAll(dir)
	}
	writeReplayFiles(dir, pkg, h.Pkg, overlayFiles)
	vec := replayVector{Property: prop, Pkg: h.Pkg, Harness: h.Func, Kind: v.Kind, Label: v.Label, Msg: v.Msg, Model: v.Model, Decisions: v.Prefix, Stack: v.Stack, Opts: h.Opts, NoNative: h.NoNative}
	b, _ := json.MarshalIndent(vec, "", " ")
	os.WriteFile(filepath.Join(dir, "vector.json"), b, 0o644)
	script := fmt.Sprintf("#!/bin/sh\n# native replay of the counterexample against the real code\ncd %s && VND_HARNESS=%s VND_REPLAY=%s/vector.json GOFLAGS=-mod=mod GOPROXY=off GOSUMDB=off GOTOOLCHAIN=local timeout 300 go test -tags verif -vet=off -count=1 -overlay %s/overlay.json -run 'TestVerifReplay$' -v ./%s\n", repoDir, h.Func, dir, dir, h.Pkg)
	os.WriteFile(filepath.Join(dir, "replay.sh"), []byte(script), 0o755)
	return dir
}

func runNative(dir, pkgRel string, env []string) (string, error) {
	cmd := exec.Command("timeout", "600", "go", "test", "-tags", "verif", "-vet=off", "-count=1", "-overlay", filepath.Join(dir, "overlay.json"), "-run", "TestVerifReplay$", "-v", "./"+pkgRel)
	cmd.Dir = repoDir
	cmd.Env = append(os.Environ(), "GOFLAGS=-mod=mod", "GOPROXY=off", "GOSUMDB=off", "GOTOOLCHAIN=local")
	cmd.Env = append(cmd.Env, env...)
	out, err := cmd.CombinedOutput()
	return string(out), err
}

// confirmReplay runs the counterexample against the natively compiled code.
func confirmReplay(dir string, h HarnessSpec, v *Violation) (string, string) {
	if v.Kind == "deadlock" || v.Kind == "livelock" || v.Kind == "race" || h.Opts.Schedule || h.NoNative {
		// schedule-dependent: the Go runtime cannot be forced onto the recorded
		// interleaving; the replay is the deterministic re-execution of the
		// recorded decision sequence by the engine (vcheck <prop> --replay <dir>).
		return "confirmed", "schedule / virtual-time counterexample: deterministic engine replay of the recorded decisions (" + fmt.Sprint(len(v.Prefix)) + " decisions)"
	}
	out, _ := runNative(dir, h.Pkg, []string{"VND_HARNESS=" + h.Func, "VND_REPLAY=" + filepath.Join(dir, "vector.json")})
	os.WriteFile(filepath.Join(dir, "native_output.txt"), []byte(out), 0o644)
	switch v.Kind {
	case "assert":
		if strings.Contains(out, "VND-ASSERT-FAIL "+v.Label) {
			return "confirmed", "native replay fails the same assertion"
		}
		if strings.Contains(out, "VND-ASSERT-FAIL") {
			return "confirmed", "native replay fails an assertion of the same harness: " + grepLine(out, "VND-ASSERT-FAIL")
		}
		if strings.Contains(out, "panic:") && !strings.Contains(out, "VND-ASSUME-FAIL") {
			return "confirmed", "native replay panics: " + grepLine(out, "panic:")
		}
	case "panic":
		if strings.Contains(out, "panic:") && !strings.Contains(out, "VND-ASSUME-FAIL") && !strings.Contains(out, "VND-ASSERT-FAIL") {
			return "confirmed", "native replay panics: " + grepLine(out, "panic:")
		}
		if strings.Contains(out, "VND-ASSERT-FAIL") {
			return "confirmed", "native replay fails: " + grepLine(out, "VND-ASSERT-FAIL")
		}
	}
	if strings.Contains(out, "VND-ASSUME-FAIL") {
		return "mismatch", "native run violates a harness assumption"
	}
	if strings.Contains(out, "VND-RESULT 0 PASS") {
		return "mismatch", "native run passes"
	}
	return "mismatch", "native run inconclusive: " + clip(lastLines(out, 6), 600)
}

func grepLine(out, pat string) string {
	for _, l := range strings.Split(out, "\n") {
		if strings.Contains(l, pat) {
			return clip(strings.TrimSpace(l), 300)
		}
	}
	return ""
}

func lastLines(s string, n int) string {
	ls := strings.Split(strings.TrimSpace(s), "\n")
	if len(ls) > n {
		ls = ls[len(ls)-n:]
	}
	return strings.Join(ls, " | ")
}

// validateCovers replays each reachability-witness model natively and checks
// that the native run completes without assertion failure and reaches the
// same cover label (Serval-style validation of the encoder and stubs).
// coverLabel strips the witness number from a CoverModels key.
func coverLabel(k string) string {
	if i := strings.IndexByte(k, 0); i >= 0 {
		return k[:i]
	}
	return k
}

func validateCovers(prop string, h HarnessSpec, models map[string]map[string]string, overlayFiles map[string]string, pkg *ssa.Package) (int, []string) {
	dir := filepath.Join(os.TempDir(), fmt.Sprintf("vcheck-validate-%s-%s-%d", prop, h.Func, os.Getpid()))
	if os.Getenv("GOSYM_KEEP") == "" {
		defer os.RemoveAll(dir)
	}
	writeReplayFiles(dir, pkg, h.Pkg, overlayFiles)
	var labels []string
	for l := range models {
		labels = append(labels, l)
	}
	sort.Strings(labels)
	var batch strings.Builder
	for i, l := range labels {
		vec := replayVector{Property: prop, Pkg: h.Pkg, Harness: h.Func, Kind: "cover", Label: coverLabel(l), Model: models[l]}
		b, _ := json.Marshal(vec)
		p := filepath.Join(dir, fmt.Sprintf("cover%d.json", i))
		os.WriteFile(p, b, 0o644)
		fmt.Fprintf(&batch, "%s %s\n", h.Func, p)
	}
	bf := filepath.Join(dir, "batch.txt")
	os.WriteFile(bf, []byte(batch.String()), 0o644)
	out, _ := runNative(dir, h.Pkg, []string{"VND_BATCH=" + bf})
	okN := 0
	var fails []string
	for i, l := range labels {
		line := grepLine(out, fmt.Sprintf("VND-RESULT %d ", i))
		switch {
		case line == "":
			fails = append(fails, fmt.Sprintf("%s: no native result (%s)", l, clip(lastLines(out, 4), 400)))
		case strings.Contains(line, "PASS"):
			cov := ""
			if j := strings.Index(line, "covered="); j >= 0 {
				cov = line[j+8:]
			}
			found := false
			for _, c := range strings.Split(cov, ",") {
				if c == coverLabel(l) {
					found = true
				}
			}
			if found {
				okN++
			} else if models[l]["__uf"] == "1" {
				// the witness depends on the value of an uninterpreted function
				// (hash); the real function differs, so the cover is not replayable
			} else {
				fails = append(fails, fmt.Sprintf("%s: native run did not reach the cover (reached %s)", coverLabel(l), cov))
			}
		default:
			fails = append(fails, fmt.Sprintf("%s: native run: %s", coverLabel(l), line))
		}
	}
	return okN, fails
}

// replayRecorded re-runs a recorded counterexample: natively where possible,
// and by deterministic engine re-execution of the decision sequence.
func replayRecorded(dir string) int {
	b, err := os.ReadFile(filepath.Join(dir, "vector.json"))
	if err != nil {
		fmt.Println("cannot read vector:", err)
		return 2
	}
	var vec replayVector
	json.Unmarshal(b, &vec)
	P, _, _, err := LoadProgram(filepath.Join(verifDir, "harness"), []string{"./" + vec.Pkg})
	if err != nil {
		fmt.Println("load error:", err)
		return 2
	}
	pkg := P.pkgs[modJoin(P.modPath, vec.Pkg)]
	ctx := NewCtx()
	s, err := NewSolver(ctx, defaultSolver(), 30000)
	if err != nil {
		fmt.Println(err)
		return 2
	}
	defer s.Close()
	spec := HarnessSpec{Pkg: vec.Pkg, Func: vec.Harness, Opts: vec.Opts}
	spec.Opts.Trace = true
	res := runPath(P, pkg, pkg.Func(vec.Harness), spec, &worker{ctx: ctx, solver: s}, vec.Decisions)
	fmt.Printf("engine replay: outcome=%s %s\n", res.outcome, res.msg)
	if res.viol != nil {
		fmt.Printf("  %s %s: %s\n", res.viol.Kind, res.viol.Label, res.viol.Msg)
		for _, l := range res.viol.Stack {
			fmt.Println("    at", l)
		}
	}
	if !(vec.Kind == "deadlock" || vec.Kind == "livelock" || vec.Kind == "race" || vec.Opts.Schedule || vec.NoNative) {
		out, _ := runNative(dir, vec.Pkg, []string{"VND_HARNESS=" + vec.Harness, "VND_REPLAY=" + filepath.Join(dir, "vector.json")})
		fmt.Println("native replay output (tail):")
		fmt.Println(lastLines(out, 15))
	}
	if res.outcome == "violation" {
		fmt.Printf("VIOLATION property=%s replay=%s\n", vec.Property, dir)
		return 1
	}
	return 0
}

func defaultSolver() string {
	if s := os.Getenv("GOSYM_SOLVER"); s != "" {
		return s
	}
	if _, err := exec.LookPath("z3-new"); err == nil {
		return "z3-new"
	}
	return "z3"
}
