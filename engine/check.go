package main

func checkMain(args []string) {}
