package main

// Model of the global viper configuration as a flat, case-insensitive store
// of values placed there by the harness with viper.Set (keys are concrete).
// Getters mimic viper's (spf13/cast) coercions for the value kinds harnesses use.

import (
	"fmt"
	"go/types"
	"strings"

	"golang.org/x/tools/go/ssa"
)

func (e *Exec) viperGet(key Value) (IfaceV, bool) {
	k := strings.ToLower(e.goString(key, "viper key"))
	v, ok := e.viper[k]
	return v, ok
}

func init() {
	I := intrinsics
	const vp = "github.com/spf13/viper."
	I[vp+"Reset"] = func(e *Exec, th *Thread, fn *ssa.Function, a []Value) Value {
		e.viper = map[string]IfaceV{}
		return nil
	}
	I[vp+"Set"] = func(e *Exec, th *Thread, fn *ssa.Function, a []Value) Value {
		e.viper[strings.ToLower(e.goString(a[0], "viper key"))] = a[1].(IfaceV)
		return nil
	}
	I[vp+"Get"] = func(e *Exec, th *Thread, fn *ssa.Function, a []Value) Value {
		v, ok := e.viperGet(a[0])
		if !ok {
			return IfaceV{}
		}
		return v
	}
	I[vp+"IsSet"] = func(e *Exec, th *Thread, fn *ssa.Function, a []Value) Value {
		_, ok := e.viperGet(a[0])
		return e.ctx.Bool(ok)
	}
	I[vp+"GetString"] = func(e *Exec, th *Thread, fn *ssa.Function, a []Value) Value {
		v, ok := e.viperGet(a[0])
		if !ok {
			return ""
		}
		switch x := v.v.(type) {
		case string, *SymStr:
			return x
		case *Term:
			if x.sort.K == SBool {
				if x.IsConst() {
					return fmt.Sprint(x.IsTrue())
				}
				return &SymStr{parts: []interface{}{symPart{verb: "%t", t: x}}}
			}
			if x.IsConst() {
				if _, signed, _ := intWidth(v.t); signed {
					return fmt.Sprint(x.Int64())
				}
				return fmt.Sprint(x.Uint64())
			}
			return &SymStr{parts: []interface{}{symPart{verb: "%d", t: x}}}
		}
		return ""
	}
	getInt := func(e *Exec, th *Thread, fn *ssa.Function, a []Value) Value {
		v, ok := e.viperGet(a[0])
		w, _, _ := intWidth(fn.Signature.Results().At(0).Type())
		if !ok {
			return e.ctx.BVConst(w, 0)
		}
		if t, isT := v.v.(*Term); isT && t.sort.K == SBV {
			_, signed, _ := intWidth(v.t)
			if t.sort.W >= w {
				return e.ctx.Extract(w-1, 0, t)
			}
			if signed {
				return e.ctx.SExt(t, w)
			}
			return e.ctx.ZExt(t, w)
		}
		panic(pathAbort{"error", "viper integer getter on non-integer value"})
	}
	I[vp+"GetInt64"] = getInt
	I[vp+"GetInt"] = getInt
	I[vp+"GetUint64"] = getInt
	I[vp+"GetUint32"] = getInt
	I[vp+"GetDuration"] = getInt
	I[vp+"GetBool"] = func(e *Exec, th *Thread, fn *ssa.Function, a []Value) Value {
		v, ok := e.viperGet(a[0])
		if !ok {
			return e.ctx.False
		}
		if t, isT := v.v.(*Term); isT && t.sort.K == SBool {
			return t
		}
		panic(pathAbort{"error", "viper.GetBool on non-bool value"})
	}
	I[vp+"GetStringSlice"] = func(e *Exec, th *Thread, fn *ssa.Function, a []Value) Value {
		v, ok := e.viperGet(a[0])
		if !ok {
			return SliceV(nil)
		}
		if s, isS := v.v.(SliceV); isS {
			if _, isSlice := v.t.Underlying().(*types.Slice); isSlice {
				// as the real package (cast.ToStringSlice returns a []string as it is): the caller gets
				// the very slice that is stored, not a copy
				return s
			}
		}
		panic(pathAbort{"error", "viper.GetStringSlice on non-slice value"})
	}
}
