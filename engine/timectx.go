package main

// Virtual time (package time) and contexts (package context).

import (
	"fmt"
	"go/types"

	"golang.org/x/tools/go/ssa"
)

const nsPerSec = 1000000000

// time.Time is {wall uint64, ext int64, loc *Location}; we keep unix
// nanoseconds in ext (wall = 0, loc = nil). The zero Time is ext == 0.
// goTimer is the engine side of a time.Timer.
type goTimer struct {
	ch    *ChanV
	t     *timer
	fired bool
	f     Value // AfterFunc: the function to run
}

func (e *Exec) mkTime(ns *Term) Value {
	return StructV{e.intConst(64, 0), ns, (*Value)(nil)}
}

func timeNs(v Value) *Term {
	s := v.(StructV)
	return s[1].(*Term)
}

func (e *Exec) sentinel(pkg, name string) Value {
	p := e.P.prog.ImportedPackage(pkg)
	if p == nil {
		return e.newError(pkg+"."+name, nil)
	}
	g, ok := p.Members[name].(*ssa.Global)
	if !ok {
		return e.newError(pkg+"."+name, nil)
	}
	return *e.globalAddr(g)
}

type ctxKV struct{ k, v Value }

type CtxV struct {
	parent    *CtxV
	done      *ChanV
	err       Value
	deadline  *Term
	children  []*CtxV
	kv        *ctxKV
	cancelled bool
	tm        *timer
	id        int
}

func (e *Exec) ctxIface(c *CtxV) IfaceV {
	if e.ctxType == nil {
		p := e.P.prog.ImportedPackage("context")
		e.ctxType = types.NewPointer(p.Type("cancelCtx").Type())
	}
	return IfaceV{t: e.ctxType, v: c}
}

func (e *Exec) backgroundCtx() IfaceV {
	if e.bgCtx == nil {
		e.bgCtx = &CtxV{}
	}
	return e.ctxIface(e.bgCtx)
}

func (e *Exec) asCtx(v Value) *CtxV {
	iv, ok := v.(IfaceV)
	if ok {
		if c, ok := iv.v.(*CtxV); ok {
			return c
		}
		if iv.t == nil {
			panic(goPanic{msg: "cannot create context from nil parent"})
		}
	}
	panic(pathAbort{"error", fmt.Sprintf("context operation on foreign context implementation %T", v)})
}

func (e *Exec) newChildCtx(parent *CtxV) *CtxV {
	e.nmap++
	c := &CtxV{parent: parent, id: e.nmap}
	c.done = e.newChan(0)
	parent.children = append(parent.children, c)
	// inherit deadline
	c.deadline = parent.deadline
	if pc := parent.firstCancelled(); pc != nil {
		e.cancelCtx(nil, c, pc.err)
	}
	return c
}

func (c *CtxV) firstCancelled() *CtxV {
	for p := c; p != nil; p = p.parent {
		if p.cancelled {
			return p
		}
	}
	return nil
}

func (e *Exec) cancelCtx(th *Thread, c *CtxV, err Value) {
	if c.cancelled {
		return
	}
	c.cancelled = true
	c.err = err
	if c.done != nil && !c.done.closed {
		c.done.closed = true
		if e.race != nil && th != nil {
			e.race.release(e, th, &c.done.vc)
		}
	}
	if c.tm != nil {
		c.tm.cancelled = true
	}
	for _, ch := range c.children {
		e.cancelCtx(th, ch, err)
	}
}

func (c *CtxV) doneChan() *ChanV {
	for p := c; p != nil; p = p.parent {
		if p.done != nil {
			return p.done
		}
	}
	return nil
}

func (e *Exec) ctxMethod(th *Thread, c *CtxV, m string, a []Value) Value {
	switch m {
	case "Done":
		return c.doneChan()
	case "Err":
		if p := c.firstCancelled(); p != nil {
			return p.err
		}
		return IfaceV{}
	case "Deadline":
		if c.deadline != nil {
			return TupleV{e.mkTime(c.deadline), e.ctx.True}
		}
		return TupleV{e.mkTime(e.intConst(64, 0)), e.ctx.False}
	case "Value":
		for p := c; p != nil; p = p.parent {
			if p.kv != nil {
				if e.branch(e.eqVal(p.kv.k, a[0])) {
					return p.kv.v
				}
			}
		}
		return IfaceV{}
	}
	panic(pathAbort{"error", "context method " + m})
}

func (e *Exec) withDeadline(th *Thread, parent *CtxV, when *Term, d *Term) Value {
	c := e.newChildCtx(parent)
	cc := e.ctx
	// effective deadline is the earlier of parent's and ours
	if parent.deadline != nil {
		if e.branch(cc.SLt(parent.deadline, when)) {
			when = parent.deadline
			d = cc.Sub(when, e.now)
		}
	}
	c.deadline = when
	if !c.cancelled {
		c.tm = e.addTimer(d, fmt.Sprintf("context deadline #%d", c.id), func() {
			e.cancelCtx(nil, c, e.sentinel("context", "DeadlineExceeded"))
		})
	}
	cancel := &NativeFn{name: "cancel", f: func(th *Thread, _ []Value) Value {
		e.yieldPoint(th)
		e.cancelCtx(th, c, e.sentinel("context", "Canceled"))
		return nil
	}}
	return TupleV{e.ctxIface(c), cancel}
}

func registerTime() {
	I := intrinsics
	I["time.Now"] = func(e *Exec, th *Thread, fn *ssa.Function, a []Value) Value { return e.mkTime(e.now) }
	I["time.Since"] = func(e *Exec, th *Thread, fn *ssa.Function, a []Value) Value { return e.ctx.Sub(e.now, timeNs(a[0])) }
	I["time.Until"] = func(e *Exec, th *Thread, fn *ssa.Function, a []Value) Value { return e.ctx.Sub(timeNs(a[0]), e.now) }
	I["time.Unix"] = func(e *Exec, th *Thread, fn *ssa.Function, a []Value) Value {
		c := e.ctx
		sec, nsec := a[0].(*Term), a[1].(*Term)
		ns := c.Add(c.Mul(sec, e.intConst(64, nsPerSec)), nsec)
		if nsec.IsConst() && nsec.Int64() >= 0 && nsec.Int64() < nsPerSec {
			e.unixOrigin[ns] = sec
		}
		return e.mkTime(ns)
	}
	I["(time.Time).Add"] = func(e *Exec, th *Thread, fn *ssa.Function, a []Value) Value {
		return e.mkTime(e.ctx.Add(timeNs(a[0]), a[1].(*Term)))
	}
	I["(time.Time).Sub"] = func(e *Exec, th *Thread, fn *ssa.Function, a []Value) Value {
		return e.ctx.Sub(timeNs(a[0]), timeNs(a[1]))
	}
	I["(time.Time).After"] = func(e *Exec, th *Thread, fn *ssa.Function, a []Value) Value {
		return e.ctx.SLt(timeNs(a[1]), timeNs(a[0]))
	}
	I["(time.Time).Before"] = func(e *Exec, th *Thread, fn *ssa.Function, a []Value) Value {
		return e.ctx.SLt(timeNs(a[0]), timeNs(a[1]))
	}
	I["(time.Time).Equal"] = func(e *Exec, th *Thread, fn *ssa.Function, a []Value) Value {
		return e.ctx.Eq(timeNs(a[0]), timeNs(a[1]))
	}
	I["(time.Time).Compare"] = func(e *Exec, th *Thread, fn *ssa.Function, a []Value) Value {
		c := e.ctx
		x, y := timeNs(a[0]), timeNs(a[1])
		return c.Ite(c.SLt(x, y), e.intConst(64, -1), c.Ite(c.Eq(x, y), e.intConst(64, 0), e.intConst(64, 1)))
	}
	I["(time.Time).IsZero"] = func(e *Exec, th *Thread, fn *ssa.Function, a []Value) Value {
		return e.ctx.Eq(timeNs(a[0]), e.intConst(64, 0))
	}
	I["(time.Time).UnixNano"] = func(e *Exec, th *Thread, fn *ssa.Function, a []Value) Value { return timeNs(a[0]) }
	I["(time.Time).Unix"] = func(e *Exec, th *Thread, fn *ssa.Function, a []Value) Value {
		ns := timeNs(a[0])
		if s, ok := e.unixOrigin[ns]; ok {
			return s
		}
		e.timeDivs++
		return e.ctx.SDiv(ns, e.intConst(64, nsPerSec))
	}
	I["(time.Time).UnixMilli"] = func(e *Exec, th *Thread, fn *ssa.Function, a []Value) Value {
		return e.ctx.SDiv(timeNs(a[0]), e.intConst(64, 1000000))
	}
	I["(time.Time).String"] = func(e *Exec, th *Thread, fn *ssa.Function, a []Value) Value {
		return &SymStr{parts: []interface{}{"time(", symPart{verb: "%d", t: timeNs(a[0])}, ")"}}
	}
	I["(time.Time).Format"] = I["(time.Time).String"]
	I["(time.Time).UTC"] = func(e *Exec, th *Thread, fn *ssa.Function, a []Value) Value { return a[0] }
	I["(time.Time).Round"] = func(e *Exec, th *Thread, fn *ssa.Function, a []Value) Value { return a[0] }
	I["(time.Duration).Seconds"] = func(e *Exec, th *Thread, fn *ssa.Function, a []Value) Value {
		c := e.ctx
		d := a[0].(*Term)
		// Go: sec := d / Second; nsec := d % Second; return float64(sec) + float64(nsec)/1e9
		if d.IsConst() {
			v := d.Int64()
			return e.fpConst(float64(v/nsPerSec) + float64(v%nsPerSec)/1e9)
		}
		if e.intMode {
			// mathematical integers: the division by 10^9 is linear arithmetic
			if e.feasible(c.intCmp("lt", d, e.intConst(64, 0))) != Unsat {
				panic(pathAbort{"bound", "relaxed float64: Duration.Seconds of a possibly negative duration"})
			}
			sec := c.intBin("div", d, e.intConst(64, nsPerSec))
			nsec := c.intBin("mod", d, e.intConst(64, nsPerSec))
			return e.fpBin("fp.add", e.fpFromInt(sec, true), e.fpBin("fp.div", e.fpFromInt(nsec, true), e.fpConst(1e9)))
		}
		// d built as sec*1e9 + nsec with 0 <= nsec < 1e9 (harness cut: keeps the
		// 64-bit division by 10^9 away from the bit-blaster, DESIGN §2.9)
		if d.op == "bvadd" && d.args[0].op == "bvmul" && d.args[0].args[1].IsConst() && d.args[0].args[1].c.Int64() == nsPerSec {
			sec, nsec := d.args[0].args[0], d.args[1]
			inRange := c.AndN(c.SLe(e.intConst(64, 0), nsec), c.SLt(nsec, e.intConst(64, nsPerSec)), c.SLe(e.intConst(64, 0), sec), c.SLt(sec, e.intConst(64, 1<<33)))
			if e.feasible(c.Not(inRange)) == Unsat {
				return c.FPBin("fp.add", c.FPFromBV(sec, true), c.FPBin("fp.div", c.FPFromBV(nsec, true), c.FPConst(1e9)))
			}
		}
		sec := c.SDiv(d, e.intConst(64, nsPerSec))
		nsec := c.SRem(d, e.intConst(64, nsPerSec))
		return c.FPBin("fp.add", c.FPFromBV(sec, true), c.FPBin("fp.div", c.FPFromBV(nsec, true), c.FPConst(1e9)))
	}
	I["(time.Duration).Milliseconds"] = func(e *Exec, th *Thread, fn *ssa.Function, a []Value) Value {
		return e.ctx.SDiv(a[0].(*Term), e.intConst(64, 1000000))
	}
	I["(time.Duration).Nanoseconds"] = func(e *Exec, th *Thread, fn *ssa.Function, a []Value) Value { return a[0] }
	I["(time.Duration).String"] = func(e *Exec, th *Thread, fn *ssa.Function, a []Value) Value {
		return &SymStr{parts: []interface{}{symPart{verb: "%dns", t: a[0].(*Term)}}}
	}
	I["time.Sleep"] = func(e *Exec, th *Thread, fn *ssa.Function, a []Value) Value {
		e.sleep(th, a[0].(*Term))
		return nil
	}
	I["time.After"] = func(e *Exec, th *Thread, fn *ssa.Function, a []Value) Value {
		ch := e.newChan(1)
		e.addTimer(a[0].(*Term), fmt.Sprintf("time.After #%d", ch.id), func() {
			if len(ch.buf) < ch.cap {
				ch.buf = append(ch.buf, e.mkTime(e.now))
			}
		})
		return ch
	}

	// time.Timer: the struct's C field is a 1-buffered channel fed by a virtual timer; the engine
	// keeps the timer state next to the struct cell (a Timer is only ever handled by pointer)
	newGoTimer := func(e *Exec, fn *ssa.Function, d *Term) (*Value, *goTimer) {
		st := fn.Signature.Results().At(0).Type().(*types.Pointer).Elem()
		var cell Value = e.zero(st)
		ch := e.newChan(1)
		cell.(StructV)[0] = ch
		gt := &goTimer{ch: ch}
		p := &cell
		if e.goTimers == nil {
			e.goTimers = map[*Value]*goTimer{}
		}
		e.goTimers[p] = gt
		return p, gt
	}
	arm := func(e *Exec, gt *goTimer, d *Term) {
		gt.fired = false
		gt.t = e.addTimer(d, fmt.Sprintf("time.Timer #%d", gt.ch.id), func() {
			gt.fired = true
			if gt.f != nil {
				e.newThread(gt.f, nil, "time.AfterFunc")
				return
			}
			if len(gt.ch.buf) < gt.ch.cap {
				gt.ch.buf = append(gt.ch.buf, e.mkTime(e.now))
			}
		})
	}
	I["time.NewTimer"] = func(e *Exec, th *Thread, fn *ssa.Function, a []Value) Value {
		p, gt := newGoTimer(e, fn, a[0].(*Term))
		arm(e, gt, a[0].(*Term))
		return p
	}
	I["time.AfterFunc"] = func(e *Exec, th *Thread, fn *ssa.Function, a []Value) Value {
		p, gt := newGoTimer(e, fn, a[0].(*Term))
		gt.f = a[1]
		arm(e, gt, a[0].(*Term))
		return p
	}
	timerOf := func(e *Exec, v Value) *goTimer {
		p, _ := v.(*Value)
		gt := e.goTimers[p]
		if p == nil || gt == nil {
			panic(goPanic{msg: "invalid memory address or nil pointer dereference (time.Timer not created by NewTimer or AfterFunc)"})
		}
		return gt
	}
	I["(*time.Timer).Stop"] = func(e *Exec, th *Thread, fn *ssa.Function, a []Value) Value {
		gt := timerOf(e, a[0])
		active := !gt.fired && !gt.t.cancelled
		gt.t.cancelled = true
		return e.ctx.Bool(active)
	}
	I["(*time.Timer).Reset"] = func(e *Exec, th *Thread, fn *ssa.Function, a []Value) Value {
		gt := timerOf(e, a[0])
		active := !gt.fired && !gt.t.cancelled
		gt.t.cancelled = true
		arm(e, gt, a[1].(*Term))
		return e.ctx.Bool(active)
	}

	// ---- context ----
	I["context.Background"] = func(e *Exec, th *Thread, fn *ssa.Function, a []Value) Value { return e.backgroundCtx() }
	I["context.TODO"] = I["context.Background"]
	I["context.WithCancel"] = func(e *Exec, th *Thread, fn *ssa.Function, a []Value) Value {
		c := e.newChildCtx(e.asCtx(a[0]))
		cancel := &NativeFn{name: "cancel", f: func(th *Thread, _ []Value) Value {
			e.yieldPoint(th)
			e.cancelCtx(th, c, e.sentinel("context", "Canceled"))
			return nil
		}}
		return TupleV{e.ctxIface(c), cancel}
	}
	I["context.WithTimeout"] = func(e *Exec, th *Thread, fn *ssa.Function, a []Value) Value {
		d := a[1].(*Term)
		return e.withDeadline(th, e.asCtx(a[0]), e.ctx.Add(e.now, d), d)
	}
	I["context.WithDeadline"] = func(e *Exec, th *Thread, fn *ssa.Function, a []Value) Value {
		when := timeNs(a[1])
		return e.withDeadline(th, e.asCtx(a[0]), when, e.ctx.Sub(when, e.now))
	}
	I["context.WithValue"] = func(e *Exec, th *Thread, fn *ssa.Function, a []Value) Value {
		p := e.asCtx(a[0])
		e.nmap++
		c := &CtxV{parent: p, id: e.nmap, kv: &ctxKV{a[1], a[2]}, deadline: p.deadline}
		p.children = append(p.children, c)
		return e.ctxIface(c)
	}
	I["context.Cause"] = func(e *Exec, th *Thread, fn *ssa.Function, a []Value) Value {
		return e.ctxMethod(th, e.asCtx(a[0]), "Err", nil)
	}
}

func (e *Exec) sleep(th *Thread, d *Term) {
	if th.sleepDone {
		th.sleepDone = false
		return
	}
	if th.sleeping {
		e.block(th, "sleep", func() bool { return th.sleepDone })
	}
	e.yieldPoint(th)
	th.sleeping = true
	e.addTimer(d, fmt.Sprintf("sleep of goroutine %d", th.id), func() {
		th.sleeping = false
		th.sleepDone = true
	})
	e.block(th, "sleep", func() bool { return th.sleepDone })
}

func registerSync() {
	I := intrinsics
	ptr := func(v Value) *Value {
		p, _ := v.(*Value)
		return p
	}
	for _, pre := range []string{"(*sync.Mutex)", "(*github.com/sasha-s/go-deadlock.Mutex)"} {
		I[pre+".Lock"] = func(e *Exec, th *Thread, fn *ssa.Function, a []Value) Value { e.mutexLock(th, ptr(a[0])); return nil }
		I[pre+".Unlock"] = func(e *Exec, th *Thread, fn *ssa.Function, a []Value) Value { e.mutexUnlock(th, ptr(a[0])); return nil }
		I[pre+".TryLock"] = func(e *Exec, th *Thread, fn *ssa.Function, a []Value) Value {
			return e.ctx.Bool(e.mutexTryLock(th, ptr(a[0])))
		}
	}
	for _, pre := range []string{"(*sync.RWMutex)", "(*github.com/sasha-s/go-deadlock.RWMutex)"} {
		I[pre+".Lock"] = func(e *Exec, th *Thread, fn *ssa.Function, a []Value) Value { e.mutexLock(th, ptr(a[0])); return nil }
		I[pre+".Unlock"] = func(e *Exec, th *Thread, fn *ssa.Function, a []Value) Value { e.mutexUnlock(th, ptr(a[0])); return nil }
		I[pre+".RLock"] = func(e *Exec, th *Thread, fn *ssa.Function, a []Value) Value { e.rwRLock(th, ptr(a[0])); return nil }
		I[pre+".RUnlock"] = func(e *Exec, th *Thread, fn *ssa.Function, a []Value) Value { e.rwRUnlock(th, ptr(a[0])); return nil }
		I[pre+".TryLock"] = func(e *Exec, th *Thread, fn *ssa.Function, a []Value) Value {
			return e.ctx.Bool(e.mutexTryLock(th, ptr(a[0])))
		}
	}
	I["sync.NewCond"] = func(e *Exec, th *Thread, fn *ssa.Function, a []Value) Value {
		// Cond{noCopy, L Locker, notify, checker}: keep L in field 1
		var cell Value = StructV{nil, a[0], nil, nil}
		return &cell
	}
	condLock := func(e *Exec, p *Value) *Value {
		l := (*p).(StructV)[1].(IfaceV)
		lp, ok := l.v.(*Value)
		if !ok {
			panic(pathAbort{"error", "sync.Cond with unsupported Locker"})
		}
		return lp
	}
	I["(*sync.Cond).Wait"] = func(e *Exec, th *Thread, fn *ssa.Function, a []Value) Value {
		p := ptr(a[0])
		e.condWait(th, p, condLock(e, p))
		return nil
	}
	I["(*sync.Cond).Signal"] = func(e *Exec, th *Thread, fn *ssa.Function, a []Value) Value {
		e.condSignal(th, ptr(a[0]), false)
		return nil
	}
	I["(*sync.Cond).Broadcast"] = func(e *Exec, th *Thread, fn *ssa.Function, a []Value) Value {
		e.condSignal(th, ptr(a[0]), true)
		return nil
	}
	I["(*sync.WaitGroup).Add"] = func(e *Exec, th *Thread, fn *ssa.Function, a []Value) Value {
		e.wgAdd(th, ptr(a[0]), e.concreteInt(a[1], "WaitGroup.Add"))
		return nil
	}
	I["(*sync.WaitGroup).Done"] = func(e *Exec, th *Thread, fn *ssa.Function, a []Value) Value {
		e.wgAdd(th, ptr(a[0]), -1)
		return nil
	}
	I["(*sync.WaitGroup).Wait"] = func(e *Exec, th *Thread, fn *ssa.Function, a []Value) Value {
		e.wgWait(th, ptr(a[0]))
		return nil
	}
	I["(*sync.Once).Do"] = func(e *Exec, th *Thread, fn *ssa.Function, a []Value) Value {
		p := ptr(a[0])
		if !e.onces[p] {
			e.onces[p] = true
			e.callSync(th, a[1], nil)
		}
		return nil
	}
	// atomics: sequentially consistent, act as synchronisation
	for _, ty := range []string{"Int32", "Int64", "Uint32", "Uint64", "Uintptr", "Pointer"} {
		I["sync/atomic.Load"+ty] = func(e *Exec, th *Thread, fn *ssa.Function, a []Value) Value {
			e.yieldPoint(th)
			p := ptr(a[0])
			if p == nil {
				panic(goPanic{msg: "nil pointer dereference (atomic load)"})
			}
			e.atomicSync(th, p)
			return copyVal(*p)
		}
		I["sync/atomic.Store"+ty] = func(e *Exec, th *Thread, fn *ssa.Function, a []Value) Value {
			e.yieldPoint(th)
			p := ptr(a[0])
			if p == nil {
				panic(goPanic{msg: "nil pointer dereference (atomic store)"})
			}
			e.atomicSync(th, p)
			*p = a[1]
			return nil
		}
		I["sync/atomic.Add"+ty] = func(e *Exec, th *Thread, fn *ssa.Function, a []Value) Value {
			e.yieldPoint(th)
			p := ptr(a[0])
			e.atomicSync(th, p)
			*p = e.ctx.Add((*p).(*Term), a[1].(*Term))
			return *p
		}
		I["sync/atomic.Swap"+ty] = func(e *Exec, th *Thread, fn *ssa.Function, a []Value) Value {
			e.yieldPoint(th)
			p := ptr(a[0])
			e.atomicSync(th, p)
			old := *p
			*p = a[1]
			return old
		}
		I["sync/atomic.CompareAndSwap"+ty] = func(e *Exec, th *Thread, fn *ssa.Function, a []Value) Value {
			e.yieldPoint(th)
			p := ptr(a[0])
			e.atomicSync(th, p)
			if e.branch(e.eqVal(*p, a[1])) {
				*p = a[2]
				return e.ctx.True
			}
			return e.ctx.False
		}
	}
}

func (e *Exec) atomicSync(th *Thread, p *Value) {
	if e.race == nil {
		return
	}
	vc := e.atomVC[p]
	e.race.acquire(e, th, vc)
	e.race.release(e, th, &vc)
	e.atomVC[p] = vc
}
