package main

// Persistent SMT solver process driver. All term definitions are emitted at
// level 0 (define-fun / declare-const); queries use check-sat-assuming so no
// push/pop/reset is ever needed and one process serves all paths of a worker.

import (
	"bufio"
	"fmt"
	"io"
	"math"
	"math/big"
	"os"
	"os/exec"
	"strings"
	"time"
)

func f64bits(f float64) uint64     { return math.Float64bits(f) }
func f64frombits(b uint64) float64 { return math.Float64frombits(b) }

type Verdict int

const (
	Unsat Verdict = iota
	Sat
	Unknown
)

func (v Verdict) String() string { return [...]string{"unsat", "sat", "unknown"}[v] }

type SolverStats struct {
	Queries  int
	Sat      int
	Unsat    int
	Unknown  int
	Errors   int
	Retries  int
	Time     time.Duration
	MaxQuery time.Duration
}

type Solver struct {
	ctx      *Ctx
	cmd      *exec.Cmd
	in       io.WriteCloser
	out      *bufio.Reader
	emitted  []bool
	ufDone   map[string]bool
	Stats    SolverStats
	bin      string
	args     []string
	timeout  int // ms
	log      io.Writer
	lastErr  string
	nqueries int
	noRetry  bool
}

func NewSolver(ctx *Ctx, bin string, timeoutMs int) (*Solver, error) {
	s := &Solver{ctx: ctx, bin: bin, timeout: timeoutMs, ufDone: map[string]bool{}}
	switch {
	case strings.Contains(bin, "cvc5"):
		s.args = []string{"--incremental", "--lang=smt2", "--produce-models", fmt.Sprintf("--tlimit-per=%d", timeoutMs)}
	default:
		s.args = []string{"-in"}
	}
	if err := s.start(); err != nil {
		return nil, err
	}
	return s, nil
}

func (s *Solver) start() error {
	s.cmd = exec.Command(s.bin, s.args...)
	var err error
	s.in, err = s.cmd.StdinPipe()
	if err != nil {
		return err
	}
	o, err := s.cmd.StdoutPipe()
	if err != nil {
		return err
	}
	s.cmd.Stderr = s.cmd.Stdout
	s.out = bufio.NewReaderSize(o, 1<<20)
	if err := s.cmd.Start(); err != nil {
		return err
	}
	s.emitted = nil
	s.ufDone = map[string]bool{}
	if !strings.Contains(s.bin, "cvc5") {
		s.send("(set-option :produce-models true)")
		s.send(fmt.Sprintf("(set-option :timeout %d)", s.timeout))
	} else {
		s.send("(set-logic ALL)")
	}
	return nil
}

func (s *Solver) Close() {
	if s.cmd != nil {
		s.in.Close()
		s.cmd.Process.Kill()
		s.cmd.Wait()
		s.cmd = nil
	}
}

func (s *Solver) send(line string) {
	if s.log != nil {
		fmt.Fprintln(s.log, line)
	}
	io.WriteString(s.in, line)
	io.WriteString(s.in, "\n")
}

// emit makes sure t and everything below it is defined in the solver.
func (s *Solver) emit(t *Term) {
	if t.id < len(s.emitted) && s.emitted[t.id] {
		return
	}
	for len(s.emitted) <= t.id {
		s.emitted = append(s.emitted, false)
	}
	// iterative post-order to avoid deep recursion
	type fr struct {
		t *Term
		i int
	}
	stack := []fr{{t, 0}}
	for len(stack) > 0 {
		top := &stack[len(stack)-1]
		if top.t.id < len(s.emitted) && s.emitted[top.t.id] {
			stack = stack[:len(stack)-1]
			continue
		}
		if top.i < len(top.t.args) {
			a := top.t.args[top.i]
			top.i++
			for len(s.emitted) <= a.id {
				s.emitted = append(s.emitted, false)
			}
			if !s.emitted[a.id] {
				stack = append(stack, fr{a, 0})
			}
			continue
		}
		tt := top.t
		if tt.op == "app" && !s.ufDone[tt.name] {
			d := s.ctx.ufs[tt.name]
			as := make([]string, len(d.args))
			for i, a := range d.args {
				as[i] = a.String()
			}
			s.send(fmt.Sprintf("(declare-fun uf_%s (%s) %s)", smtName(d.name), strings.Join(as, " "), d.res))
			s.ufDone[tt.name] = true
		}
		if d := tt.def(); d != "" {
			s.send(d)
		}
		for len(s.emitted) <= tt.id {
			s.emitted = append(s.emitted, false)
		}
		s.emitted[tt.id] = true
		stack = stack[:len(stack)-1]
	}
}

func (s *Solver) readLine() (string, error) {
	l, err := s.out.ReadString('\n')
	return strings.TrimSpace(l), err
}

// Check decides satisfiability of the conjunction of lits. An inconclusive
// answer is retried in a fresh solver process (no accumulated state) with four
// times the time limit, and after that with the other z3 build, so that a
// verdict does not depend on what this process happened to solve before.
func (s *Solver) Check(lits []*Term) Verdict {
	v := s.checkOnce(lits)
	if v != Unknown || s.noRetry || os.Getenv("GOSYM_NORETRY") != "" {
		return v
	}
	tries := []struct {
		bin string
		ms  int
	}{{s.bin, s.timeout * 4}}
	if alt := altSolver(s.bin); alt != "" {
		tries = append(tries, struct {
			bin string
			ms  int
		}{alt, s.timeout * 4})
	}
	for _, t := range tries {
		f, err := NewSolver(s.ctx, t.bin, t.ms)
		if err != nil {
			continue
		}
		f.noRetry = true
		f.log = s.log
		v = f.checkOnce(lits)
		s.Stats.Retries++
		s.Stats.Time += f.Stats.Time
		if f.Stats.MaxQuery > s.Stats.MaxQuery {
			s.Stats.MaxQuery = f.Stats.MaxQuery
		}
		if v == Unknown {
			f.Close()
			continue
		}
		// adopt the fresh process so that a model can be read from it
		s.Stats.Unknown--
		if v == Sat {
			s.Stats.Sat++
		} else {
			s.Stats.Unsat++
		}
		s.Close()
		s.cmd, s.in, s.out, s.emitted, s.ufDone, s.bin, s.args = f.cmd, f.in, f.out, f.emitted, f.ufDone, f.bin, f.args
		if !strings.Contains(s.bin, "cvc5") && v == Unsat {
			s.send(fmt.Sprintf("(set-option :timeout %d)", s.timeout))
		}
		return v
	}
	return Unknown
}

func altSolver(bin string) string {
	switch {
	case strings.HasSuffix(bin, "z3-new"):
		return "z3"
	case strings.HasSuffix(bin, "z3"):
		return "z3-new"
	}
	return ""
}

func (s *Solver) checkOnce(lits []*Term) Verdict {
	var names []string
	for _, l := range lits {
		if l.IsTrue() {
			continue
		}
		if l.IsFalse() {
			return Unsat
		}
		s.emit(l)
		if l.op == "not" {
			// (not tN) is a literal only if the argument is a symbol; consts were folded
			names = append(names, "(not "+l.args[0].ref()+")")
		} else {
			names = append(names, l.ref())
		}
	}
	t0 := time.Now()
	s.nqueries++
	s.send("(check-sat-assuming (" + strings.Join(names, " ") + "))")
	v := Unknown
	for {
		l, err := s.readLine()
		if err != nil {
			s.lastErr = "solver died: " + err.Error()
			s.Stats.Errors++
			s.restart()
			break
		}
		if l == "" {
			continue
		}
		if l == "sat" {
			v = Sat
			break
		}
		if l == "unsat" {
			v = Unsat
			break
		}
		if l == "unknown" || l == "timeout" {
			v = Unknown
			break
		}
		if strings.HasPrefix(l, "(error") {
			s.lastErr = l
			s.Stats.Errors++
			// an error line precedes the verdict or replaces it; treat as inconclusive
			// and resynchronise via echo.
			s.sync()
			v = Unknown
			break
		}
		// other noise (warnings): ignore
	}
	d := time.Since(t0)
	s.Stats.Queries++
	s.Stats.Time += d
	if d > s.Stats.MaxQuery {
		s.Stats.MaxQuery = d
	}
	switch v {
	case Sat:
		s.Stats.Sat++
	case Unsat:
		s.Stats.Unsat++
	default:
		s.Stats.Unknown++
	}
	return v
}

func (s *Solver) restart() {
	s.Close()
	s.start()
}

func (s *Solver) sync() {
	s.send("(echo \"SYNC-MARK\")")
	for {
		l, err := s.readLine()
		if err != nil || strings.Contains(l, "SYNC-MARK") {
			return
		}
	}
}

// Model returns values of the given variables after a Sat verdict.
func (s *Solver) Model(vars []*Term) map[*Term]*big.Int {
	res := map[*Term]*big.Int{}
	var bvVars []*Term
	for _, v := range vars {
		if v.id < len(s.emitted) && s.emitted[v.id] && v.sort.K != SFP && v.sort.K != SReal {
			bvVars = append(bvVars, v)
		}
	}
	for start := 0; start < len(bvVars); start += 200 {
		end := start + 200
		if end > len(bvVars) {
			end = len(bvVars)
		}
		chunk := bvVars[start:end]
		names := make([]string, len(chunk))
		for i, v := range chunk {
			names[i] = v.ref()
		}
		s.send("(get-value (" + strings.Join(names, " ") + "))")
		// read until parens balance
		var sb strings.Builder
		depth := 0
		started := false
		for {
			l, err := s.readLine()
			if err != nil {
				return res
			}
			if strings.HasPrefix(l, "(error") {
				s.lastErr = l
				return res
			}
			sb.WriteString(l)
			sb.WriteString(" ")
			for _, ch := range l {
				if ch == '(' {
					depth++
					started = true
				} else if ch == ')' {
					depth--
				}
			}
			if started && depth == 0 {
				break
			}
		}
		toks := tokenize(sb.String())
		// pattern: ( ( name value ) ( name value ) ... ) where value may be a token or (- n) or (_ bvN w)
		byName := map[string]*Term{}
		for _, v := range chunk {
			byName[v.ref()] = v
		}
		i := 1
		for i < len(toks)-1 {
			if toks[i] != "(" {
				i++
				continue
			}
			name := toks[i+1]
			j := i + 2
			var val *big.Int
			if toks[j] == "(" {
				// (- n) or (_ bvN w)
				if toks[j+1] == "-" {
					val, _ = new(big.Int).SetString(toks[j+2], 10)
					if val != nil {
						val.Neg(val)
					}
				} else if toks[j+1] == "_" && strings.HasPrefix(toks[j+2], "bv") {
					val, _ = new(big.Int).SetString(toks[j+2][2:], 10)
				}
				for toks[j] != ")" {
					j++
				}
				j++
			} else {
				val = parseVal(toks[j])
				j++
			}
			if v, ok := byName[name]; ok && val != nil {
				res[v] = val
			}
			for j < len(toks) && toks[j] != ")" {
				j++
			}
			i = j + 1
		}
	}
	return res
}

func parseVal(tok string) *big.Int {
	switch {
	case tok == "true":
		return big.NewInt(1)
	case tok == "false":
		return big.NewInt(0)
	case strings.HasPrefix(tok, "#x"):
		v, _ := new(big.Int).SetString(tok[2:], 16)
		return v
	case strings.HasPrefix(tok, "#b"):
		v, _ := new(big.Int).SetString(tok[2:], 2)
		return v
	default:
		v, ok := new(big.Int).SetString(tok, 10)
		if ok {
			return v
		}
	}
	return nil
}

func tokenize(s string) []string {
	var toks []string
	cur := ""
	for _, ch := range s {
		switch ch {
		case '(', ')':
			if cur != "" {
				toks = append(toks, cur)
				cur = ""
			}
			toks = append(toks, string(ch))
		case ' ', '\t', '\n':
			if cur != "" {
				toks = append(toks, cur)
				cur = ""
			}
		default:
			cur += string(ch)
		}
	}
	if cur != "" {
		toks = append(toks, cur)
	}
	return toks
}
