package main

// The vnd ("verif nondet") API as seen by the symbolic executor.

import (
	"fmt"
	"go/types"
	"math/big"
	"strings"

	"golang.org/x/tools/go/ssa"
)

func (e *Exec) vndName(base string) string {
	n := e.vndCount[base]
	e.vndCount[base] = n + 1
	return fmt.Sprintf("%s#%d", base, n)
}

func (e *Exec) vndVar(base string, s Sort) *Term {
	name := e.vndName(base)
	v := e.ctx.Var(name, s)
	if _, ok := e.vndVars[name]; !ok {
		e.vndVars[name] = v
		e.vndOrder = append(e.vndOrder, name)
	}
	return v
}

func (e *Exec) vndInt(base string, w int, signed bool) *Term {
	if e.intMode {
		v := e.vndVar(base, IntSort)
		lo, hi := e.intBounds(w, signed)
		e.assume(e.ctx.intCmp("le", lo, v))
		e.assume(e.ctx.intCmp("le", v, hi))
		return v
	}
	return e.vndVar(base, BV(w))
}

// vndBytes: n bytes of which the first four and the last are symbolic and the
// rest zero (hash-like values are only compared and copied by the code under
// test; the bound is stated in the evidence).
func (e *Exec) vndBytes(base string, n int) ArrayV {
	out := make(ArrayV, n)
	name := e.vndName(base)
	for i := 0; i < n; i++ {
		if i >= 4 && i != n-1 && !e.opts.FullBytes {
			out[i] = e.ctx.BVConst(8, 0)
			continue
		}
		bn := fmt.Sprintf("%s[%d]", name, i)
		v := e.ctx.Var(bn, BV(8))
		if _, ok := e.vndVars[bn]; !ok {
			e.vndVars[bn] = v
			e.vndOrder = append(e.vndOrder, bn)
		}
		out[i] = v
	}
	return out
}

func (e *Exec) vndCall(th *Thread, fn *ssa.Function, a []Value) Value {
	c := e.ctx
	str := func(i int) string { return e.goString(a[i], "vnd name") }
	switch fn.Name() {
	case "Bool":
		return e.vndVar(str(0), BoolSort)
	case "LogLevel":
		v := e.vndVar("vnd.trace-logging", BoolSort)
		e.assume(c.Eq(v, c.Bool(e.opts.LogEnabled)))
		if e.opts.LogEnabled {
			return e.intConst(8, -1) // zerolog.TraceLevel
		}
		return e.intConst(8, 7) // zerolog.Disabled
	case "Delay":
		return a[0]
	case "TraceLogging":
		// a named value fixed by the harness options: it travels in the model, so the native
		// replay builds its services with the same log level
		v := e.vndVar("vnd.trace-logging", BoolSort)
		e.assume(c.Eq(v, c.Bool(e.opts.LogEnabled)))
		return c.Bool(e.opts.LogEnabled)
	case "U8":
		return e.vndInt(str(0), 8, false)
	case "U16":
		return e.vndInt(str(0), 16, false)
	case "U32":
		return e.vndInt(str(0), 32, false)
	case "U64":
		return e.vndInt(str(0), 64, false)
	case "I64", "Int":
		return e.vndInt(str(0), 64, true)
	case "SmallU64":
		bits := e.concreteInt(a[1], "SmallU64 bits")
		x := e.vndInt(str(0), 64, false)
		e.assume(c.ULt(x, c.Const(BV(64), new(big.Int).Lsh(one, uint(bits)))))
		return x
	case "F64":
		return e.vndVar(str(0), FPSort)
	case "IntRange", "Choose":
		var lo, hi int
		if fn.Name() == "Choose" {
			lo, hi = 0, e.concreteInt(a[1], "Choose n")-1
		} else {
			lo, hi = e.concreteInt(a[1], "IntRange lo"), e.concreteInt(a[2], "IntRange hi")
		}
		if hi < lo {
			panic(pathAbort{"infeasible", "empty IntRange"})
		}
		v := e.vndInt(str(0), 64, true)
		alts := make([]*Term, hi-lo+1)
		for i := range alts {
			alts[i] = c.Eq(v, e.intConst(64, int64(lo+i)))
		}
		// assume membership first so alternatives are exhaustive
		e.assume(c.And(e.leq(e.intConst(64, int64(lo)), v), e.leq(v, e.intConst(64, int64(hi)))))
		i := e.choose("vnd."+fn.Name(), alts)
		return e.intConst(64, int64(lo+i))
	case "Root":
		return e.vndBytes(str(0), 32)
	case "Sig":
		return e.vndBytes(str(0), 96)
	case "PubKey":
		return e.vndBytes(str(0), 48)
	case "Addr":
		return e.vndBytes(str(0), 20)
	case "Bytes":
		n := e.concreteInt(a[1], "Bytes n")
		return SliceV(e.vndBytes(str(0), n))
	case "Assume":
		t := a[0].(*Term)
		if t.IsFalse() {
			panic(pathAbort{"infeasible", "assume false"})
		}
		e.flushAsserts()
		e.assumeFeasible(t, "assume")
		return nil
	case "Assert":
		e.assertProp(th, a[0].(*Term), str(1))
		return nil
	case "Cover":
		e.cover(str(0))
		return nil
	case "Sleep":
		e.sleep(th, a[0].(*Term))
		return nil
	case "NowNs":
		return e.now
	case "Quiesce":
		return e.intConst(64, int64(e.quiesce(th)))
	case "HeldLocks":
		n := 0
		for _, l := range e.locks {
			if l.writer >= 0 {
				n++
			}
			for _, k := range l.readers {
				n += k
			}
		}
		return e.intConst(64, int64(n))
	case "Ghost":
		e.ghost = append(e.ghost, describe(e.sprintf(th, str(0), sliceArgIface(a[1]))))
		return nil
	case "Symbolic":
		return c.True
	case "BLSInvalidKey":
		bs, ok := e.concreteBytes(SliceV(sliceArg(a[0])))
		if !ok {
			panic(pathAbort{"error", "vnd.BLSInvalidKey needs concrete bytes"})
		}
		if e.blsInvalid == nil {
			e.blsInvalid = map[string]bool{}
		}
		e.blsInvalid[string(bs)] = true
		return nil
	case "BLSVerifyCalls":
		return e.intConst(64, int64(len(e.blsVerifies)))
	case "BLSVerifyResult":
		i := e.concreteInt(a[0], "BLSVerifyResult index")
		if i < 0 || i >= len(e.blsVerifies) {
			return c.False
		}
		return e.blsVerifies[i]
	case "Hash64":
		// uninterpreted, functionally consistent hash of 64-bit words
		args := sliceArg(a[1])
		ts := make([]*Term, len(args))
		allConst := true
		for i, x := range args {
			ts[i] = x.(*Term)
			if !ts[i].IsConst() {
				allConst = false
			}
		}
		if allConst {
			h := uint64(1469598103934665603)
			mix := func(v uint64) {
				for i := 0; i < 8; i++ {
					h ^= (v >> (8 * uint(i))) & 0xff
					h *= 1099511628211
				}
			}
			for _, ch := range []byte(str(0)) {
				h ^= uint64(ch)
				h *= 1099511628211
			}
			for _, t := range ts {
				mix(t.Uint64())
			}
			return c.BVConstU(64, h)
		}
		return c.App(fmt.Sprintf("h64_%s_%d", str(0), len(ts)), BV(64), ts...)
	case "And":
		return c.And(a[0].(*Term), a[1].(*Term))
	case "Or":
		return c.Or(a[0].(*Term), a[1].(*Term))
	case "Implies":
		return c.Implies(a[0].(*Term), a[1].(*Term))
	case "Not":
		return c.Not(a[0].(*Term))
	case "IteU64":
		return c.Ite(a[0].(*Term), a[1].(*Term), a[2].(*Term))
	case "Fail":
		e.assertProp(th, c.False, str(0))
		return nil
	case "SetGOMAXPROCS":
		e.gomaxprocs = e.concreteInt(a[0], "gomaxprocs")
		return nil
	case "Spawned":
		return e.intConst(64, int64(len(e.threads)-1))
	case "Blocked":
		n := 0
		for _, t := range e.threads {
			if t != th && !t.done {
				n++
			}
		}
		return e.intConst(64, int64(n))
	}
	panic(pathAbort{"error", "unknown vnd function " + fn.Name()})
}

func (e *Exec) leq(a, b *Term) *Term {
	if a.sort.K == SInt {
		return e.ctx.intCmp("le", a, b)
	}
	return e.ctx.SLe(a, b)
}

func (e *Exec) model() map[string]string {
	vars := make([]*Term, 0, len(e.vndOrder))
	for _, n := range e.vndOrder {
		vars = append(vars, e.vndVars[n])
	}
	m := e.solver.Model(vars)
	out := map[string]string{}
	for _, n := range e.vndOrder {
		if v, ok := m[e.vndVars[n]]; ok {
			out[n] = v.String()
		}
	}
	return out
}

// assertProp records an obligation. Obligations are discharged in batches
// (flushAsserts): one query PC ∧ ¬(c1 ∧ … ∧ cn) per batch; asserted
// conditions are NOT added to the path condition, so every input violating an
// assertion still follows an explored path and is found at that path's flush.
func (e *Exec) assertProp(th *Thread, cond *Term, label string) {
	e.assertsTotal++
	if cond.IsTrue() {
		e.asserts[label]++
		return
	}
	e.pending = append(e.pending, pendingAssert{cond: cond, label: label, stack: e.stack(th)})
	if cond.IsFalse() || len(e.pending) >= 64 || e.opts.NoBatch {
		e.flushAsserts()
	}
}

type pendingAssert struct {
	cond  *Term
	label string
	stack []string
}

func (e *Exec) flushAsserts() {
	if len(e.pending) == 0 {
		return
	}
	pend := e.pending
	e.pending = nil
	all := e.ctx.True
	for _, p := range pend {
		all = e.ctx.And(all, p.cond)
	}
	v := e.feasible(e.ctx.Not(all))
	if v == Unsat {
		for _, p := range pend {
			e.asserts[p.label]++
		}
		return
	}
	// locate the failing obligation
	for _, p := range pend {
		pv := e.feasible(e.ctx.Not(p.cond))
		switch pv {
		case Unsat:
			e.asserts[p.label]++
		case Sat:
			m := e.model()
			panic(pathAbort{"violation", ""}.with(&Violation{Kind: "assert", Label: p.label, Msg: "assertion " + p.label + " can fail: " + clip(p.cond.String(), 300), Model: m, Prefix: append([]int(nil), e.decisions...), Stack: p.stack}))
		default:
			e.inconclusive = append(e.inconclusive, "assert "+p.label+": solver "+pv.String()+" "+e.solver.lastErr)
		}
	}
	if v == Unknown {
		e.inconclusive = append(e.inconclusive, "assert batch: solver unknown "+e.solver.lastErr)
	}
}

func clip(s string, n int) string {
	if len(s) > n {
		return s[:n] + "…"
	}
	return s
}

func (e *Exec) cover(label string) {
	if e.covers[label] {
		return
	}
	e.covers[label] = true
	if e.wantCoverModels {
		if e.feasible() == Sat {
			m := e.model()
			if e.usedUF {
				m["__uf"] = "1"
			}
			e.coverModel[label] = m
		}
	}
}

var _ = types.Identical
var _ = strings.Contains
