package main

import (
	"crypto/sha256"
	"fmt"
	"os"
	"path/filepath"
	"sort"
	"strings"
	"sync"
	"time"

	"golang.org/x/tools/go/packages"
	"golang.org/x/tools/go/ssa"
	"golang.org/x/tools/go/ssa/ssautil"
)

func (p pathAbort) with(v *Violation) pathAbortV {
	return pathAbortV{p, v}
}

// repoDir is the tree that is checked: /repo, always, for the registered commands.
// VERIF_REPO redirects it to a scratch worktree and is used only by tools/try_seed.sh
// to try seeded changes without touching /repo.
var repoDir = func() string {
	if d := os.Getenv("VERIF_REPO"); d != "" {
		return d
	}
	return "/repo"
}()

// LoadProgram loads the given package patterns of /repo with the harness
// overlay (files under harnessDir mirrored into the package directories).
func LoadProgram(harnessDir string, patterns []string) (*Program, []*ssa.Package, map[string]string, error) {
	overlay := map[string][]byte{}
	overlayFiles := map[string]string{}
	err := filepath.Walk(harnessDir, func(path string, info os.FileInfo, err error) error {
		if err != nil || info.IsDir() || !strings.HasSuffix(path, ".go") {
			return err
		}
		rel, _ := filepath.Rel(harnessDir, path)
		b, err := os.ReadFile(path)
		if err != nil {
			return err
		}
		overlay[filepath.Join(repoDir, rel)] = b
		overlayFiles[filepath.Join(repoDir, rel)] = path
		return nil
	})
	if err != nil {
		return nil, nil, nil, err
	}
	cfg := &packages.Config{
		Mode:       packages.LoadAllSyntax,
		Dir:        repoDir,
		Overlay:    overlay,
		BuildFlags: []string{"-tags=verif"},
		Env:        append(os.Environ(), "GOFLAGS=-mod=mod", "GOPROXY=off", "GOSUMDB=off", "GOTOOLCHAIN=local"),
	}
	pkgs, err := packages.Load(cfg, patterns...)
	if err != nil {
		return nil, nil, nil, err
	}
	var errs []string
	packages.Visit(pkgs, nil, func(p *packages.Package) {
		for _, e := range p.Errors {
			errs = append(errs, e.Error())
		}
	})
	if len(errs) > 0 {
		if len(errs) > 20 {
			errs = errs[:20]
		}
		return nil, nil, nil, fmt.Errorf("package load/type errors:\n  %s", strings.Join(errs, "\n  "))
	}
	prog, spkgs := ssautil.AllPackages(pkgs, ssa.InstantiateGenerics)
	P := &Program{prog: prog, fset: prog.Fset, pkgs: map[string]*ssa.Package{}, modPath: "github.com/attestantio/vouch"}
	for _, sp := range spkgs {
		if sp != nil {
			sp.Build()
			P.pkgs[sp.Pkg.Path()] = sp
		}
	}
	return P, spkgs, overlayFiles, nil
}

type HarnessSpec struct {
	Pkg       string   `json:"pkg"`  // import path suffix below the module, e.g. services/attester/standard
	Func      string   `json:"func"` // entry point
	Tier      string   `json:"tier"` // "quick" (both tiers) or "thorough"
	Opts      ExecOpts `json:"opts"`
	MaxPaths  int      `json:"max_paths"`
	Note      string   `json:"note"`
	TimeoutMs int      `json:"solver_timeout_ms"`
	NoNative  bool     `json:"no_native"` // virtual-time harness: cannot be replayed against the real clock
}

type PathStats struct {
	Paths        int
	Completed    int
	Infeasible   int
	Steps        int
	MaxGap       int // most instructions any path executed between two signs of progress (cf. livelock)
	Asserts      map[string]int
	AssertsTotal int
	Covers       map[string]int
	CoverModels  map[string]map[string]string
	coverCands   map[string][]coverCand
	Funcs        map[string]int
	Files        map[string]int // instructions executed per source file of the tree under test
	Stubs        map[string]int
	Violations   []*Violation
	Errors       []string
	Bounds       []string
	Inconclusive []string
	Solver       SolverStats
	Unknowns     int
	OverflowObl  int
	Deadlocks    int
	Samples      []map[string]interface{}
	Wall         time.Duration
	MaxPathHit   bool
}

type worker struct {
	ctx    *Ctx
	solver *Solver
}

// Explore runs all paths of one harness.
func Explore(P *Program, pkg *ssa.Package, spec HarnessSpec, nworkers int, solverBin string, solverTimeoutMs int) *PathStats {
	t0 := time.Now()
	st := &PathStats{Asserts: map[string]int{}, Covers: map[string]int{}, CoverModels: map[string]map[string]string{}, Funcs: map[string]int{}, Files: map[string]int{}, Stubs: map[string]int{}}
	fn := pkg.Func(spec.Func)
	if fn == nil {
		st.Errors = append(st.Errors, "harness function not found: "+spec.Func)
		return st
	}
	if spec.TimeoutMs > 0 {
		solverTimeoutMs = spec.TimeoutMs
	}
	maxPaths := spec.MaxPaths
	if maxPaths == 0 {
		maxPaths = 200000
	}
	var mu sync.Mutex
	cond := sync.NewCond(&mu)
	queue := [][]int{nil}
	active := 0
	stop := false
	var wg sync.WaitGroup
	for w := 0; w < nworkers; w++ {
		wg.Add(1)
		go func() {
			defer wg.Done()
			var wk *worker
			defer func() {
				if wk != nil {
					mu.Lock()
					addSolverStats(&st.Solver, wk.solver.Stats)
					mu.Unlock()
					wk.solver.Close()
				}
			}()
			npaths := 0
			for {
				mu.Lock()
				for len(queue) == 0 && active > 0 && !stop {
					cond.Wait()
				}
				if stop || (len(queue) == 0 && active == 0) {
					mu.Unlock()
					cond.Broadcast()
					return
				}
				// DFS: take the most recently added prefix
				prefix := queue[len(queue)-1]
				queue = queue[:len(queue)-1]
				active++
				if st.Paths >= maxPaths {
					st.MaxPathHit = true
					stop = true
					active--
					mu.Unlock()
					cond.Broadcast()
					return
				}
				st.Paths++
				mu.Unlock()

				// fresh term table periodically to bound memory
				if wk == nil || npaths%200 == 0 {
					if wk != nil {
						mu.Lock()
						addSolverStats(&st.Solver, wk.solver.Stats)
						mu.Unlock()
						wk.solver.Close()
					}
					ctx := NewCtx()
					s, err := NewSolver(ctx, solverBin, solverTimeoutMs)
					if err != nil {
						mu.Lock()
						st.Errors = append(st.Errors, "cannot start solver: "+err.Error())
						stop = true
						active--
						mu.Unlock()
						cond.Broadcast()
						return
					}
					wk = &worker{ctx: ctx, solver: s}
				}
				npaths++
				res := runPath(P, pkg, fn, spec, wk, prefix)

				mu.Lock()
				active--
				st.Steps += res.steps
				if res.maxGap > st.MaxGap {
					st.MaxGap = res.maxGap
				}
				st.Unknowns += res.unknowns
				st.OverflowObl += res.overflowObl
				st.AssertsTotal += res.assertsTotal
				for k, v := range res.asserts {
					st.Asserts[k] += v
				}
				for k := range res.covers {
					st.Covers[k]++
				}
				// up to coverModelsPerLabel witnesses per cover label, chosen by a hash of the path's
				// decision sequence: which paths are validated natively does not depend on the order in
				// which the workers finish, and they are spread over the paths that reach the label
				for k, m := range res.coverModel {
					st.addCoverModel(k, m, res.decisions)
				}
				for k, v := range res.funcs {
					st.Funcs[k] += v
				}
				for k, v := range res.files {
					st.Files[k] += v
				}
				for k, v := range res.stubs {
					st.Stubs[k] += v
				}
				st.Inconclusive = append(st.Inconclusive, res.inconclusive...)
				switch res.outcome {
				case "ok":
					st.Completed++
				case "infeasible":
					st.Infeasible++
				case "violation":
					st.Violations = append(st.Violations, res.viol)
				case "error":
					st.Errors = append(st.Errors, res.msg)
				case "bound":
					st.Bounds = append(st.Bounds, res.msg)
				}
				if len(st.Samples) < 3 && res.outcome == "ok" && len(res.sample) > 0 {
					st.Samples = append(st.Samples, res.sample)
				}
				queue = append(queue, res.forks...)
				if st.Unknowns >= 10 && !stop {
					// branch-feasibility queries no solver answers are resolved by keeping the branch, which is
					// sound but costs minutes each: an exploration that keeps meeting them is cut short and
					// reported as inconclusive
					st.Inconclusive = append(st.Inconclusive, fmt.Sprintf("exploration stopped: %d branch-feasibility queries unanswered by every solver", st.Unknowns))
					stop = true
				}
				if len(st.Errors) > 20 || len(st.Violations) >= 25 || len(st.Inconclusive) >= 3 {
					// (an exploration that keeps meeting queries no solver answers is inconclusive
					// already: going on would only add minutes per such query)
					stop = true
				}
				mu.Unlock()
				cond.Broadcast()
			}
		}()
	}
	wg.Wait()
	st.Wall = time.Since(t0)
	return st
}

func addSolverStats(a *SolverStats, b SolverStats) {
	a.Queries += b.Queries
	a.Sat += b.Sat
	a.Unsat += b.Unsat
	a.Unknown += b.Unknown
	a.Errors += b.Errors
	a.Retries += b.Retries
	a.Time += b.Time
	if b.MaxQuery > a.MaxQuery {
		a.MaxQuery = b.MaxQuery
	}
}

type pathResult struct {
	outcome      string
	msg          string
	viol         *Violation
	forks        [][]int
	steps        int
	asserts      map[string]int
	assertsTotal int
	covers       map[string]bool
	coverModel   map[string]map[string]string
	decisions    []int
	funcs        map[string]int
	stubs        map[string]int
	unknowns     int
	overflowObl  int
	maxGap       int
	files        map[string]int
	inconclusive []string
	sample       map[string]interface{}
}

const coverModelsPerLabel = 4

type coverCand struct {
	hash  uint64
	key   string
	model map[string]string
}

// addCoverModel keeps, per label, the coverModelsPerLabel witnesses with the smallest hashes.
// They are stored in CoverModels as label, label+"\x00"+"1", ... (validateCovers strips the suffix).
func (st *PathStats) addCoverModel(label string, m map[string]string, decisions []int) {
	h := uint64(1469598103934665603)
	for _, d := range decisions {
		h ^= uint64(d) + 0x9e3779b97f4a7c15
		h *= 1099511628211
	}
	if st.coverCands == nil {
		st.coverCands = map[string][]coverCand{}
	}
	cs := append(st.coverCands[label], coverCand{hash: h, model: m})
	sort.Slice(cs, func(i, j int) bool { return cs[i].hash < cs[j].hash })
	if len(cs) > coverModelsPerLabel {
		cs = cs[:coverModelsPerLabel]
	}
	st.coverCands[label] = cs
	for i, c := range cs {
		k := label
		if i > 0 {
			k = fmt.Sprintf("%s\x00%d", label, i)
		}
		st.CoverModels[k] = c.model
	}
}

func newExec(P *Program, wk *worker, spec HarnessSpec, prefix []int) *Exec {
	e := &Exec{
		P: P, ctx: wk.ctx, solver: wk.solver, prefix: prefix,
		globals: map[*ssa.Global]*Value{}, inited: map[*ssa.Package]bool{},
		locks: map[*Value]*lockState{}, conds: map[*Value]*condState{}, wgs: map[*Value]*wgState{},
		sems: map[*Value]*semState{}, onces: map[*Value]bool{},
		vndVars: map[string]*Term{}, vndCount: map[string]int{}, asserts: map[string]int{},
		covers: map[string]bool{}, coverModel: map[string]map[string]string{},
		funcs: map[*ssa.Function]int{}, stubs: map[string]int{},
		unixOrigin: map[*Term]*Term{}, durSplit: map[*Term][2]*Term{}, atomVC: map[*Value][]int{},
		redirects: map[string]Value{}, gomaxprocs: 4, regexps: map[*Value]string{}, known: map[*Term]bool{}, ufApps: map[string][]ufApp{}, intOrigin: map[*Term]*Term{}, bigs: map[*Value]*Term{}, viper: map[string]IfaceV{},
		opts: spec.Opts, intMode: spec.Opts.IntMode,
	}
	if e.opts.MaxSteps == 0 {
		e.opts.MaxSteps = 2000000
	}
	// a hash of bytes that are all constants is the real hash, computed here (exactly what the
	// native run computes); only hashes over symbolic bytes are uninterpreted
	e.nativeHash = func(name string, in []byte) []byte {
		if name == "sha256" {
			sum := sha256.Sum256(in)
			return sum[:]
		}
		return nil
	}
	if e.opts.Races {
		e.race = newRaceMon()
	}
	// virtual clock starts at a fixed positive instant
	// (a fixed origin: only differences of instants matter to the code under test,
	// and a constant keeps the solver's time-ordering queries cheap)
	e.now = e.intConst(64, 1700000000*1000000000)
	return e
}

func runPath(P *Program, pkg *ssa.Package, fn *ssa.Function, spec HarnessSpec, wk *worker, prefix []int) (res pathResult) {
	e := newExec(P, wk, spec, prefix)
	e.wantCoverModels = len(prefix) == 0 || true
	e.harnessPkg = pkg
	// harness redirects
	for name, m := range pkg.Members {
		if f, ok := m.(*ssa.Function); ok && strings.HasPrefix(name, "VerifStub_") {
			// VerifStub_<target with '.' and '/' replaced by '_'>: the target is in the doc-less naming table
			if tgt, ok := redirectTargets[name]; ok {
				e.redirects[tgt] = f
			}
		}
	}
	defer func() {
		r := recover()
		if r == nil || !isViolation(r) {
			// discharge the obligations recorded before the path ended
			func() {
				defer func() {
					if r2 := recover(); r2 != nil {
						r = r2
					}
				}()
				e.flushAsserts()
			}()
		}
		res.forks = e.forks
		defer func() {
			if res.viol != nil {
				res.viol.Threads = len(e.threads) - 1
			}
		}()
		e.progress()
		res.steps = e.steps
		res.maxGap = e.maxGap
		res.asserts = e.asserts
		res.assertsTotal = e.assertsTotal
		res.covers = e.covers
		res.coverModel = e.coverModel
		res.decisions = append([]int(nil), e.decisions...)
		res.unknowns = e.unknowns
		res.overflowObl = e.overflowObl
		res.inconclusive = e.inconclusive
		res.funcs = map[string]int{}
		res.files = map[string]int{}
		for f, n := range e.funcs {
			res.funcs[f.String()] += n
			name := P.fset.Position(f.Pos()).Filename
			for q := f; name == "" && q != nil; q = q.Parent() {
				name = P.fset.Position(q.Pos()).Filename
			}
			if strings.HasPrefix(name, repoDir+"/") && !strings.Contains(name, "zz_verif") && !strings.Contains(name, "/internal/vnd/") && !strings.Contains(name, "/internal/vstub/") {
				res.files[strings.TrimPrefix(name, repoDir+"/")] += n
			}
		}
		res.stubs = e.stubs
		if r != nil {
			switch r := r.(type) {
			case pathAbortV:
				res.outcome = r.kind
				res.msg = r.msg
				res.viol = r.viol
				res.viol.Prefix = append([]int(nil), e.decisions...)
			case pathAbort:
				res.outcome = r.kind
				res.msg = r.msg
				if r.kind == "error" || r.kind == "bound" {
					stack := ""
					if e.cur != nil {
						stack = strings.Join(firstN(e.stack(e.cur), 6), " <- ")
					}
					res.msg = fmt.Sprintf("%s: %s [%s] decisions=%v", spec.Func, r.msg, stack, e.decisions)
				}
			case uncaughtPanic:
				res.outcome = "violation"
				m := map[string]string{}
				if e.feasible() == Sat {
					m = e.model()
				}
				res.viol = &Violation{Kind: "panic", Label: "panic", Msg: r.p.msg, Model: m, Prefix: append([]int(nil), e.decisions...), Stack: e.lastStack}
			default:
				res.outcome = "error"
				res.msg = fmt.Sprintf("%s: engine panic: %v [%s]", spec.Func, r, strings.Join(firstN(e.stackSafe(), 6), " <- "))
			}
		}
	}()
	main := e.newThread(fn, nil, "main")
	e.mainThread = main
	ok := e.runAll(main)
	if !ok {
		// deadlock: main blocked forever
		var bl []string
		for _, t := range e.threads {
			if !t.done {
				bl = append(bl, fmt.Sprintf("goroutine %d (%s) blocked on %s at %s", t.id, t.name, t.blockWhat, strings.Join(firstN(e.stack(t), 3), " <- ")))
			}
		}
		m := map[string]string{}
		if e.feasible() == Sat {
			m = e.model()
		}
		res.outcome = "violation"
		res.viol = &Violation{Kind: "deadlock", Label: "deadlock", Msg: "harness cannot make progress: " + strings.Join(bl, "; "), Model: m, Prefix: append([]int(nil), e.decisions...)}
		return
	}
	if e.race != nil && e.race.found != nil {
		res.outcome = "violation"
		v := e.race.found
		if e.feasible() == Sat {
			v.Model = e.model()
		}
		v.Prefix = append([]int(nil), e.decisions...)
		res.viol = v
		return
	}
	res.outcome = "ok"
	res.sample = map[string]interface{}{"decisions": append([]int(nil), e.decisions...), "path_condition_size": len(e.pc), "ghost": firstN(e.ghost, 12)}
	return
}

func isViolation(r interface{}) bool {
	switch r.(type) {
	case pathAbortV, uncaughtPanic:
		return true
	}
	return false
}

func (e *Exec) stackSafe() (out []string) {
	defer func() { recover() }()
	if e.cur != nil {
		return e.stack(e.cur)
	}
	return nil
}

func firstN(s []string, n int) []string {
	if len(s) > n {
		return s[:n]
	}
	return s
}

// redirectTargets maps harness stub function names to the real functions they replace.
var redirectTargets = map[string]string{
	"VerifStub_util_FetchBuilderClient":  "github.com/attestantio/vouch/util.FetchBuilderClient",
	"VerifStub_json_Unmarshal":           "encoding/json.Unmarshal",
	"VerifStub_json_Marshal":             "encoding/json.Marshal",
	"VerifStub_blockrelay_UnmarshalJSON": "github.com/attestantio/vouch/services/blockrelay.UnmarshalJSON",
	// a relay's REST client (HTTP transport, background goroutine): replaced by a harness stub so that the
	// cache-miss path of util.FetchBuilderClient runs
	"VerifStub_builderhttp_New": "github.com/attestantio/go-builder-client/http.New",
	// the REST daemon of the relay service opens a listening socket
	"VerifStub_restdaemon_New": "github.com/attestantio/go-block-relay/services/daemon/rest.New",
	// opening a wallet reads the wallet stores on disk and decrypts
	"VerifStub_e2wallet_OpenWallet": "github.com/wealdtech/go-eth2-wallet.OpenWallet",
}

func sortedKeys(m map[string]int) []string {
	ks := make([]string, 0, len(m))
	for k := range m {
		ks = append(ks, k)
	}
	sort.Strings(ks)
	return ks
}

// modJoin is the import path of a package given relative to the module root
// ("." is the root package).
func modJoin(mod, rel string) string {
	if rel == "." || rel == "" {
		return mod
	}
	return mod + "/" + rel
}
