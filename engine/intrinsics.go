package main

import (
	"bytes"
	"encoding/hex"
	"fmt"
	"go/token"
	"go/types"
	"math"
	"math/big"
	"regexp"
	"sort"
	"strconv"
	"strings"

	"golang.org/x/tools/go/ssa"
)

type intrinsicFn func(e *Exec, th *Thread, fn *ssa.Function, args []Value) Value

var intrinsics = map[string]intrinsicFn{}

// packages whose every function is a no-op returning zero values
var noopPkgs = []string{
	"github.com/rs/zerolog",
	"go.opentelemetry.io/otel",
	"github.com/prometheus/client_golang",
}

func fnName(fn *ssa.Function) string {
	if o := fn.Origin(); o != nil {
		return o.String()
	}
	return fn.String()
}

func pkgPathOf(fn *ssa.Function) string {
	if o := fn.Origin(); o != nil {
		fn = o
	}
	if fn.Pkg != nil {
		return fn.Pkg.Pkg.Path()
	}
	// methods of instantiated/synthetic functions: derive from receiver
	if recv := fn.Signature.Recv(); recv != nil {
		t := recv.Type()
		if p, ok := t.(*types.Pointer); ok {
			t = p.Elem()
		}
		if n, ok := t.(*types.Named); ok && n.Obj().Pkg() != nil {
			return n.Obj().Pkg().Path()
		}
	}
	if fn.Object() != nil && fn.Object().Pkg() != nil {
		return fn.Object().Pkg().Path()
	}
	return ""
}

func (e *Exec) intrinsic(th *Thread, fn *ssa.Function, args []Value) (Value, bool) {
	if fn.Synthetic == "package initializer" {
		if fn == e.initNow {
			e.initNow = nil
			return nil, false
		}
		e.ensureInit(fn.Pkg)
		return nil, true
	}
	name := fnName(fn)
	if name == "github.com/shopspring/decimal.NewFromString" && !e.intMode {
		if str, ok := args[0].(string); ok {
			e.stubs["native:"+name]++
			return e.decimalFromString(fn, str), true
		}
	}
	if strings.HasPrefix(name, "(*math/big.Int).") && !e.intMode && token.IsExported(fn.Name()) {
		// constants: the real math/big, exact at any size
		if v, ok := e.nativeBig(fn, args); ok {
			e.stubs["native:"+name]++
			return v, true
		}
	}
	// harness redirects take precedence over the built-in models
	if r, ok := e.redirects[name]; ok {
		e.stubs["redirect:"+name]++
		return e.callSync(th, r, args), true
	}
	if h, ok := intrinsics[name]; ok {
		e.stubs[name]++
		return h(e, th, fn, args), true
	}
	pp := pkgPathOf(fn)
	if pp == "math/big" && fn.Signature.Recv() != nil && strings.Contains(fn.Signature.Recv().Type().String(), "math/big.Int") && token.IsExported(fn.Name()) {
		// a big.Int method without a symbolic model: the real method on concrete operands
		if e.intMode {
			panic(pathAbort{"error", "math/big method " + fn.Name() + " is not modelled in Int mode"})
		}
		if v, ok := e.nativeBig(fn, args); ok {
			e.stubs["native:"+name]++
			return v, true
		}
		panic(pathAbort{"error", "math/big method " + fn.Name() + " has no symbolic model and its operands are not all concrete"})
	}
	if pp == e.P.modPath+"/internal/vnd" {
		return e.vndCall(th, fn, args), true
	}
	for _, p := range noopPkgs {
		if strings.HasPrefix(pp, p) {
			e.stubs["noop:"+p]++
			if e.opts.LogEnabled && p == "github.com/rs/zerolog" && fn.Name() == "Enabled" && fn.Signature.Recv() != nil {
				return e.ctx.Bool(true), true
			}
			return e.noopResult(fn, args), true
		}
	}
	// SSZ hash-tree-root: uninterpreted function of the receiver's contents
	if fn.Name() == "HashTreeRoot" && fn.Signature.Recv() != nil && fn.Signature.Results().Len() == 2 && fn.Signature.Params().Len() == 0 {
		e.stubs["uf:HashTreeRoot"]++
		return e.hashTreeRoot(fn, args[0]), true
	}
	// vouch metrics helpers: package-level functions named monitor*
	if strings.HasPrefix(pp, e.P.modPath) && fn.Signature.Recv() == nil && (strings.HasPrefix(fn.Name(), "monitor") || strings.HasPrefix(fn.Name(), "Monitor")) {
		e.stubs["noop:monitor*"]++
		return e.noopResult(fn, args), true
	}
	// harness redirects: VerifStub_<pkg>_<Func> in the harness package
	if r, ok := e.redirects[name]; ok {
		e.stubs["redirect:"+name]++
		return e.callSync(th, r, args), true
	}
	return nil, false
}

// noopResult returns zero values; context.Context results echo the first
// context argument so `ctx, span := tracer.Start(ctx, ...)` keeps the context.
func (e *Exec) noopResult(fn *ssa.Function, args []Value) Value {
	res := fn.Signature.Results()
	mk := func(t types.Type) Value {
		if isContextType(t) {
			for _, a := range args {
				if iv, ok := a.(IfaceV); ok {
					if _, isCtx := iv.v.(*CtxV); isCtx {
						return iv
					}
				}
			}
			return e.backgroundCtx()
		}
		if _, ok := t.Underlying().(*types.Interface); ok {
			if n, ok := t.(*types.Named); ok && n.Obj().Pkg() != nil {
				return IfaceV{t: t, v: &OpaqueV{what: n.Obj().Pkg().Path() + "." + n.Obj().Name()}}
			}
		}
		if p, ok := t.Underlying().(*types.Pointer); ok {
			if _, isStruct := p.Elem().Underlying().(*types.Struct); isStruct {
				// e.g. zerolog.Ctx(ctx) *Logger: value-receiver methods dereference it
				var cell Value = e.zero(p.Elem())
				return &cell
			}
		}
		return e.zero(t)
	}
	switch res.Len() {
	case 0:
		return nil
	case 1:
		return mk(res.At(0).Type())
	}
	out := make(TupleV, res.Len())
	for i := range out {
		out[i] = mk(res.At(i).Type())
	}
	return out
}

func isContextType(t types.Type) bool {
	n, ok := t.(*types.Named)
	return ok && n.Obj().Pkg() != nil && n.Obj().Pkg().Path() == "context" && n.Obj().Name() == "Context"
}

// invokeSpecial handles interface method calls on engine-native receivers.
func (e *Exec) invokeSpecial(th *Thread, recv IfaceV, call *ssa.CallCommon, args []Value) Value {
	switch rv := recv.v.(type) {
	case *HashV:
		m := call.Method.Name()
		return &NativeFn{name: "hash." + m, f: func(th *Thread, a []Value) Value {
			switch m {
			case "Write":
				b := sliceArg(a[0])
				rv.buf = append(rv.buf, b...)
				return TupleV{e.intConst(64, int64(len(b))), IfaceV{}}
			case "Sum":
				out := append(SliceV{}, sliceArg(a[0])...)
				return append(out, e.hashUF(rv.name, rv.buf, rv.size)...)
			case "Reset":
				rv.buf = nil
				return nil
			case "Size":
				return e.intConst(64, int64(rv.size))
			case "BlockSize":
				return e.intConst(64, 64)
			}
			panic(pathAbort{"error", "hash method " + m})
		}}
	case *CtxV:
		m := call.Method.Name()
		return &NativeFn{name: "ctx." + m, f: func(th *Thread, a []Value) Value { return e.ctxMethod(th, rv, m, a) }}
	case *OpaqueV:
		sig := call.Method.Type().(*types.Signature)
		return &NativeFn{name: "opaque." + call.Method.Name(), f: func(th *Thread, a []Value) Value {
			return e.noopSig(sig, a)
		}}
	}
	if recv.t == nil {
		// nil interface of a stubbed library type (tracer, span, metrics): no-op
		if n, ok := call.Value.Type().(*types.Named); ok && n.Obj().Pkg() != nil {
			pp := n.Obj().Pkg().Path()
			for _, p := range noopPkgs {
				if strings.HasPrefix(pp, p) {
					sig := call.Method.Type().(*types.Signature)
					return &NativeFn{name: "nilnoop." + call.Method.Name(), f: func(th *Thread, a []Value) Value {
						return e.noopSig(sig, a)
					}}
				}
			}
		}
	}
	return nil
}

func (e *Exec) noopSig(sig *types.Signature, args []Value) Value {
	res := sig.Results()
	mk := func(t types.Type) Value {
		if isContextType(t) {
			for _, a := range args {
				if iv, ok := a.(IfaceV); ok {
					if _, isCtx := iv.v.(*CtxV); isCtx {
						return iv
					}
				}
			}
			return e.backgroundCtx()
		}
		if _, ok := t.Underlying().(*types.Interface); ok {
			if n, ok := t.(*types.Named); ok && n.Obj().Pkg() != nil {
				return IfaceV{t: t, v: &OpaqueV{what: n.Obj().Name()}}
			}
		}
		return e.zero(t)
	}
	switch res.Len() {
	case 0:
		return nil
	case 1:
		return mk(res.At(0).Type())
	}
	out := make(TupleV, res.Len())
	for i := range out {
		out[i] = mk(res.At(i).Type())
	}
	return out
}

// ---------------------------------------------------------------------------
// errors

func (e *Exec) errorStringType() types.Type {
	p := e.P.prog.ImportedPackage("errors")
	return types.NewPointer(p.Type("errorString").Type())
}

func (e *Exec) wrapErrorType() types.Type {
	p := e.P.prog.ImportedPackage("fmt")
	return types.NewPointer(p.Type("wrapError").Type())
}

// newError creates an error value: *errors.errorString{msg} or, with a cause,
// *fmt.wrapError{msg, cause} (so Unwrap/errors.Is work through SSA or stubs).
func (e *Exec) newError(msg Value, cause Value) Value {
	if cause == nil || isNilValue(cause) {
		var cell Value = StructV{msg}
		return IfaceV{t: e.errorStringType(), v: &cell}
	}
	var cell Value = StructV{msg, cause}
	return IfaceV{t: e.wrapErrorType(), v: &cell}
}

func (e *Exec) errMsg(th *Thread, err Value) Value {
	iv, ok := err.(IfaceV)
	if !ok || iv.t == nil {
		return "<nil>"
	}
	if p, ok := iv.v.(*Value); ok && p != nil {
		if s, ok := (*p).(StructV); ok && len(s) >= 1 {
			if types.Identical(iv.t, e.errorStringType()) || types.Identical(iv.t, e.wrapErrorType()) {
				return s[0]
			}
		}
	}
	// call Error() through SSA
	m := e.P.lookupMethod(iv.t, nil, "Error")
	if m == nil {
		return "<error>"
	}
	return e.callSync(th, m, []Value{iv.v})
}

func concatStr(a, b Value) Value {
	as, aok := a.(string)
	bs, bok := b.(string)
	if aok && bok {
		return as + bs
	}
	var parts []interface{}
	add := func(v Value) {
		switch v := v.(type) {
		case string:
			parts = append(parts, v)
		case *SymStr:
			parts = append(parts, v.parts...)
		default:
			parts = append(parts, fmt.Sprint(v))
		}
	}
	add(a)
	add(b)
	return normSym(&SymStr{parts: parts})
}

func (e *Exec) unwrapErr(th *Thread, err IfaceV) (IfaceV, bool) {
	if err.t == nil {
		return IfaceV{}, false
	}
	if types.Identical(err.t, e.wrapErrorType()) {
		s := (*(err.v.(*Value))).(StructV)
		if c, ok := s[1].(IfaceV); ok {
			return c, true
		}
		return IfaceV{}, false
	}
	m := e.P.lookupMethod(err.t, nil, "Unwrap")
	if m != nil && m.Signature.Results().Len() == 1 {
		r := e.callSync(th, m, []Value{err.v})
		if c, ok := r.(IfaceV); ok {
			return c, true
		}
	}
	return IfaceV{}, false
}

func (e *Exec) errorsIs(th *Thread, err, target Value) *Term {
	cur, ok := err.(IfaceV)
	tg, _ := target.(IfaceV)
	for ok && cur.t != nil {
		if types.Identical(cur.t, tg.t) {
			if eq := e.eqVal(cur, tg); e.branch(eq) {
				return e.ctx.True
			}
		}
		cur, ok = e.unwrapErr(th, cur)
	}
	if cur.t == nil && tg.t == nil && !ok {
		return e.ctx.Bool(isNilValue(err) && isNilValue(target))
	}
	return e.ctx.False
}

// errors.As(err, &target)
func (e *Exec) errorsAs(th *Thread, err Value, target Value, ptrType types.Type) *Term {
	tp := target.(IfaceV)
	p := tp.v.(*Value)
	want := tp.t.(*types.Pointer).Elem()
	cur, ok := err.(IfaceV)
	for ok && cur.t != nil {
		if it, isIface := want.Underlying().(*types.Interface); isIface {
			if e.implements(cur.t, it) {
				*p = cur
				return e.ctx.True
			}
		} else if types.Identical(cur.t, want) {
			*p = copyVal(cur.v)
			return e.ctx.True
		}
		cur, ok = e.unwrapErr(th, cur)
	}
	return e.ctx.False
}

// ---------------------------------------------------------------------------
// fmt

// toNative converts a fully concrete value to a Go value usable by fmt.
func (e *Exec) toNative(th *Thread, v Value, verb byte) (interface{}, bool) {
	switch x := v.(type) {
	case IfaceV:
		if x.t == nil {
			return nil, true
		}
		// errors and Stringers print their text for %s/%v
		if verb == 's' || verb == 'v' || verb == 'q' {
			if hasMethod(e, x.t, "Error") {
				m := e.errMsg(th, x)
				if s, ok := m.(string); ok {
					return s, true
				}
				return m, false
			}
			if hasMethod(e, x.t, "String") {
				m := e.P.lookupMethod(x.t, nil, "String")
				if m != nil {
					r := e.callSync(th, m, []Value{x.v})
					if s, ok := r.(string); ok {
						return s, true
					}
					return r, false
				}
			}
		}
		return e.toNativeTyped(th, x.v, x.t, verb)
	}
	return e.toNativeTyped(th, v, nil, verb)
}

func hasMethod(e *Exec, t types.Type, name string) bool {
	e.P.buildMu.Lock()
	defer e.P.buildMu.Unlock()
	ms := e.P.prog.MethodSets.MethodSet(t)
	for i := 0; i < ms.Len(); i++ {
		if ms.At(i).Obj().Name() == name {
			return true
		}
	}
	return false
}

func (e *Exec) toNativeTyped(th *Thread, v Value, t types.Type, verb byte) (interface{}, bool) {
	switch x := v.(type) {
	case string:
		return x, true
	case *SymStr:
		return x, false
	case *Term:
		if !x.IsConst() {
			return x, false
		}
		signed := true
		if t != nil {
			if _, s, ok := intWidth(t); ok {
				signed = s
			}
		}
		switch x.sort.K {
		case SBool:
			return x.IsTrue(), true
		case SFP:
			return f64frombits(x.c.Uint64()), true
		case SInt:
			return x.c.Int64(), true
		}
		if signed {
			return x.Int64(), true
		}
		switch x.sort.W {
		case 8:
			return uint8(x.Uint64()), true
		}
		return x.Uint64(), true
	case ArrayV, SliceV:
		var elems []Value
		if a, ok := x.(ArrayV); ok {
			elems = a
		} else {
			elems = x.(SliceV)
		}
		// byte arrays
		bs := make([]byte, len(elems))
		for i, el := range elems {
			tt, ok := el.(*Term)
			if ok && tt.sort.K == SInt && e.intMode {
				// Int mode: bytes are integers 0..255
				if !tt.IsConst() {
					return x, false
				}
				if tt.c.Sign() < 0 || tt.c.BitLen() > 8 {
					return fmt.Sprintf("<%d elems>", len(elems)), true
				}
				bs[i] = byte(tt.c.Uint64())
				continue
			}
			if !ok || tt.sort.K != SBV || tt.sort.W != 8 {
				return fmt.Sprintf("<%d elems>", len(elems)), true
			}
			if !tt.IsConst() {
				return x, false
			}
			bs[i] = byte(tt.Uint64())
		}
		return bs, true
	case *Value:
		if x == nil {
			return nil, true
		}
		return "<ptr>", true
	case nil:
		return nil, true
	}
	return fmt.Sprintf("<%T>", v), true
}

func (e *Exec) sprintf(th *Thread, format string, args []Value) Value {
	// split format into verbs
	var parts []interface{}
	argi := 0
	allConcrete := true
	lit := ""
	i := 0
	for i < len(format) {
		ch := format[i]
		if ch != '%' {
			lit += string(ch)
			i++
			continue
		}
		j := i + 1
		for j < len(format) && strings.IndexByte("+-# 0123456789.", format[j]) >= 0 {
			j++
		}
		if j >= len(format) {
			lit += format[i:]
			break
		}
		verb := format[j]
		spec := format[i : j+1]
		i = j + 1
		if verb == '%' {
			lit += "%"
			continue
		}
		if argi >= len(args) {
			lit += "%!" + string(verb) + "(MISSING)"
			continue
		}
		a := args[argi]
		argi++
		nv, conc := e.toNative(th, a, verb)
		if conc {
			lit += fmt.Sprintf(spec, nv)
			continue
		}
		allConcrete = false
		if lit != "" {
			parts = append(parts, lit)
			lit = ""
		}
		switch s := nv.(type) {
		case *SymStr:
			parts = append(parts, s.parts...)
		case *Term:
			uns := false
			if iv, ok := a.(IfaceV); ok && iv.t != nil {
				if b, ok := iv.t.Underlying().(*types.Basic); ok && b.Info()&types.IsUnsigned != 0 {
					uns = true
				}
			}
			parts = append(parts, symPart{verb: spec, t: s, uns: uns})
		default:
			// symbolic byte arrays etc: one part per element
			var elems []Value
			switch x := nv.(type) {
			case ArrayV:
				elems = x
			case SliceV:
				elems = x
			}
			for _, el := range elems {
				parts = append(parts, symPart{verb: spec, t: el.(*Term)})
			}
		}
	}
	if lit != "" {
		parts = append(parts, lit)
	}
	if allConcrete {
		if len(parts) == 0 {
			return ""
		}
		return parts[0].(string)
	}
	return normSym(&SymStr{parts: parts})
}

// ---------------------------------------------------------------------------

func sliceArg(v Value) []Value {
	s, _ := v.(SliceV)
	return s
}

func (e *Exec) goString(v Value, what string) string {
	s, ok := v.(string)
	if !ok {
		panic(pathAbort{"error", what + ": symbolic string not supported"})
	}
	return s
}

func (e *Exec) strSlice(ss []string) Value {
	out := make(SliceV, len(ss))
	for i, s := range ss {
		out[i] = s
	}
	return out
}

func (e *Exec) concreteBytes(v Value) ([]byte, bool) {
	var elems []Value
	switch x := v.(type) {
	case SliceV:
		elems = x
	case ArrayV:
		elems = x
	default:
		return nil, false
	}
	bs := make([]byte, len(elems))
	for i, el := range elems {
		t, ok := el.(*Term)
		if !ok || !t.IsConst() {
			return nil, false
		}
		bs[i] = byte(t.Uint64())
	}
	return bs, true
}

func (e *Exec) bytesValue(bs []byte) SliceV {
	out := make(SliceV, len(bs))
	for i, b := range bs {
		out[i] = e.intConst(8, int64(b))
	}
	return out
}

// hashUF models a cryptographic hash as an uninterpreted function from the
// input bytes to n output bytes (one UF per output byte, keyed by input length).
func (e *Exec) hashUF(name string, in []Value, n int) ArrayV {
	c := e.ctx
	if bs, ok := e.concreteBytes(SliceV(in)); ok && e.nativeHash != nil {
		if out := e.nativeHash(name, bs); out != nil {
			r := make(ArrayV, len(out))
			for i, b := range out {
				r[i] = c.BVConstU(8, uint64(b))
			}
			return r
		}
	}
	e.usedUF = true
	args := make([]*Term, len(in))
	for i, b := range in {
		args[i] = b.(*Term)
	}
	out := make(ArrayV, n)
	var outTerms []*Term
	for i := 0; i < n; i++ {
		if i >= 8 && i != n-1 && !e.opts.FullBytes {
			// hash outputs: first eight and last byte uninterpreted, the rest zero
			out[i] = c.BVConst(8, 0)
			continue
		}
		if len(args) == 0 {
			out[i] = c.Var(fmt.Sprintf("%s_empty_%d", name, i), BV(8))
		} else {
			t := c.App(fmt.Sprintf("%s_%d_b%d", name, len(args), i), BV(8), args...)
			out[i] = t
			outTerms = append(outTerms, t)
		}
	}
	e.injective(fmt.Sprintf("%s_%d", name, len(args)), args, outTerms)
	return out
}

// flatten lists the scalar terms a value is made of (following pointers).
func (e *Exec) flatten(v Value, out *[]*Term, shape *strings.Builder, depth int) {
	if depth > 12 {
		return
	}
	switch x := v.(type) {
	case *Term:
		*out = append(*out, x)
		shape.WriteString(x.sort.String())
	case StructV:
		shape.WriteString("{")
		for _, f := range x {
			e.flatten(f, out, shape, depth+1)
		}
		shape.WriteString("}")
	case ArrayV:
		shape.WriteString("[")
		for _, f := range x {
			e.flatten(f, out, shape, depth+1)
		}
		shape.WriteString("]")
	case SliceV:
		fmt.Fprintf(shape, "s%d(", len(x))
		for _, f := range x {
			e.flatten(f, out, shape, depth+1)
		}
		shape.WriteString(")")
	case *Value:
		if x == nil {
			shape.WriteString("nil")
			return
		}
		shape.WriteString("*")
		e.flatten(*x, out, shape, depth+1)
	case IfaceV:
		if x.t != nil {
			shape.WriteString("i:" + x.t.String())
			e.flatten(x.v, out, shape, depth+1)
		}
	case string:
		shape.WriteString("str:" + x)
	}
}

func (e *Exec) hashTreeRoot(fn *ssa.Function, recv Value) Value {
	e.usedUF = true
	var terms []*Term
	var shape strings.Builder
	shape.WriteString(fn.Signature.Recv().Type().String())
	e.flatten(recv, &terms, &shape, 0)
	// drop constants from the argument list but keep them in the name
	var args []*Term
	for i, t := range terms {
		if t.IsConst() {
			fmt.Fprintf(&shape, "|%d=%s", i, t.c.String())
		} else {
			args = append(args, t)
		}
	}
	h := fnv64(shape.String())
	name := fmt.Sprintf("htr_%x", h)
	out := make(ArrayV, 32)
	var outTerms []*Term
	for i := range out {
		if i >= 4 && i != 31 {
			out[i] = e.ctx.BVConst(8, 0)
			continue
		}
		if len(args) == 0 {
			out[i] = e.ctx.BVConstU(8, (h>>(8*uint(i%8)))&0xff)
		} else {
			t := e.ctx.App(fmt.Sprintf("%s_b%d", name, i), BV(8), args...)
			out[i] = t
			outTerms = append(outTerms, t)
		}
	}
	e.injective(name, args, outTerms)
	return TupleV{out, IfaceV{}}
}

// injective adds the collision-resistance axioms for a hash modelled as an
// uninterpreted function: equal outputs of two applications imply equal inputs.
func (e *Exec) injective(name string, args []*Term, outs []*Term) {
	if len(args) == 0 || len(outs) == 0 {
		return
	}
	c := e.ctx
	family := name
	if i := strings.Index(name, "_"); i > 0 {
		family = name[:i]
	}
	// a hash value is never all-zero, and applications of differently shaped
	// inputs (other UF of the same family) never collide
	nz := c.False
	for _, o := range outs {
		nz = c.Or(nz, c.Not(c.Eq(o, c.BVConst(8, 0))))
	}
	e.assume(nz)
	for other, apps := range e.ufApps {
		if other == name || !strings.HasPrefix(other, family+"_") {
			continue
		}
		for _, prev := range apps {
			if len(prev.outs) != len(outs) {
				continue
			}
			outEq := c.True
			for i := range outs {
				outEq = c.And(outEq, c.Eq(outs[i], prev.outs[i]))
			}
			e.assume(c.Not(outEq))
		}
	}
	for _, prev := range e.ufApps[name] {
		if len(prev.args) != len(args) {
			continue
		}
		same := true
		for i := range args {
			if prev.args[i] != args[i] {
				same = false
			}
		}
		if same {
			return // same application
		}
		outEq, argEq := c.True, c.True
		for i := range outs {
			outEq = c.And(outEq, c.Eq(outs[i], prev.outs[i]))
		}
		for i := range args {
			if args[i].sort == prev.args[i].sort {
				argEq = c.And(argEq, c.Eq(args[i], prev.args[i]))
			}
		}
		e.assume(c.Implies(outEq, argEq))
	}
	e.ufApps[name] = append(e.ufApps[name], ufApp{args: args, outs: outs})
}

type ufApp struct {
	args []*Term
	outs []*Term
}

func fnv64(s string) uint64 {
	h := uint64(1469598103934665603)
	for i := 0; i < len(s); i++ {
		h ^= uint64(s[i])
		h *= 1099511628211
	}
	return h
}

func init() {
	I := intrinsics
	I["(*sync.Pool).Get"] = func(e *Exec, th *Thread, fn *ssa.Function, a []Value) Value {
		p := a[0].(*Value)
		newf := (*p).(StructV)
		nf := newf[len(newf)-1]
		if isNilValue(nf) {
			return IfaceV{}
		}
		return e.callSync(th, nf, nil)
	}
	I["(*sync.Pool).Put"] = func(e *Exec, th *Thread, fn *ssa.Function, a []Value) Value { return nil }
	// ---- errors ----
	I["errors.New"] = func(e *Exec, th *Thread, fn *ssa.Function, a []Value) Value { return e.newError(a[0], nil) }
	I["github.com/pkg/errors.New"] = I["errors.New"]
	I["github.com/pkg/errors.Errorf"] = func(e *Exec, th *Thread, fn *ssa.Function, a []Value) Value {
		return e.newError(e.sprintf(th, e.goString(a[0], "Errorf format"), sliceArgIface(a[1])), nil)
	}
	I["fmt.Errorf"] = func(e *Exec, th *Thread, fn *ssa.Function, a []Value) Value {
		format := e.goString(a[0], "Errorf format")
		args := sliceArgIface(a[1])
		var cause Value
		if strings.Contains(format, "%w") {
			for _, x := range args {
				if iv, ok := x.(IfaceV); ok && iv.t != nil && hasMethod(e, iv.t, "Error") {
					cause = iv
				}
			}
			format = strings.ReplaceAll(format, "%w", "%v")
		}
		return e.newError(e.sprintf(th, format, args), cause)
	}
	wrap := func(e *Exec, th *Thread, fn *ssa.Function, a []Value) Value {
		if isNilValue(a[0]) {
			return IfaceV{}
		}
		return e.newError(concatStr(concatStr(a[1], ": "), e.errMsg(th, a[0])), a[0])
	}
	I["github.com/pkg/errors.Wrap"] = wrap
	I["github.com/pkg/errors.WithMessage"] = wrap
	I["github.com/pkg/errors.Wrapf"] = func(e *Exec, th *Thread, fn *ssa.Function, a []Value) Value {
		if isNilValue(a[0]) {
			return IfaceV{}
		}
		msg := e.sprintf(th, e.goString(a[1], "Wrapf format"), sliceArgIface(a[2]))
		return e.newError(concatStr(concatStr(msg, ": "), e.errMsg(th, a[0])), a[0])
	}
	I["github.com/pkg/errors.WithStack"] = func(e *Exec, th *Thread, fn *ssa.Function, a []Value) Value { return a[0] }
	I["github.com/pkg/errors.Cause"] = func(e *Exec, th *Thread, fn *ssa.Function, a []Value) Value {
		cur, ok := a[0].(IfaceV)
		for ok && cur.t != nil {
			n, ok2 := e.unwrapErr(th, cur)
			if !ok2 || n.t == nil {
				return cur
			}
			cur = n
		}
		return a[0]
	}
	I["errors.Is"] = func(e *Exec, th *Thread, fn *ssa.Function, a []Value) Value { return e.errorsIs(th, a[0], a[1]) }
	I["github.com/pkg/errors.Is"] = I["errors.Is"]
	I["errors.As"] = func(e *Exec, th *Thread, fn *ssa.Function, a []Value) Value { return e.errorsAs(th, a[0], a[1], nil) }
	I["github.com/pkg/errors.As"] = I["errors.As"]
	I["errors.Unwrap"] = func(e *Exec, th *Thread, fn *ssa.Function, a []Value) Value {
		if iv, ok := a[0].(IfaceV); ok {
			if c, ok := e.unwrapErr(th, iv); ok {
				return c
			}
		}
		return IfaceV{}
	}
	I["errors.Join"] = func(e *Exec, th *Thread, fn *ssa.Function, a []Value) Value {
		var first Value
		var msg Value = ""
		for _, x := range sliceArg(a[0]) {
			if !isNilValue(x) {
				if first == nil {
					first = x
					msg = e.errMsg(th, x)
				} else {
					msg = concatStr(concatStr(msg, "\n"), e.errMsg(th, x))
				}
			}
		}
		if first == nil {
			return IfaceV{}
		}
		return e.newError(msg, first)
	}
	I["(*errors.errorString).Error"] = func(e *Exec, th *Thread, fn *ssa.Function, a []Value) Value {
		return (*(a[0].(*Value))).(StructV)[0]
	}
	I["(*fmt.wrapError).Error"] = I["(*errors.errorString).Error"]
	I["(*fmt.wrapError).Unwrap"] = func(e *Exec, th *Thread, fn *ssa.Function, a []Value) Value {
		return (*(a[0].(*Value))).(StructV)[1]
	}

	// ---- fmt ----
	I["fmt.Sprintf"] = func(e *Exec, th *Thread, fn *ssa.Function, a []Value) Value {
		return e.sprintf(th, e.goString(a[0], "Sprintf format"), sliceArgIface(a[1]))
	}
	I["fmt.Sprint"] = func(e *Exec, th *Thread, fn *ssa.Function, a []Value) Value {
		args := sliceArgIface(a[0])
		f := strings.Repeat("%v", len(args))
		return e.sprintf(th, f, args)
	}
	I["fmt.Println"] = func(e *Exec, th *Thread, fn *ssa.Function, a []Value) Value {
		return TupleV{e.intConst(64, 0), IfaceV{}}
	}
	I["fmt.Printf"] = I["fmt.Println"]
	I["fmt.Fprintf"] = I["fmt.Println"]

	// ---- strings / strconv / bytes (concrete evaluation) ----
	s1 := func(f func(string) string) intrinsicFn {
		return func(e *Exec, th *Thread, fn *ssa.Function, a []Value) Value { return f(e.goString(a[0], fn.Name())) }
	}
	s2b := func(f func(string, string) bool) intrinsicFn {
		return func(e *Exec, th *Thread, fn *ssa.Function, a []Value) Value {
			return e.ctx.Bool(f(e.goString(a[0], fn.Name()), e.goString(a[1], fn.Name())))
		}
	}
	s2s := func(f func(string, string) string) intrinsicFn {
		return func(e *Exec, th *Thread, fn *ssa.Function, a []Value) Value {
			return f(e.goString(a[0], fn.Name()), e.goString(a[1], fn.Name()))
		}
	}
	s2i := func(f func(string, string) int) intrinsicFn {
		return func(e *Exec, th *Thread, fn *ssa.Function, a []Value) Value {
			return e.intConst(64, int64(f(e.goString(a[0], fn.Name()), e.goString(a[1], fn.Name()))))
		}
	}
	I["strings.ToLower"] = s1(strings.ToLower)
	I["strings.ToUpper"] = s1(strings.ToUpper)
	I["strings.TrimSpace"] = s1(strings.TrimSpace)
	I["strings.Contains"] = s2b(strings.Contains)
	I["strings.HasPrefix"] = s2b(strings.HasPrefix)
	I["strings.HasSuffix"] = s2b(strings.HasSuffix)
	I["strings.EqualFold"] = s2b(strings.EqualFold)
	I["strings.TrimPrefix"] = s2s(strings.TrimPrefix)
	I["strings.TrimSuffix"] = s2s(strings.TrimSuffix)
	I["strings.Trim"] = s2s(strings.Trim)
	I["strings.Index"] = s2i(strings.Index)
	I["strings.LastIndex"] = s2i(strings.LastIndex)
	I["strings.Count"] = s2i(strings.Count)
	I["strings.TrimLeft"] = s2s(strings.TrimLeft)
	I["strings.TrimRight"] = s2s(strings.TrimRight)
	I["strings.ContainsAny"] = s2b(strings.ContainsAny)
	I["strings.IndexAny"] = s2i(strings.IndexAny)
	I["strings.LastIndexAny"] = s2i(strings.LastIndexAny)
	I["strings.Compare"] = s2i(strings.Compare)
	I["internal/bytealg.IndexString"] = s2i(strings.Index)
	I["internal/bytealg.CountString"] = func(e *Exec, th *Thread, fn *ssa.Function, a []Value) Value {
		return e.intConst(64, int64(strings.Count(e.goString(a[0], "CountString"), string([]byte{byte(e.concreteInt(a[1], "byte"))}))))
	}
	sByte := func(f func(string, byte) int) intrinsicFn {
		return func(e *Exec, th *Thread, fn *ssa.Function, a []Value) Value {
			return e.intConst(64, int64(f(e.goString(a[0], fn.Name()), byte(e.concreteInt(a[1], "byte")))))
		}
	}
	I["strings.IndexByte"] = sByte(strings.IndexByte)
	I["strings.LastIndexByte"] = sByte(strings.LastIndexByte)
	I["internal/bytealg.IndexByteString"] = sByte(strings.IndexByte)
	I["internal/bytealg.LastIndexByteString"] = sByte(strings.LastIndexByte)
	I["strings.IndexRune"] = func(e *Exec, th *Thread, fn *ssa.Function, a []Value) Value {
		return e.intConst(64, int64(strings.IndexRune(e.goString(a[0], "IndexRune"), rune(e.concreteInt(a[1], "rune")))))
	}
	I["strings.ContainsRune"] = func(e *Exec, th *Thread, fn *ssa.Function, a []Value) Value {
		return e.ctx.Bool(strings.ContainsRune(e.goString(a[0], "ContainsRune"), rune(e.concreteInt(a[1], "rune"))))
	}
	I["strings.Repeat"] = func(e *Exec, th *Thread, fn *ssa.Function, a []Value) Value {
		return strings.Repeat(e.goString(a[0], "Repeat"), e.concreteInt(a[1], "count"))
	}
	I["strings.Cut"] = func(e *Exec, th *Thread, fn *ssa.Function, a []Value) Value {
		b, af, ok := strings.Cut(e.goString(a[0], "Cut"), e.goString(a[1], "Cut"))
		return TupleV{b, af, e.ctx.Bool(ok)}
	}
	I["strings.CutPrefix"] = func(e *Exec, th *Thread, fn *ssa.Function, a []Value) Value {
		r, ok := strings.CutPrefix(e.goString(a[0], "CutPrefix"), e.goString(a[1], "CutPrefix"))
		return TupleV{r, e.ctx.Bool(ok)}
	}
	I["strings.CutSuffix"] = func(e *Exec, th *Thread, fn *ssa.Function, a []Value) Value {
		r, ok := strings.CutSuffix(e.goString(a[0], "CutSuffix"), e.goString(a[1], "CutSuffix"))
		return TupleV{r, e.ctx.Bool(ok)}
	}
	I["strings.Fields"] = func(e *Exec, th *Thread, fn *ssa.Function, a []Value) Value {
		return e.strSlice(strings.Fields(e.goString(a[0], "Fields")))
	}
	I["strings.SplitN"] = func(e *Exec, th *Thread, fn *ssa.Function, a []Value) Value {
		return e.strSlice(strings.SplitN(e.goString(a[0], "SplitN"), e.goString(a[1], "SplitN"), e.concreteInt(a[2], "n")))
	}
	I["strings.SplitAfter"] = func(e *Exec, th *Thread, fn *ssa.Function, a []Value) Value {
		return e.strSlice(strings.SplitAfter(e.goString(a[0], "SplitAfter"), e.goString(a[1], "SplitAfter")))
	}
	I["strings.Split"] = func(e *Exec, th *Thread, fn *ssa.Function, a []Value) Value {
		return e.strSlice(strings.Split(e.goString(a[0], "Split"), e.goString(a[1], "Split")))
	}
	I["strings.Join"] = func(e *Exec, th *Thread, fn *ssa.Function, a []Value) Value {
		var ss []string
		for _, x := range sliceArg(a[0]) {
			ss = append(ss, e.goString(x, "Join"))
		}
		return strings.Join(ss, e.goString(a[1], "Join"))
	}
	I["strings.ReplaceAll"] = func(e *Exec, th *Thread, fn *ssa.Function, a []Value) Value {
		return strings.ReplaceAll(e.goString(a[0], "ReplaceAll"), e.goString(a[1], "ReplaceAll"), e.goString(a[2], "ReplaceAll"))
	}
	I["strings.Replace"] = func(e *Exec, th *Thread, fn *ssa.Function, a []Value) Value {
		return strings.Replace(e.goString(a[0], "Replace"), e.goString(a[1], "Replace"), e.goString(a[2], "Replace"), e.concreteInt(a[3], "Replace n"))
	}
	I["strconv.Itoa"] = func(e *Exec, th *Thread, fn *ssa.Function, a []Value) Value {
		t := a[0].(*Term)
		if !t.IsConst() {
			return &SymStr{parts: []interface{}{symPart{verb: "%d", t: t}}}
		}
		return strconv.Itoa(int(t.Int64()))
	}
	// uint256 decimal rendering (used for log fields and span attributes only): the
	// real code formats word by word through strconv, one fork per digit
	u256dec := func(e *Exec, th *Thread, fn *ssa.Function, a []Value) Value {
		p, _ := a[0].(*Value)
		if p != nil {
			if arr, ok := (*p).(ArrayV); ok && len(arr) == 4 {
				allc := true
				v := new(big.Int)
				for i := 3; i >= 0; i-- {
					t, ok := arr[i].(*Term)
					if !ok || !t.IsConst() {
						allc = false
						break
					}
					v.Lsh(v, 64)
					v.Or(v, new(big.Int).SetUint64(t.Uint64()))
				}
				if allc {
					return v.String()
				}
				if t, ok := arr[0].(*Term); ok {
					return &SymStr{parts: []interface{}{"u256:", symPart{verb: "%d", t: t, uns: true}}}
				}
			}
		}
		return "<uint256>"
	}
	I["(*github.com/holiman/uint256.Int).Dec"] = u256dec
	I["(*github.com/holiman/uint256.Int).PrettyDec"] = u256dec
	I["(*github.com/holiman/uint256.Int).String"] = u256dec
	I["strconv.FormatInt"] = func(e *Exec, th *Thread, fn *ssa.Function, a []Value) Value {
		t := a[0].(*Term)
		if !t.IsConst() {
			return &SymStr{parts: []interface{}{symPart{verb: "%d", t: t}}}
		}
		return strconv.FormatInt(t.Int64(), e.concreteInt(a[1], "base"))
	}
	I["strconv.FormatUint"] = func(e *Exec, th *Thread, fn *ssa.Function, a []Value) Value {
		t := a[0].(*Term)
		if !t.IsConst() {
			return &SymStr{parts: []interface{}{symPart{verb: "%d", t: t, uns: true}}}
		}
		return strconv.FormatUint(t.Uint64(), e.concreteInt(a[1], "base"))
	}
	// the decimal text of a symbolic integer parses back to that integer
	symDecimal := func(v Value) (symPart, bool) {
		ss, ok := v.(*SymStr)
		if !ok || len(ss.parts) != 1 {
			return symPart{}, false
		}
		p, ok := ss.parts[0].(symPart)
		if !ok || p.verb != "%d" || !(p.t.sort.K == SBV && p.t.sort.W == 64 || p.t.sort.K == SInt) {
			return symPart{}, false
		}
		return p, true
	}
	rangeErr := func(e *Exec, what string) Value {
		return e.newError("strconv."+what+": parsing symbolic decimal: value out of range or invalid syntax", nil)
	}
	I["strconv.ParseUint"] = func(e *Exec, th *Thread, fn *ssa.Function, a []Value) Value {
		if p, ok := symDecimal(a[0]); ok && e.concreteInt(a[1], "base") == 10 && e.concreteInt(a[2], "bits") == 64 {
			if !p.uns && e.branch(e.ctx.SLt(p.t, e.intConst(64, 0))) {
				return TupleV{e.intConst(64, 0), rangeErr(e, "ParseUint")} // a leading minus sign
			}
			return TupleV{p.t, IfaceV{}}
		}
		v, err := strconv.ParseUint(e.goString(a[0], "ParseUint"), e.concreteInt(a[1], "base"), e.concreteInt(a[2], "bits"))
		if err != nil {
			return TupleV{e.ctx.BVConstU(64, v), e.newError(err.Error(), nil)}
		}
		return TupleV{e.ctx.BVConstU(64, v), IfaceV{}}
	}
	I["strconv.ParseInt"] = func(e *Exec, th *Thread, fn *ssa.Function, a []Value) Value {
		if p, ok := symDecimal(a[0]); ok && e.concreteInt(a[1], "base") == 10 && e.concreteInt(a[2], "bits") == 64 {
			if p.uns && p.t.sort.K == SBV && e.branch(e.ctx.SLt(p.t, e.intConst(64, 0))) {
				return TupleV{e.intConst(64, 1<<63-1), rangeErr(e, "ParseInt")} // above MaxInt64
			}
			if p.uns && p.t.sort.K == SInt && e.branch(e.ctx.SLt(e.intConst(64, 1<<63-1), p.t)) {
				return TupleV{e.intConst(64, 1<<63-1), rangeErr(e, "ParseInt")} // above MaxInt64
			}
			return TupleV{p.t, IfaceV{}}
		}
		v, err := strconv.ParseInt(e.goString(a[0], "ParseInt"), e.concreteInt(a[1], "base"), e.concreteInt(a[2], "bits"))
		if err != nil {
			return TupleV{e.ctx.BVConst(64, v), e.newError(err.Error(), nil)}
		}
		return TupleV{e.ctx.BVConst(64, v), IfaceV{}}
	}
	I["bytes.Equal"] = func(e *Exec, th *Thread, fn *ssa.Function, a []Value) Value {
		x, y := sliceArg(a[0]), sliceArg(a[1])
		if len(x) != len(y) {
			return e.ctx.False
		}
		r := e.ctx.True
		for i := range x {
			r = e.ctx.And(r, e.eqVal(x[i], y[i]))
		}
		return r
	}
	I["bytes.ReplaceAll"] = func(e *Exec, th *Thread, fn *ssa.Function, a []Value) Value {
		s, ok1 := e.concreteBytes(a[0])
		o, ok2 := e.concreteBytes(a[1])
		n, ok3 := e.concreteBytes(a[2])
		if !ok1 || !ok2 || !ok3 {
			panic(pathAbort{"error", "bytes.ReplaceAll on symbolic content"})
		}
		return e.bytesValue(bytes.ReplaceAll(s, o, n))
	}
	I["bytes.Contains"] = func(e *Exec, th *Thread, fn *ssa.Function, a []Value) Value {
		s, ok1 := e.concreteBytes(a[0])
		o, ok2 := e.concreteBytes(a[1])
		if !ok1 || !ok2 {
			panic(pathAbort{"error", "bytes.Contains on symbolic content"})
		}
		return e.ctx.Bool(bytes.Contains(s, o))
	}
	I["math.Abs"] = func(e *Exec, th *Thread, fn *ssa.Function, a []Value) Value {
		t := a[0].(*Term)
		if t.op == "fpconst" {
			return e.fpConst(math.Abs(f64frombits(t.c.Uint64())))
		}
		if t.sort.K == SReal {
			return e.rAbs(t)
		}
		return e.ctx.mk("fp.abs", FPSort, t)
	}
	// BLS (herumi, cgo) cannot be interpreted: keys and signatures are opaque handles and
	// the outcome of a verification is a fresh symbolic boolean that the harness can read
	// back (vnd.BLSVerifyCalls / BLSVerifyResult): what is decided is whether the code
	// consults the verification and obeys it, not the pairing arithmetic.
	const e2t = "github.com/wealdtech/go-eth2-types/v2."
	I[e2t+"BLSPublicKeyFromBytes"] = func(e *Exec, th *Thread, fn *ssa.Function, a []Value) Value {
		rt := fn.Signature.Results().At(0).Type()
		if len(sliceArg(a[0])) != 48 {
			return TupleV{e.zero(rt), e.newError("public key must be 48 bytes", nil)}
		}
		if bs, ok := e.concreteBytes(SliceV(sliceArg(a[0]))); ok && e.blsInvalid[string(bs)] {
			// 48 bytes that are not a point of the curve (declared so by the harness: vnd.BLSInvalidKey)
			return TupleV{e.zero(rt), e.newError("failed to deserialize public key: err blsPublicKeyDeserialize", nil)}
		}
		var cell Value = e.zero(rt.(*types.Pointer).Elem())
		return TupleV{&cell, IfaceV{}}
	}
	I[e2t+"BLSSignatureFromBytes"] = func(e *Exec, th *Thread, fn *ssa.Function, a []Value) Value {
		st := e.P.prog.ImportedPackage("github.com/wealdtech/go-eth2-types/v2").Type("BLSSignature").Type()
		var cell Value = e.zero(st)
		return TupleV{IfaceV{t: types.NewPointer(st), v: &cell}, IfaceV{}}
	}
	I["(*"+e2t+"BLSSignature).Verify"] = func(e *Exec, th *Thread, fn *ssa.Function, a []Value) Value {
		if isNilValue(a[0]) || isNilValue(a[2]) {
			panic(goPanic{msg: "invalid memory address or nil pointer dereference (BLS signature verification with a nil signature or public key)"})
		}
		r := e.ctx.Var(fmt.Sprintf("bls.verify#%d", len(e.blsVerifies)), BoolSort)
		e.blsVerifies = append(e.blsVerifies, r)
		return r
	}
	I["encoding/hex.DecodeString"] = func(e *Exec, th *Thread, fn *ssa.Function, a []Value) Value {
		b, err := hex.DecodeString(e.goString(a[0], "hex.DecodeString"))
		if err != nil {
			return TupleV{e.bytesValue(b), e.newError(err.Error(), nil)}
		}
		return TupleV{e.bytesValue(b), IfaceV{}}
	}
	I["encoding/hex.EncodeToString"] = func(e *Exec, th *Thread, fn *ssa.Function, a []Value) Value {
		return e.sprintf(th, "%x", []Value{a[0]})
	}

	// ---- sort ----
	I["sort.Slice"] = func(e *Exec, th *Thread, fn *ssa.Function, a []Value) Value {
		s := a[0].(IfaceV).v.(SliceV)
		less := a[1]
		// insertion sort calling the real less closure (indices refer to the live slice)
		for i := 1; i < len(s); i++ {
			for j := i; j > 0; j-- {
				r := e.callSync(th, less, []Value{e.intConst(64, int64(j)), e.intConst(64, int64(j-1))}).(*Term)
				if !e.branch(r) {
					break
				}
				s[j], s[j-1] = s[j-1], s[j]
			}
		}
		return nil
	}
	I["sort.SliceStable"] = I["sort.Slice"]
	I["sort.Strings"] = func(e *Exec, th *Thread, fn *ssa.Function, a []Value) Value {
		s := a[0].(SliceV)
		ss := make([]string, len(s))
		for i := range s {
			ss[i] = e.goString(s[i], "sort.Strings")
		}
		sort.Strings(ss)
		for i := range s {
			s[i] = ss[i]
		}
		return nil
	}

	// ---- crypto ----
	I["crypto/sha256.Sum256"] = func(e *Exec, th *Thread, fn *ssa.Function, a []Value) Value {
		return e.hashUF("sha256", sliceArg(a[0]), 32)
	}

	I["crypto/sha256.New"] = func(e *Exec, th *Thread, fn *ssa.Function, a []Value) Value {
		p := e.P.prog.ImportedPackage("crypto/sha256")
		return IfaceV{t: types.NewPointer(p.Type("digest").Type()), v: &HashV{name: "sha256", size: 32}}
	}
	// ---- math/big minimal: handled through SSA (pure Go paths) ----

	// ---- runtime ----
	I["runtime.GOMAXPROCS"] = func(e *Exec, th *Thread, fn *ssa.Function, a []Value) Value {
		return e.intConst(64, int64(e.gomaxprocs))
	}
	I["runtime.Gosched"] = func(e *Exec, th *Thread, fn *ssa.Function, a []Value) Value { return nil }
	I["runtime.KeepAlive"] = func(e *Exec, th *Thread, fn *ssa.Function, a []Value) Value { return nil }

	// ---- math/rand ----
	I["math/rand.Intn"] = func(e *Exec, th *Thread, fn *ssa.Function, a []Value) Value {
		n := a[0].(*Term)
		v := e.ctx.Fresh("rand", BV(64))
		e.assume(e.ctx.SLe(e.ctx.BVConst(64, 0), v))
		e.assume(e.ctx.SLt(v, n))
		return v
	}
	I["math/rand.Int63n"] = I["math/rand.Intn"]
	I["math/rand.Int31"] = func(e *Exec, th *Thread, fn *ssa.Function, a []Value) Value { return e.ctx.BVConst(32, 7) }
	I["math/rand.Int63"] = func(e *Exec, th *Thread, fn *ssa.Function, a []Value) Value { return e.ctx.BVConst(64, 7) }

	// ---- encoding/json: reflection-driven, not encodable. Marshal is only used
	// for log output in the code under test: it yields an opaque document.
	I["encoding/json.Marshal"] = func(e *Exec, th *Thread, fn *ssa.Function, a []Value) Value {
		return TupleV{e.bytesValue([]byte("{}")), IfaceV{}}
	}
	// ---- math/bits: table lookups replaced by ite chains over the bits ----
	bitLen := func(w int) intrinsicFn {
		return func(e *Exec, th *Thread, fn *ssa.Function, a []Value) Value {
			c := e.ctx
			x := a[0].(*Term)
			r := c.BVConst(64, 0)
			for i := 0; i < w; i++ {
				bit := c.Eq(c.Extract(i, i, x), c.BVConst(1, 1))
				r = c.Ite(bit, c.BVConst(64, int64(i+1)), r)
			}
			return r
		}
	}
	I["math/bits.Len8"] = bitLen(8)
	I["math/bits.Len16"] = bitLen(16)
	I["math/bits.Len32"] = bitLen(32)
	I["math/bits.Len64"] = bitLen(64)
	I["math/bits.Len"] = bitLen(64)
	onesCount := func(w int) intrinsicFn {
		return func(e *Exec, th *Thread, fn *ssa.Function, a []Value) Value {
			c := e.ctx
			x := a[0].(*Term)
			r := c.BVConst(64, 0)
			for i := 0; i < w; i++ {
				r = c.Add(r, c.ZExt(c.Extract(i, i, x), 64))
			}
			return r
		}
	}
	I["math/bits.OnesCount8"] = onesCount(8)
	I["math/bits.OnesCount16"] = onesCount(16)
	I["math/bits.OnesCount32"] = onesCount(32)
	I["math/bits.OnesCount64"] = onesCount(64)
	I["math/bits.OnesCount"] = onesCount(64)
	trailing := func(w int) intrinsicFn {
		return func(e *Exec, th *Thread, fn *ssa.Function, a []Value) Value {
			c := e.ctx
			x := a[0].(*Term)
			r := c.BVConst(64, int64(w))
			for i := w - 1; i >= 0; i-- {
				bit := c.Eq(c.Extract(i, i, x), c.BVConst(1, 1))
				r = c.Ite(bit, c.BVConst(64, int64(i)), r)
			}
			return r
		}
	}
	I["math/bits.TrailingZeros8"] = trailing(8)
	I["math/bits.TrailingZeros32"] = trailing(32)
	I["math/bits.TrailingZeros64"] = trailing(64)
	I["math/bits.TrailingZeros"] = trailing(64)
	leading := func(w int) intrinsicFn {
		return func(e *Exec, th *Thread, fn *ssa.Function, a []Value) Value {
			l := bitLen(w)(e, th, fn, a).(*Term)
			return e.ctx.Sub(e.ctx.BVConst(64, int64(w)), l)
		}
	}
	I["math/bits.LeadingZeros8"] = leading(8)
	I["math/bits.LeadingZeros32"] = leading(32)
	I["math/bits.LeadingZeros64"] = leading(64)
	I["math/bits.LeadingZeros"] = leading(64)

	// ---- regexp: not encodable; compiled expressions are opaque handles that
	// remember their source (harness redirects may give them meaning) ----
	I["regexp.MustCompile"] = func(e *Exec, th *Thread, fn *ssa.Function, a []Value) Value {
		var cell Value = e.zero(fn.Signature.Results().At(0).Type().(*types.Pointer).Elem())
		p := &cell
		e.regexps[p] = e.goString(a[0], "regexp source")
		return p
	}
	I["regexp.Compile"] = func(e *Exec, th *Thread, fn *ssa.Function, a []Value) Value {
		if src, ok := a[0].(string); ok {
			if _, err := regexp.Compile(src); err != nil {
				return TupleV{e.zero(fn.Signature.Results().At(0).Type()), e.newError("error parsing regexp: "+err.Error(), nil)}
			}
		}
		var cell Value = e.zero(fn.Signature.Results().At(0).Type().(*types.Pointer).Elem())
		p := &cell
		e.regexps[p] = e.goString(a[0], "regexp source")
		return TupleV{p, IfaceV{}}
	}
	// matching a concrete subject against a concrete expression is decided by the
	// real regexp package (no symbolic strings reach it; goString refuses them)
	I["(*regexp.Regexp).MatchString"] = func(e *Exec, th *Thread, fn *ssa.Function, a []Value) Value {
		src := e.goString(e.regexps[a[0].(*Value)], "regexp source")
		re, err := regexp.Compile(src)
		if err != nil {
			panic(pathAbort{"error", "regexp model: handle with uncompilable source " + src})
		}
		return e.ctx.Bool(re.MatchString(e.goString(a[1], "regexp subject")))
	}
	I["(*regexp.Regexp).String"] = func(e *Exec, th *Thread, fn *ssa.Function, a []Value) Value {
		return e.regexps[a[0].(*Value)]
	}

	registerSync()
	registerTime()
}

func sliceArgIface(v Value) []Value {
	s, _ := v.(SliceV)
	return s
}

var _ = big.NewInt
