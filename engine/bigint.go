package main

// math/big.Int modelled with SMT Int terms: the value of a *big.Int lives in a
// side table keyed by the address of the big.Int struct (math/big's arithmetic
// kernels are assembly and cannot be interpreted from SSA).

import (
	"fmt"
	"math/big"

	"golang.org/x/tools/go/ssa"
)

const bigW = 128 // math/big values are modelled as signed 128-bit vectors (range obligations below)

// toBig widens an integer bit-vector to the big-number width.
func (e *Exec) toBig(t *Term, signed bool) *Term {
	if t.sort.K == SInt {
		// Int mode: only constants cross into the bit-vector model of math/big
		if !t.IsConst() {
			panic(pathAbort{"error", "math/big on a symbolic integer is not modelled in Int mode"})
		}
		return e.ctx.Const(BV(bigW), t.c)
	}
	if signed {
		return e.ctx.SExt(t, bigW)
	}
	return e.ctx.ZExt(t, bigW)
}

// bigRange obliges |t| < 2^100 so that no modelled operation can wrap at 128 bits.
func (e *Exec) bigRange(t *Term, what string) *Term {
	c := e.ctx
	lim := c.Const(BV(bigW), new(big.Int).Lsh(one, 100))
	ok := c.And(c.SLt(c.Neg(lim), t), c.SLt(t, lim))
	if ok.IsTrue() {
		return t
	}
	if e.feasible(c.Not(ok)) != Unsat {
		panic(pathAbort{"bound", "math/big model: value may leave the 2^100 range in " + what})
	}
	return t
}

func (e *Exec) bigVal(v Value) *Term {
	p, _ := v.(*Value)
	if p == nil {
		panic(goPanic{msg: "invalid memory address or nil pointer dereference (nil *big.Int)"})
	}
	if t, ok := e.bigs[p]; ok {
		return t
	}
	return e.ctx.BVConst(bigW, 0)
}

func (e *Exec) bigSet(v Value, t *Term) Value {
	p, _ := v.(*Value)
	if p == nil {
		panic(goPanic{msg: "invalid memory address or nil pointer dereference (nil *big.Int)"})
	}
	e.bigs[p] = t
	return p
}

func (e *Exec) newBig(fn *ssa.Function, t *Term) *Value {
	p := e.P.prog.ImportedPackage("math/big")
	var cell Value = e.zero(p.Type("Int").Type())
	ptr := &cell
	e.bigs[ptr] = t
	return ptr
}

func (e *Exec) bigCmpTerm(a, b *Term) *Term {
	c := e.ctx
	return c.Ite(c.SLt(a, b), c.BVConst(64, -1), c.Ite(c.Eq(a, b), c.BVConst(64, 0), c.BVConst(64, 1)))
}

func init() {
	I := intrinsics
	const B = "(*math/big.Int)."
	I["math/big.NewInt"] = func(e *Exec, th *Thread, fn *ssa.Function, a []Value) Value {
		return e.newBig(fn, e.toBig(a[0].(*Term), true))
	}
	I[B+"Set"] = func(e *Exec, th *Thread, fn *ssa.Function, a []Value) Value { return e.bigSet(a[0], e.bigVal(a[1])) }
	I[B+"SetInt64"] = func(e *Exec, th *Thread, fn *ssa.Function, a []Value) Value {
		return e.bigSet(a[0], e.toBig(a[1].(*Term), true))
	}
	I[B+"SetUint64"] = func(e *Exec, th *Thread, fn *ssa.Function, a []Value) Value {
		return e.bigSet(a[0], e.toBig(a[1].(*Term), false))
	}
	I[B+"SetBytes"] = func(e *Exec, th *Thread, fn *ssa.Function, a []Value) Value {
		bs, ok := e.concreteBytes(a[1])
		if !ok {
			panic(pathAbort{"error", "big.Int.SetBytes on symbolic bytes is not modelled"})
		}
		v := new(big.Int).SetBytes(bs)
		if v.BitLen() > 100 {
			// outside the modelled range: an unconstrained value, so that any use of
			// it fails the range obligation instead of computing with a wrong number
			e.bigHuge++
			return e.bigSet(a[0], e.ctx.Var(fmt.Sprintf("big.huge#%d", e.bigHuge), BV(bigW)))
		}
		return e.bigSet(a[0], e.ctx.Const(BV(bigW), v))
	}
	I[B+"Bits"] = func(e *Exec, th *Thread, fn *ssa.Function, a []Value) Value { return SliceV(nil) }
	I[B+"SetBits"] = func(e *Exec, th *Thread, fn *ssa.Function, a []Value) Value {
		c := e.ctx
		words := sliceArg(a[1])
		// little-endian 64-bit words; everything above 2^100 must be zero
		val := c.BVConst(bigW, 0)
		for i, w := range words {
			t := w.(*Term)
			switch {
			case i == 0:
				val = c.ZExt(t, bigW)
			case i == 1:
				val = c.BOr(val, c.Shl(c.ZExt(t, bigW), c.BVConst(bigW, 64)))
			default:
				if !t.IsConst() || t.c.Sign() != 0 {
					if e.feasible(c.Not(c.Eq(t, c.BVConst(64, 0)))) != Unsat {
						panic(pathAbort{"bound", "math/big model: value above 2^128"})
					}
				}
			}
		}
		return e.bigSet(a[0], e.bigRange(val, "SetBits"))
	}
	bin := func(op string) intrinsicFn {
		return func(e *Exec, th *Thread, fn *ssa.Function, a []Value) Value {
			c := e.ctx
			x, y := e.bigVal(a[1]), e.bigVal(a[2])
			var r *Term
			switch op {
			case "+":
				r = c.Add(x, y)
			case "-":
				r = c.Sub(x, y)
			case "*":
				r = c.Mul(x, y)
			case "div", "mod":
				if e.branch(c.Eq(y, c.BVConst(bigW, 0))) {
					panic(goPanic{msg: "division by zero"})
				}
				// Euclidean division (big.Int.Div/Mod); modelled for a positive divisor
				if !e.branch(c.SLt(c.BVConst(bigW, 0), y)) {
					panic(pathAbort{"error", "big.Int.Div with a negative divisor is not modelled"})
				}
				q := c.SDiv(x, y) // truncated
				rem := c.SRem(x, y)
				adj := c.SLt(rem, c.BVConst(bigW, 0))
				if op == "div" {
					r = c.Ite(adj, c.Sub(q, c.BVConst(bigW, 1)), q)
				} else {
					r = c.Ite(adj, c.Add(rem, y), rem)
				}
			}
			return e.bigSet(a[0], e.bigRange(r, "big.Int."+op))
		}
	}
	I[B+"Add"] = bin("+")
	I[B+"Sub"] = bin("-")
	I[B+"Mul"] = bin("*")
	I[B+"Div"] = bin("div")
	I[B+"Mod"] = bin("mod")
	I[B+"Quo"] = func(e *Exec, th *Thread, fn *ssa.Function, a []Value) Value {
		c := e.ctx
		x, y := e.bigVal(a[1]), e.bigVal(a[2])
		if e.branch(c.Eq(y, c.BVConst(bigW, 0))) {
			panic(goPanic{msg: "division by zero"})
		}
		return e.bigSet(a[0], c.SDiv(x, y))
	}
	I[B+"Neg"] = func(e *Exec, th *Thread, fn *ssa.Function, a []Value) Value {
		return e.bigSet(a[0], e.ctx.Neg(e.bigVal(a[1])))
	}
	I[B+"Cmp"] = func(e *Exec, th *Thread, fn *ssa.Function, a []Value) Value {
		return e.bigCmpTerm(e.bigVal(a[0]), e.bigVal(a[1]))
	}
	I[B+"Sign"] = func(e *Exec, th *Thread, fn *ssa.Function, a []Value) Value {
		return e.bigCmpTerm(e.bigVal(a[0]), e.ctx.BVConst(bigW, 0))
	}
	I[B+"IsUint64"] = func(e *Exec, th *Thread, fn *ssa.Function, a []Value) Value {
		c := e.ctx
		x := e.bigVal(a[0])
		return c.And(c.SLe(c.BVConst(bigW, 0), x), c.SLe(x, c.Const(BV(bigW), mask(64))))
	}
	I[B+"Uint64"] = func(e *Exec, th *Thread, fn *ssa.Function, a []Value) Value {
		return e.ctx.Extract(63, 0, e.bigVal(a[0]))
	}
	I[B+"Int64"] = I[B+"Uint64"]
	str := func(e *Exec, th *Thread, fn *ssa.Function, a []Value) Value {
		p, _ := a[0].(*Value)
		if p == nil {
			return "<nil>"
		}
		x := e.bigVal(a[0])
		if x.IsConst() {
			return x.Signed().String()
		}
		return &SymStr{parts: []interface{}{symPart{verb: "%d", t: x}}}
	}
	I[B+"String"] = str
	I[B+"Text"] = str
	I[B+"SetString"] = func(e *Exec, th *Thread, fn *ssa.Function, a []Value) Value {
		v, ok := new(big.Int).SetString(e.goString(a[1], "big.SetString"), e.concreteInt(a[2], "base"))
		if !ok || v.BitLen() > 100 {
			return TupleV{(*Value)(nil), e.ctx.False}
		}
		return TupleV{e.bigSet(a[0], e.ctx.Const(BV(bigW), v)), e.ctx.True}
	}
	_ = fmt.Sprint
}
