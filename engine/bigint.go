package main

// math/big.Int modelled with SMT Int terms: the value of a *big.Int lives in a
// side table keyed by the address of the big.Int struct (math/big's arithmetic
// kernels are assembly and cannot be interpreted from SSA).

import (
	"fmt"
	"go/types"
	"math"
	"math/big"
	"reflect"
	"strconv"
	"strings"

	"golang.org/x/tools/go/ssa"
)

const bigW = 128 // math/big values are modelled as signed 128-bit vectors (range obligations below)

// toBig widens an integer bit-vector to the big-number width.
func (e *Exec) toBig(t *Term, signed bool) *Term {
	if t.sort.K == SInt {
		// Int mode: only constants cross into the bit-vector model of math/big
		if !t.IsConst() {
			panic(pathAbort{"error", "math/big on a symbolic integer is not modelled in Int mode"})
		}
		return e.ctx.Const(BV(bigW), t.c)
	}
	if signed {
		return e.ctx.SExt(t, bigW)
	}
	return e.ctx.ZExt(t, bigW)
}

// bigRange obliges |t| < 2^100 so that no modelled operation can wrap at 128 bits.
func (e *Exec) bigRange(t *Term, what string) *Term {
	c := e.ctx
	lim := c.Const(BV(bigW), new(big.Int).Lsh(one, 100))
	ok := c.And(c.SLt(c.Neg(lim), t), c.SLt(t, lim))
	if ok.IsTrue() {
		return t
	}
	if e.feasible(c.Not(ok)) != Unsat {
		panic(pathAbort{"bound", "math/big model: value may leave the 2^100 range in " + what})
	}
	return t
}

// BigV is the modelled value of a big.Int; it sits in the struct's second field
// (where the real struct holds its magnitude), so copying a big.Int by value
// (`aa = *d.value`, as shopspring/decimal does) copies the number with it.
// n, when set, is the exact value of a constant too large for the 128-bit model
// (t is then an unconstrained stand-in whose use fails the range obligation);
// arithmetic between constants is done exactly by the real math/big.
type BigV struct {
	t *Term
	n *big.Int
}

func (e *Exec) bigVal(v Value) *Term {
	p, _ := v.(*Value)
	if p == nil {
		panic(goPanic{msg: "invalid memory address or nil pointer dereference (nil *big.Int)"})
	}
	if s, ok := (*p).(StructV); ok && len(s) == 2 {
		if b, ok := s[1].(BigV); ok {
			return b.t
		}
	}
	return e.ctx.BVConst(bigW, 0)
}

func (e *Exec) bigSet(v Value, t *Term) Value {
	p, _ := v.(*Value)
	if p == nil {
		panic(goPanic{msg: "invalid memory address or nil pointer dereference (nil *big.Int)"})
	}
	s, ok := (*p).(StructV)
	if !ok || len(s) != 2 {
		panic(pathAbort{"error", "math/big model: not a big.Int cell"})
	}
	s[1] = BigV{t: t}
	return p
}

// bigConst is the exact value of a big.Int cell if it is a constant.
func (e *Exec) bigConst(p *Value) (*big.Int, bool) {
	if s, ok := (*p).(StructV); ok && len(s) == 2 {
		if b, ok := s[1].(BigV); ok {
			if b.n != nil {
				return new(big.Int).Set(b.n), true
			}
			if b.t.IsConst() {
				return new(big.Int).Set(b.t.Signed()), true
			}
			return nil, false
		}
	}
	return new(big.Int), true // zero value
}

func (e *Exec) bigSetNative(p *Value, n *big.Int) {
	s, ok := (*p).(StructV)
	if !ok || len(s) != 2 {
		panic(pathAbort{"error", "math/big model: not a big.Int cell"})
	}
	if n.BitLen() > 100 {
		e.bigHuge++
		s[1] = BigV{t: e.ctx.Var(fmt.Sprintf("big.huge#%d", e.bigHuge), BV(bigW)), n: new(big.Int).Set(n)}
		return
	}
	s[1] = BigV{t: e.ctx.Const(BV(bigW), n)}
}

func (e *Exec) newBig(fn *ssa.Function, t *Term) *Value {
	p := e.P.prog.ImportedPackage("math/big")
	var cell Value = e.zero(p.Type("Int").Type())
	ptr := &cell
	e.bigSet(ptr, t)
	return ptr
}

func (e *Exec) bigCmpTerm(a, b *Term) *Term {
	c := e.ctx
	return c.Ite(c.SLt(a, b), c.BVConst(64, -1), c.Ite(c.Eq(a, b), c.BVConst(64, 0), c.BVConst(64, 1)))
}

func init() {
	I := intrinsics
	const B = "(*math/big.Int)."
	I["math/big.NewInt"] = func(e *Exec, th *Thread, fn *ssa.Function, a []Value) Value {
		return e.newBig(fn, e.toBig(a[0].(*Term), true))
	}
	I[B+"Set"] = func(e *Exec, th *Thread, fn *ssa.Function, a []Value) Value { return e.bigSet(a[0], e.bigVal(a[1])) }
	I[B+"SetInt64"] = func(e *Exec, th *Thread, fn *ssa.Function, a []Value) Value {
		return e.bigSet(a[0], e.toBig(a[1].(*Term), true))
	}
	I[B+"SetUint64"] = func(e *Exec, th *Thread, fn *ssa.Function, a []Value) Value {
		return e.bigSet(a[0], e.toBig(a[1].(*Term), false))
	}
	I[B+"SetBytes"] = func(e *Exec, th *Thread, fn *ssa.Function, a []Value) Value {
		bs, ok := e.concreteBytes(a[1])
		if !ok {
			panic(pathAbort{"error", "big.Int.SetBytes on symbolic bytes is not modelled"})
		}
		v := new(big.Int).SetBytes(bs)
		e.bigSetNative(a[0].(*Value), v)
		return a[0]
	}
	// Float64: nearest float64 (the accuracy result is reported as Exact; vouch discards it)
	I[B+"Float64"] = func(e *Exec, th *Thread, fn *ssa.Function, a []Value) Value {
		v := e.bigVal(a[0])
		acc := e.ctx.BVConst(8, 0)
		if v.IsConst() {
			f, _ := new(big.Float).SetInt(v.Signed()).Float64()
			return TupleV{e.ctx.FPConst(f), acc}
		}
		return TupleV{e.ctx.FPFromBV(v, true), acc}
	}
	I[B+"Bits"] = func(e *Exec, th *Thread, fn *ssa.Function, a []Value) Value { return SliceV(nil) }
	I[B+"SetBits"] = func(e *Exec, th *Thread, fn *ssa.Function, a []Value) Value {
		c := e.ctx
		words := sliceArg(a[1])
		// little-endian 64-bit words; everything above 2^100 must be zero
		val := c.BVConst(bigW, 0)
		for i, w := range words {
			t := w.(*Term)
			switch {
			case i == 0:
				val = c.ZExt(t, bigW)
			case i == 1:
				val = c.BOr(val, c.Shl(c.ZExt(t, bigW), c.BVConst(bigW, 64)))
			default:
				if !t.IsConst() || t.c.Sign() != 0 {
					if e.feasible(c.Not(c.Eq(t, c.BVConst(64, 0)))) != Unsat {
						panic(pathAbort{"bound", "math/big model: value above 2^128"})
					}
				}
			}
		}
		return e.bigSet(a[0], e.bigRange(val, "SetBits"))
	}
	bin := func(op string) intrinsicFn {
		return func(e *Exec, th *Thread, fn *ssa.Function, a []Value) Value {
			c := e.ctx
			x, y := e.bigVal(a[1]), e.bigVal(a[2])
			var r *Term
			switch op {
			case "+":
				r = c.Add(x, y)
			case "-":
				r = c.Sub(x, y)
			case "*":
				r = c.Mul(x, y)
			case "div", "mod":
				if e.branch(c.Eq(y, c.BVConst(bigW, 0))) {
					panic(goPanic{msg: "division by zero"})
				}
				// Euclidean division (big.Int.Div/Mod); modelled for a positive divisor
				if !e.branch(c.SLt(c.BVConst(bigW, 0), y)) {
					panic(pathAbort{"error", "big.Int.Div with a negative divisor is not modelled"})
				}
				q := c.SDiv(x, y) // truncated
				rem := c.SRem(x, y)
				adj := c.SLt(rem, c.BVConst(bigW, 0))
				if op == "div" {
					r = c.Ite(adj, c.Sub(q, c.BVConst(bigW, 1)), q)
				} else {
					r = c.Ite(adj, c.Add(rem, y), rem)
				}
			}
			return e.bigSet(a[0], e.bigRange(r, "big.Int."+op))
		}
	}
	I[B+"Add"] = bin("+")
	I[B+"Sub"] = bin("-")
	I[B+"Mul"] = bin("*")
	I[B+"Div"] = bin("div")
	I[B+"Mod"] = bin("mod")
	I[B+"Quo"] = func(e *Exec, th *Thread, fn *ssa.Function, a []Value) Value {
		c := e.ctx
		x, y := e.bigVal(a[1]), e.bigVal(a[2])
		if e.branch(c.Eq(y, c.BVConst(bigW, 0))) {
			panic(goPanic{msg: "division by zero"})
		}
		return e.bigSet(a[0], c.SDiv(x, y))
	}
	I[B+"Neg"] = func(e *Exec, th *Thread, fn *ssa.Function, a []Value) Value {
		return e.bigSet(a[0], e.ctx.Neg(e.bigVal(a[1])))
	}
	I[B+"Cmp"] = func(e *Exec, th *Thread, fn *ssa.Function, a []Value) Value {
		return e.bigCmpTerm(e.bigVal(a[0]), e.bigVal(a[1]))
	}
	I[B+"Sign"] = func(e *Exec, th *Thread, fn *ssa.Function, a []Value) Value {
		return e.bigCmpTerm(e.bigVal(a[0]), e.ctx.BVConst(bigW, 0))
	}
	I[B+"IsUint64"] = func(e *Exec, th *Thread, fn *ssa.Function, a []Value) Value {
		c := e.ctx
		x := e.bigVal(a[0])
		return c.And(c.SLe(c.BVConst(bigW, 0), x), c.SLe(x, c.Const(BV(bigW), mask(64))))
	}
	I[B+"Uint64"] = func(e *Exec, th *Thread, fn *ssa.Function, a []Value) Value {
		return e.ctx.Extract(63, 0, e.bigVal(a[0]))
	}
	I[B+"Int64"] = I[B+"Uint64"]
	str := func(e *Exec, th *Thread, fn *ssa.Function, a []Value) Value {
		p, _ := a[0].(*Value)
		if p == nil {
			return "<nil>"
		}
		x := e.bigVal(a[0])
		if x.IsConst() {
			return x.Signed().String()
		}
		return &SymStr{parts: []interface{}{symPart{verb: "%d", t: x}}}
	}
	I[B+"String"] = str
	I[B+"Text"] = str
	I[B+"SetString"] = func(e *Exec, th *Thread, fn *ssa.Function, a []Value) Value {
		v, ok := new(big.Int).SetString(e.goString(a[1], "big.SetString"), e.concreteInt(a[2], "base"))
		if !ok {
			return TupleV{(*Value)(nil), e.ctx.False}
		}
		e.bigSetNative(a[0].(*Value), v)
		return TupleV{a[0], e.ctx.True}
	}
	_ = fmt.Sprint
}

// nativeBig evaluates a *big.Int method that has no symbolic model by calling
// the real math/big on concrete operands (every *big.Int operand a constant,
// every other argument a concrete basic value). Anything else is refused: the
// fake big.Int struct of the model must never be interpreted from math/big's
// own code.
func (e *Exec) nativeBig(fn *ssa.Function, args []Value) (Value, bool) {
	sig := fn.Signature
	if sig.Recv() == nil || len(args) == 0 {
		return nil, false
	}
	rp, ok := sig.Recv().Type().(*types.Pointer)
	if !ok || rp.Elem().String() != "math/big.Int" {
		return nil, false
	}
	isBigPtr := func(t types.Type) bool {
		p, ok := t.(*types.Pointer)
		return ok && p.Elem().String() == "math/big.Int"
	}
	type slot struct {
		ptr *Value
		nat *big.Int
	}
	var slots []slot
	natOf := func(v Value) (*big.Int, bool) {
		p, _ := v.(*Value)
		if p == nil {
			return nil, true // nil *big.Int argument
		}
		for _, s := range slots {
			if s.ptr == p {
				return s.nat, true
			}
		}
		n, ok := e.bigConst(p)
		if !ok {
			return nil, false
		}
		slots = append(slots, slot{p, n})
		return n, true
	}
	for i := 0; i < sig.Results().Len(); i++ {
		rt := sig.Results().At(i).Type()
		if _, basic := rt.Underlying().(*types.Basic); !basic && !isBigPtr(rt) {
			return nil, false // e.g. Bits() []Word: has its own model
		}
	}
	recv, ok := natOf(args[0])
	if !ok || recv == nil {
		return nil, false
	}
	m := reflect.ValueOf(recv).MethodByName(fn.Name())
	if !m.IsValid() {
		return nil, false
	}
	var in []reflect.Value
	for i := 0; i < sig.Params().Len(); i++ {
		pt := sig.Params().At(i).Type()
		a := args[i+1]
		switch {
		case isBigPtr(pt):
			n, ok := natOf(a)
			if !ok {
				return nil, false
			}
			in = append(in, reflect.ValueOf(n))
		default:
			b, isBasic := pt.Underlying().(*types.Basic)
			if !isBasic {
				return nil, false
			}
			want := m.Type().In(i)
			switch {
			case b.Info()&types.IsString != 0:
				s, ok := a.(string)
				if !ok {
					return nil, false
				}
				in = append(in, reflect.ValueOf(s).Convert(want))
			case b.Info()&types.IsBoolean != 0:
				t, ok := a.(*Term)
				if !ok || !t.IsConst() {
					return nil, false
				}
				in = append(in, reflect.ValueOf(t.IsTrue()).Convert(want))
			case b.Info()&types.IsInteger != 0:
				t, ok := a.(*Term)
				if !ok || !t.IsConst() {
					return nil, false
				}
				if b.Info()&types.IsUnsigned != 0 {
					in = append(in, reflect.ValueOf(t.Uint64()).Convert(want))
				} else {
					in = append(in, reflect.ValueOf(t.Signed().Int64()).Convert(want))
				}
			default:
				return nil, false
			}
		}
	}
	var out []reflect.Value
	func() {
		defer func() {
			if r := recover(); r != nil {
				panic(goPanic{msg: fmt.Sprintf("math/big: %v", r)})
			}
		}()
		out = m.Call(in)
	}()
	// write every operand back (results written through pointer arguments included)
	for _, s := range slots {
		e.bigSetNative(s.ptr, s.nat)
	}
	conv := func(v reflect.Value, t types.Type) Value {
		if isBigPtr(t) {
			n, _ := v.Interface().(*big.Int)
			if n == nil {
				return (*Value)(nil)
			}
			for _, s := range slots {
				if s.nat == n {
					return s.ptr
				}
			}
			np := e.newBig(fn, e.ctx.BVConst(bigW, 0))
			e.bigSetNative(np, n)
			return np
		}
		b, _ := t.Underlying().(*types.Basic)
		switch {
		case b == nil:
			panic(pathAbort{"error", "math/big native call: unsupported result type " + t.String()})
		case b.Info()&types.IsString != 0:
			return v.String()
		case b.Info()&types.IsBoolean != 0:
			return e.ctx.Bool(v.Bool())
		case b.Info()&types.IsFloat != 0:
			return e.fpConst(v.Float())
		case b.Info()&types.IsUnsigned != 0:
			w, _, _ := intWidth(t)
			return e.ctx.BVConstU(w, v.Uint())
		case b.Info()&types.IsInteger != 0:
			w, _, _ := intWidth(t)
			return e.ctx.BVConst(w, v.Int())
		}
		panic(pathAbort{"error", "math/big native call: unsupported result type " + t.String()})
	}
	res := sig.Results()
	switch res.Len() {
	case 0:
		return nil, true
	case 1:
		return conv(out[0], res.At(0).Type()), true
	}
	tv := make(TupleV, res.Len())
	for i := range tv {
		tv[i] = conv(out[i], res.At(i).Type())
	}
	return tv, true
}

// decimalFromString is shopspring/decimal.NewFromString on a concrete string
// (the package initialiser parses a dozen constants of hundreds of digits; one
// character at a time through the interpreter that costs ~50k steps per path).
// The logic follows decimal.go:NewFromString.
func (e *Exec) decimalFromString(fn *ssa.Function, value string) Value {
	original := value
	decT := fn.Signature.Results().At(0).Type()
	fail := func(msg string) Value {
		return TupleV{e.zero(decT), e.newError(msg, nil)}
	}
	var exp int64
	if i := strings.IndexAny(value, "Ee"); i != -1 {
		x, err := strconv.ParseInt(value[i+1:], 10, 32)
		if err != nil {
			if ne, ok := err.(*strconv.NumError); ok && ne.Err == strconv.ErrRange {
				return fail(fmt.Sprintf("can't convert %s to decimal: fractional part too long", value))
			}
			return fail(fmt.Sprintf("can't convert %s to decimal: exponent is not numeric", value))
		}
		value = value[:i]
		exp = x
	}
	p := -1
	for i := 0; i < len(value); i++ {
		if value[i] == '.' {
			if p > -1 {
				return fail(fmt.Sprintf("can't convert %s to decimal: too many .s", value))
			}
			p = i
		}
	}
	intString := value
	if p != -1 {
		if p+1 < len(value) {
			intString = value[:p] + value[p+1:]
		} else {
			intString = value[:p]
		}
		exp -= int64(len(value[p+1:]))
	}
	n := new(big.Int)
	if len(intString) <= 18 {
		x, err := strconv.ParseInt(intString, 10, 64)
		if err != nil {
			return fail(fmt.Sprintf("can't convert %s to decimal", value))
		}
		n.SetInt64(x)
	} else if _, ok := n.SetString(intString, 10); !ok {
		return fail(fmt.Sprintf("can't convert %s to decimal", value))
	}
	if exp < math.MinInt32 || exp > math.MaxInt32 {
		return fail(fmt.Sprintf("can't convert %s to decimal: fractional part too long", original))
	}
	d := e.zero(decT).(StructV)
	np := e.newBig(fn, e.ctx.BVConst(bigW, 0))
	e.bigSetNative(np, n)
	d[0] = np
	d[1] = e.intConst(32, exp)
	return TupleV{d, IfaceV{}}
}
