//go:build verif

package main

import (
	"context"
	"time"

	"github.com/attestantio/go-eth2-client/api"
	apiv1 "github.com/attestantio/go-eth2-client/api/v1"
	"github.com/attestantio/go-eth2-client/spec/altair"
	"github.com/attestantio/go-eth2-client/spec/phase0"
	"github.com/attestantio/vouch/internal/vnd"
	"github.com/attestantio/vouch/internal/vstub"
	nullmetrics "github.com/attestantio/vouch/services/metrics/null"
	"github.com/prysmaticlabs/go-bitfield"
	"github.com/spf13/viper"
)

// c07MainNode answers every kind of question a strategy asks a beacon node, and counts.
type c07MainNode struct {
	name  string
	asked map[string]int
}

func (n *c07MainNode) Name() string    { return n.name }
func (n *c07MainNode) Address() string { return n.name }
func (n *c07MainNode) IsActive() bool  { return true }
func (n *c07MainNode) IsSynced() bool  { return true }
func (n *c07MainNode) AttestationData(_ context.Context, opts *api.AttestationDataOpts) (*api.Response[*phase0.AttestationData], error) {
	n.asked["attestationdata"]++
	return &api.Response[*phase0.AttestationData]{Data: &phase0.AttestationData{Slot: opts.Slot, Index: opts.CommitteeIndex, BeaconBlockRoot: phase0.Root{1},
		Source: &phase0.Checkpoint{Epoch: 9}, Target: &phase0.Checkpoint{Epoch: 10}}, Metadata: map[string]any{}}, nil
}
func (n *c07MainNode) AggregateAttestation(_ context.Context, opts *api.AggregateAttestationOpts) (*api.Response[*phase0.Attestation], error) {
	n.asked["aggregateattestation"]++
	bits := bitfield.NewBitlist(8)
	bits.SetBitAt(1, true)
	return &api.Response[*phase0.Attestation]{Data: &phase0.Attestation{AggregationBits: bits, Data: &phase0.AttestationData{Slot: opts.Slot, Source: &phase0.Checkpoint{}, Target: &phase0.Checkpoint{}}}, Metadata: map[string]any{}}, nil
}
func (n *c07MainNode) SyncCommitteeContribution(_ context.Context, opts *api.SyncCommitteeContributionOpts) (*api.Response[*altair.SyncCommitteeContribution], error) {
	n.asked["synccommitteecontribution"]++
	bits := bitfield.NewBitvector128()
	bits.SetBitAt(1, true)
	return &api.Response[*altair.SyncCommitteeContribution]{Data: &altair.SyncCommitteeContribution{Slot: opts.Slot, SubcommitteeIndex: opts.SubcommitteeIndex, BeaconBlockRoot: opts.BeaconBlockRoot, AggregationBits: bits}, Metadata: map[string]any{}}, nil
}
func (n *c07MainNode) BeaconBlockRoot(_ context.Context, _ *api.BeaconBlockRootOpts) (*api.Response[*phase0.Root], error) {
	n.asked["beaconblockroot"]++
	r := phase0.Root{1}
	return &api.Response[*phase0.Root]{Data: &r, Metadata: map[string]any{}}, nil
}
func (n *c07MainNode) BeaconBlockHeader(_ context.Context, _ *api.BeaconBlockHeaderOpts) (*api.Response[*apiv1.BeaconBlockHeader], error) {
	n.asked["header"]++
	return &api.Response[*apiv1.BeaconBlockHeader]{Data: &apiv1.BeaconBlockHeader{Header: &phase0.SignedBeaconBlockHeader{Message: &phase0.BeaconBlockHeader{Slot: 325}}}, Metadata: map[string]any{}}, nil
}

type c07MainCache struct{}

func (c07MainCache) BlockRootToSlot(_ context.Context, _ phase0.Root) (phase0.Slot, error) {
	return 325, nil
}

// VerifC07_StrategyWiring: the strategies as main builds them from the
// configuration (the select...Provider functions): for each family and each
// configured style, the strategy asks exactly the beacon nodes listed for that
// family and style (each combination has a node of its own here), and the plain
// client when no style is configured.
func VerifC07_StrategyWiring() {
	viper.Reset()
	viper.Set("timeout", 2*time.Second)
	viper.Set("process-concurrency", int64(4))
	families := []struct {
		name   string
		styles []string
	}{
		{"attestationdata", []string{"best", "majority", "first", ""}},
		{"aggregateattestation", []string{"best", "first", ""}},
		{"synccommitteecontribution", []string{"best", "first", ""}},
		{"beaconblockroot", []string{"majority", "first", ""}},
	}
	nodes := map[string]*c07MainNode{}
	mk := func(name string) *c07MainNode {
		nd := &c07MainNode{name: name, asked: map[string]int{}}
		nodes[name] = nd
		knownClientsMu.Lock()
		knownClients[name] = nd
		knownClientsMu.Unlock()
		return nd
	}
	plain := mk("plain:5052")
	for _, f := range families {
		for _, st := range f.styles {
			if st != "" {
				mk(f.name + "-" + st + ":5052")
				viper.Set("strategies."+f.name+"."+st+".beacon-node-addresses", []string{f.name + "-" + st + ":5052"})
			}
		}
	}
	viper.Set("strategies.attestationdata.majority.threshold", 1)
	fi := vnd.Choose("family", len(families))
	fam := families[fi]
	style := fam.styles[vnd.Choose("style", len(fam.styles))]
	viper.Set("strategies."+fam.name+".style", style)
	ctx := context.Background()
	mon := nullmetrics.New()
	ct := &vstub.ChainTime{SPE: 32, SlotNs: 12000000000, Cur: 325}
	var err error
	switch fam.name {
	case "attestationdata":
		p, perr := selectAttestationDataProvider(ctx, mon, plain, ct, c07MainCache{})
		err = perr
		if perr == nil {
			_, err = p.AttestationData(ctx, &api.AttestationDataOpts{Slot: 325})
		}
	case "aggregateattestation":
		p, perr := selectAggregateAttestationProvider(ctx, mon, plain)
		err = perr
		if perr == nil {
			_, err = p.AggregateAttestation(ctx, &api.AggregateAttestationOpts{Slot: 325})
		}
	case "synccommitteecontribution":
		p, perr := selectSyncCommitteeContributionProvider(ctx, mon, plain)
		err = perr
		if perr == nil {
			_, err = p.SyncCommitteeContribution(ctx, &api.SyncCommitteeContributionOpts{Slot: 325})
		}
	case "beaconblockroot":
		p, perr := selectBeaconBlockRootProvider(ctx, mon, plain, c07MainCache{})
		err = perr
		if perr == nil {
			_, err = p.BeaconBlockRoot(ctx, &api.BeaconBlockRootOpts{Block: "head"})
		}
	}
	vnd.Quiesce()
	vnd.Assert(err == nil, "C07.wiring.strategy-starts-and-answers")
	want := fam.name + "-" + style + ":5052"
	if style == "" {
		want = "plain:5052"
	}
	for name, nd := range nodes {
		n := nd.asked[fam.name]
		if name == want {
			vnd.Assert(n == 1, "C07.wiring.the-nodes-configured-for-the-style-are-asked")
		} else {
			vnd.Assert(n == 0, "C07.wiring.no-other-node-is-asked")
		}
	}
	vnd.Cover("C07.wiring.checked")
}
