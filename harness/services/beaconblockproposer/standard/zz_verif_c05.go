//go:build verif

package standard

import (
	"context"
	"errors"
	eth2client "github.com/attestantio/go-eth2-client"
	"time"

	"github.com/attestantio/go-block-relay/services/blockauctioneer"
	builderapi "github.com/attestantio/go-builder-client/api"
	builderspec "github.com/attestantio/go-builder-client/spec"
	"github.com/attestantio/go-eth2-client/api"
	apiv1bellatrix "github.com/attestantio/go-eth2-client/api/v1/bellatrix"
	apiv1capella "github.com/attestantio/go-eth2-client/api/v1/capella"
	apiv1deneb "github.com/attestantio/go-eth2-client/api/v1/deneb"
	"github.com/attestantio/go-eth2-client/spec"
	"github.com/attestantio/go-eth2-client/spec/altair"
	"github.com/attestantio/go-eth2-client/spec/bellatrix"
	"github.com/attestantio/go-eth2-client/spec/capella"
	"github.com/attestantio/go-eth2-client/spec/deneb"
	"github.com/attestantio/go-eth2-client/spec/phase0"
	"github.com/attestantio/vouch/internal/vnd"
	"github.com/attestantio/vouch/internal/vstub"
	"github.com/attestantio/vouch/services/beaconblockproposer"
	nullmetrics "github.com/attestantio/vouch/services/metrics/null"
	"github.com/holiman/uint256"
	"github.com/prysmaticlabs/go-bitfield"
	e2wtypes "github.com/wealdtech/go-eth2-wallet-types/v2"
)

// ---- stubs ------------------------------------------------------------------

type c05Graffiti struct {
	fail bool
	data []byte
	slow bool // the source takes three (virtual) seconds to answer, or gives up when its context ends
}

func (h *c05Graffiti) Graffiti(ctx context.Context, _ phase0.Slot, _ phase0.ValidatorIndex) ([]byte, error) {
	if h.slow {
		select {
		case <-ctx.Done():
			return nil, ctx.Err()
		case <-time.After(vnd.Delay(3 * time.Second)):
		}
	}
	if h.fail {
		return nil, errors.New("mock graffiti failure")
	}
	return h.data, nil
}

type c05Head struct{}

func (h *c05Head) ExecutionChainHead(_ context.Context) (phase0.Hash32, uint64) {
	return phase0.Hash32{}, 1
}

type c05Relay struct {
	name     string
	mode     int // 0: full block, 1: error 400, 2: other error (every try), 3: neither response nor error
	calls    []*builderapi.UnblindProposalOpts
	rejected int
	payload  *api.VersionedSignedProposal
}

func (r *c05Relay) Name() string              { return r.name }
func (r *c05Relay) Address() string           { return r.name }
func (r *c05Relay) Pubkey() *phase0.BLSPubKey { return nil }
func (r *c05Relay) BuilderBid(_ context.Context, _ *builderapi.BuilderBidOpts) (*builderapi.Response[*builderspec.VersionedSignedBuilderBid], error) {
	return nil, errors.New("not used")
}
func (r *c05Relay) UnblindProposal(_ context.Context, opts *builderapi.UnblindProposalOpts) (*builderapi.Response[*api.VersionedSignedProposal], error) {
	// go-builder-client rejects a request without payload locally (nothing is sent)
	if opts.Proposal == nil || (opts.Proposal.Bellatrix == nil && opts.Proposal.Capella == nil && opts.Proposal.Deneb == nil) {
		r.rejected++
		return nil, errors.New("proposal without payload")
	}
	r.calls = append(r.calls, opts)
	switch r.mode {
	case 1:
		return nil, errors.New("POST failed with status 400: unknown payload")
	case 2:
		return nil, errors.New("POST failed with status 500")
	case 3:
		return nil, nil // no response and no error
	}
	return &builderapi.Response[*api.VersionedSignedProposal]{Data: r.payload, Metadata: map[string]any{}}, nil
}

type c05Auctioneer struct {
	fail    bool
	results *blockauctioneer.Results
	calls   int
	slot    phase0.Slot
}

func (a *c05Auctioneer) AuctionBlock(_ context.Context, slot phase0.Slot, _ phase0.Hash32, _ phase0.BLSPubKey) (*blockauctioneer.Results, error) {
	a.calls++
	a.slot = slot
	if a.fail {
		return nil, errors.New("mock auction failure")
	}
	return a.results, nil
}

type c05Proposals struct {
	fail     bool
	refused  int
	proposal *api.VersionedProposal
	opts     []*api.ProposalOpts
}

func (p *c05Proposals) Proposal(ctx context.Context, opts *api.ProposalOpts) (*api.Response[*api.VersionedProposal], error) {
	p.opts = append(p.opts, opts)
	// like a real HTTP client the node refuses a request whose context has already ended
	if ctx.Err() != nil {
		p.refused++
		return nil, ctx.Err()
	}
	if p.fail {
		return nil, errors.New("mock proposal failure")
	}
	return &api.Response[*api.VersionedProposal]{Data: p.proposal, Metadata: map[string]any{}}, nil
}

// c05ProposalsWithClient is a proposal provider that can also name its node's client (a single beacon
// node does; the strategies do not): the "{{CLIENT}}" token of a graffiti is filled in from it.
type c05ProposalsWithClient struct {
	*c05Proposals
	fail  bool
	calls int
}

func (p *c05ProposalsWithClient) NodeClient(_ context.Context) (*api.Response[string], error) {
	p.calls++
	if p.fail {
		return nil, errors.New("mock node client failure")
	}
	return &api.Response[string]{Data: "lh", Metadata: map[string]any{}}, nil
}

type c05SignCall struct {
	account    e2wtypes.Account
	slot       phase0.Slot
	index      phase0.ValidatorIndex
	parentRoot phase0.Root
	stateRoot  phase0.Root
	bodyRoot   phase0.Root
}

type c05Signer struct {
	fail  bool
	sig   phase0.BLSSignature
	calls []*c05SignCall
}

func (s *c05Signer) SignBeaconBlockProposal(_ context.Context, account e2wtypes.Account, slot phase0.Slot, idx phase0.ValidatorIndex, parent, state, body phase0.Root) (phase0.BLSSignature, error) {
	s.calls = append(s.calls, &c05SignCall{account, slot, idx, parent, state, body})
	if s.fail {
		return phase0.BLSSignature{}, errors.New("mock sign failure")
	}
	return s.sig, nil
}

type c05Submitter struct {
	fail  bool
	calls []*api.VersionedSignedProposal
}

func (s *c05Submitter) SubmitProposal(ctx context.Context, p *api.VersionedSignedProposal) error {
	if ctx.Err() != nil {
		return ctx.Err()
	}
	s.calls = append(s.calls, p)
	if s.fail {
		return errors.New("mock submit failure")
	}
	return nil
}

// ndProposal builds a well-formed proposal of the chosen version.
func ndProposal(version spec.DataVersion, blinded bool) (*api.VersionedProposal, phase0.Slot, phase0.Root, phase0.Root) {
	slot := phase0.Slot(vnd.U64("proposal.slot"))
	parent := phase0.Root(vnd.Root("proposal.parent"))
	state := phase0.Root(vnd.Root("proposal.state"))
	p := &api.VersionedProposal{Version: version, Blinded: blinded}
	// bodies are well formed (what the decoder delivers): required sub-objects present
	eth1 := &phase0.ETH1Data{BlockHash: make([]byte, 32)}
	sync := &altair.SyncAggregate{SyncCommitteeBits: bitfield.NewBitvector512()}
	g := vnd.Root("body.graffiti")
	switch version {
	case spec.DataVersionPhase0:
		p.Phase0 = &phase0.BeaconBlock{Slot: slot, ParentRoot: parent, StateRoot: state, Body: &phase0.BeaconBlockBody{ETH1Data: eth1, Graffiti: g}}
	case spec.DataVersionAltair:
		p.Altair = &altair.BeaconBlock{Slot: slot, ParentRoot: parent, StateRoot: state, Body: &altair.BeaconBlockBody{ETH1Data: eth1, Graffiti: g, SyncAggregate: sync}}
	case spec.DataVersionBellatrix:
		if blinded {
			p.BellatrixBlinded = &apiv1bellatrix.BlindedBeaconBlock{Slot: slot, ParentRoot: parent, StateRoot: state, Body: &apiv1bellatrix.BlindedBeaconBlockBody{ETH1Data: eth1, Graffiti: g, SyncAggregate: sync, ExecutionPayloadHeader: &bellatrix.ExecutionPayloadHeader{}}}
		} else {
			p.Bellatrix = &bellatrix.BeaconBlock{Slot: slot, ParentRoot: parent, StateRoot: state, Body: &bellatrix.BeaconBlockBody{ETH1Data: eth1, Graffiti: g, SyncAggregate: sync, ExecutionPayload: &bellatrix.ExecutionPayload{}}}
		}
	case spec.DataVersionCapella:
		if blinded {
			p.CapellaBlinded = &apiv1capella.BlindedBeaconBlock{Slot: slot, ParentRoot: parent, StateRoot: state, Body: &apiv1capella.BlindedBeaconBlockBody{ETH1Data: eth1, Graffiti: g, SyncAggregate: sync, ExecutionPayloadHeader: &capella.ExecutionPayloadHeader{}}}
		} else {
			p.Capella = &capella.BeaconBlock{Slot: slot, ParentRoot: parent, StateRoot: state, Body: &capella.BeaconBlockBody{ETH1Data: eth1, Graffiti: g, SyncAggregate: sync, ExecutionPayload: &capella.ExecutionPayload{}}}
		}
	case spec.DataVersionDeneb:
		if blinded {
			p.DenebBlinded = &apiv1deneb.BlindedBeaconBlock{Slot: slot, ParentRoot: parent, StateRoot: state, Body: &apiv1deneb.BlindedBeaconBlockBody{ETH1Data: eth1, Graffiti: g, SyncAggregate: sync, ExecutionPayloadHeader: &deneb.ExecutionPayloadHeader{BaseFeePerGas: uint256.NewInt(1)}}}
		} else {
			p.Deneb = &apiv1deneb.BlockContents{Block: &deneb.BeaconBlock{Slot: slot, ParentRoot: parent, StateRoot: state, Body: &deneb.BeaconBlockBody{ETH1Data: eth1, Graffiti: g, SyncAggregate: sync, ExecutionPayload: &deneb.ExecutionPayload{BaseFeePerGas: uint256.NewInt(1)}}}}
		}
	}
	return p, slot, parent, state
}

var c05Versions = []spec.DataVersion{spec.DataVersionPhase0, spec.DataVersionAltair, spec.DataVersionBellatrix, spec.DataVersionCapella, spec.DataVersionDeneb}

type c05Env struct {
	s       *Service
	ct      *vstub.ChainTime
	duty    *beaconblockproposer.Duty
	account *vstub.Account
	graf    *c05Graffiti
	auc     *c05Auctioneer
	props   *c05Proposals
	client  *c05ProposalsWithClient // when set, the proposal provider handed to the service
	signer  *c05Signer
	sub     *c05Submitter
	relays  []*c05Relay
	slot    phase0.Slot
	pslot   phase0.Slot
	parent  phase0.Root
	state   phase0.Root
	version spec.DataVersion
	blinded bool
	// configuration chosen by the harness before the service is built
	unblindFromAll bool
}

// c05BlobSigner is the (mandatory) blob sidecar signer; proposals never use it.
type c05BlobSigner struct{}

func (c05BlobSigner) SignBlobSidecar(_ context.Context, _ e2wtypes.Account, _ phase0.Slot, _ phase0.Root) (phase0.BLSSignature, error) {
	return phase0.BLSSignature{}, errors.New("not used")
}

// c05New builds the service through its constructor.
func c05New(params ...Parameter) *Service {
	s, err := New(context.Background(), append([]Parameter{WithLogLevel(vnd.LogLevel()), WithMonitor(&nullmetrics.Service{})}, params...)...)
	vnd.Assert(err == nil && s != nil, "C05.new.accepted")
	return s
}

// build creates the service from the environment's stubs, once every
// configuration choice (auctioneer, graffiti provider, unblind-from-all) has been
// made. The parts the constructor insists on but a proposal never touches
// (validating accounts, RANDAO signer, blob sidecar signer) are inert stubs.
func (e *c05Env) build() {
	params := []Parameter{
		WithChainTime(e.ct),
		WithProposalDataProvider(e.proposalProvider()),
		WithExecutionChainHeadProvider(&c05Head{}),
		WithProposalSubmitter(e.sub),
		WithBeaconBlockSigner(e.signer),
		WithBuilderBoostFactor(100),
		WithUnblindFromAllRelays(e.unblindFromAll),
		WithValidatingAccountsProvider(&c05Accounts{fail: true}),
		WithRANDAORevealSigner(&c05Randao{fail: true}),
		WithBlobSidecarSigner(c05BlobSigner{}),
	}
	if e.auc != nil {
		params = append(params, WithBlockAuctioneer(e.auc))
	}
	if e.graf != nil {
		params = append(params, WithGraffitiProvider(e.graf))
	}
	e.s = c05New(params...)
}

func (e *c05Env) proposalProvider() eth2client.ProposalProvider {
	if e.client != nil {
		return e.client
	}
	return e.props
}

func newC05Env(nrelays int, auctionMode int) *c05Env {
	e := &c05Env{}
	e.version = c05Versions[vnd.Choose("version", len(c05Versions))]
	if e.version >= spec.DataVersionBellatrix {
		e.blinded = vnd.Bool("blinded")
	}
	e.props = &c05Proposals{}
	e.props.proposal, e.pslot, e.parent, e.state = ndProposal(e.version, e.blinded)
	e.slot = phase0.Slot(vnd.U64("duty.slot"))
	vnd.Assume(uint64(e.slot) < 1<<40) // duties are filtered to the requested epoch by the controller (C03)
	e.duty = beaconblockproposer.NewDuty(e.slot, phase0.ValidatorIndex(vnd.U64("duty.validator")))
	e.account = &vstub.Account{VIndex: 5, Nm: "proposer"}
	e.duty.SetAccount(e.account)
	e.duty.SetRandaoReveal(phase0.BLSSignature(vnd.Sig("randao")))
	e.signer = &c05Signer{sig: phase0.BLSSignature(vnd.Sig("blocksig"))}
	e.sub = &c05Submitter{}
	e.ct = vstub.NewChainTime(0)
	// relays and auction
	for i := 0; i < nrelays; i++ {
		r := &c05Relay{name: []string{"relay-a", "relay-b", "relay-c"}[i], mode: vnd.Choose("relay.mode", 4)}
		full, _, _, _ := ndProposalSigned(e.version)
		r.payload = full
		e.relays = append(e.relays, r)
	}
	switch auctionMode {
	case 0: // no auctioneer configured
	case 1:
		e.auc = &c05Auctioneer{fail: true}
	case 2:
		res := &blockauctioneer.Results{}
		for _, r := range e.relays {
			res.AllProviders = append(res.AllProviders, r)
		}
		// the winning payload was offered by a non-empty prefix of the relays, or by none
		nw := vnd.IntRange("auction.winners", 0, nrelays)
		for i := 0; i < nw; i++ {
			res.Providers = append(res.Providers, e.relays[i])
		}
		e.auc = &c05Auctioneer{results: res}
	}
	return e
}

// ndProposalSigned builds the full signed block a relay returns.
func ndProposalSigned(version spec.DataVersion) (*api.VersionedSignedProposal, phase0.Slot, phase0.Root, phase0.Root) {
	p := &api.VersionedSignedProposal{Version: version}
	switch version {
	case spec.DataVersionBellatrix:
		p.Bellatrix = &bellatrix.SignedBeaconBlock{Message: &bellatrix.BeaconBlock{}}
	case spec.DataVersionCapella:
		p.Capella = &capella.SignedBeaconBlock{Message: &capella.BeaconBlock{}}
	case spec.DataVersionDeneb:
		p.Deneb = &apiv1deneb.SignedBlockContents{SignedBlock: &deneb.SignedBeaconBlock{Message: &deneb.BeaconBlock{}}}
	}
	return p, 0, phase0.Root{}, phase0.Root{}
}

// signedMessageIs reports whether the signed container holds exactly the
// proposal's own message object and the given signature.
func signedMessageIs(sp *api.VersionedSignedProposal, p *api.VersionedProposal, sig phase0.BLSSignature) bool {
	switch p.Version {
	case spec.DataVersionPhase0:
		return sp.Phase0 != nil && sp.Phase0.Message == p.Phase0 && sp.Phase0.Signature == sig
	case spec.DataVersionAltair:
		return sp.Altair != nil && sp.Altair.Message == p.Altair && sp.Altair.Signature == sig
	case spec.DataVersionBellatrix:
		if p.Blinded {
			return sp.BellatrixBlinded != nil && sp.BellatrixBlinded.Message == p.BellatrixBlinded && sp.BellatrixBlinded.Signature == sig
		}
		return sp.Bellatrix != nil && sp.Bellatrix.Message == p.Bellatrix && sp.Bellatrix.Signature == sig
	case spec.DataVersionCapella:
		if p.Blinded {
			return sp.CapellaBlinded != nil && sp.CapellaBlinded.Message == p.CapellaBlinded && sp.CapellaBlinded.Signature == sig
		}
		return sp.Capella != nil && sp.Capella.Message == p.Capella && sp.Capella.Signature == sig
	case spec.DataVersionDeneb:
		if p.Blinded {
			return sp.DenebBlinded != nil && sp.DenebBlinded.Message == p.DenebBlinded && sp.DenebBlinded.Signature == sig
		}
		return sp.Deneb != nil && sp.Deneb.SignedBlock != nil && sp.Deneb.SignedBlock.Message == p.Deneb.Block && sp.Deneb.SignedBlock.Signature == sig
	}
	return false
}

// VerifC05_ProposeFull: unblinded proposals of every version.
func VerifC05_ProposeFull() {
	e := newC05Env(0, vnd.Choose("auction.mode", 2))
	vnd.Assume(!e.blinded)
	c05Run(e)
}

// VerifC05_ProposeBlinded: blinded proposals unblinded through 1..2 relays.
func VerifC05_ProposeBlinded() {
	e := newC05Env(vnd.IntRange("relays", 1, 2), 2)
	vnd.Assume(e.blinded)
	e.unblindFromAll = vnd.Bool("unblind-from-all")
	c05Run(e)
}

func c05Run(e *c05Env) {
	switch vnd.Choose("failpoint", 4) {
	case 1:
		e.props.fail = true
	case 2:
		e.signer.fail = true
	case 3:
		e.sub.fail = true
	}
	graffitiMode := vnd.Choose("graffiti.mode", 5)
	switch graffitiMode {
	case 1:
		e.graf = &c05Graffiti{fail: true}
	case 2:
		e.graf = &c05Graffiti{data: []byte("hello")}
	case 3, 4:
		// graffiti naming the node's client, with a proposal provider that can be asked for it: the
		// lookup works (3) or fails (4)
		e.graf = &c05Graffiti{data: []byte("{{CLIENT}} x")}
		e.client = &c05ProposalsWithClient{c05Proposals: e.props, fail: graffitiMode == 4}
	}
	if e.graf != nil && (graffitiMode == 1 || graffitiMode == 2) {
		// a slow graffiti source delays the proposal, it never costs it (the job's own deadline is 30 s)
		e.graf.slow = vnd.Bool("graffiti.source-is-slow")
	}
	e.build()
	// the job context: Propose is given a deadline so that the run ends even
	// when no relay ever answers (that hang is C20's subject)
	ctx, cancel := context.WithTimeout(context.Background(), vnd.Delay(30*time.Second))
	defer cancel()
	e.s.Propose(ctx, e.duty)
	vnd.Quiesce()

	// graffiti and auction failures never skip the proposal request
	if !e.duty.RANDAOReveal().IsZero() {
		vnd.Assert(len(e.props.opts) == 1, "C05.proposal-requested-despite-graffiti-or-auction-failure")
		o := e.props.opts[0]
		vnd.Assert(o.Slot == e.slot && o.RandaoReveal == e.duty.RANDAOReveal(), "C05.proposal-requested-for-duty-slot-and-reveal")
		if graffitiMode == 1 {
			vnd.Assert(o.Graffiti == [32]byte{}, "C05.graffiti-failure-degrades-to-empty-graffiti")
			vnd.Cover("C05.graffiti-failed")
		}
		if graffitiMode == 2 && !e.graf.slow { // (a slow source may be given up on: then the block is ungraffitied)
			vnd.Assert(o.Graffiti[0] == 'h' && o.Graffiti[4] == 'o' && o.Graffiti[5] == 0, "C05.graffiti-passed-on")
		}
		if graffitiMode == 3 {
			vnd.Assert(string(o.Graffiti[:5]) == "lh x\x00", "C05.graffiti-client-token-filled-in")
		}
		if graffitiMode == 4 {
			// a failed client lookup costs the token's replacement, never the proposal (asserted above)
			vnd.Cover("C05.graffiti-client-lookup-failed")
		}
	} else {
		vnd.Assert(len(e.props.opts) == 0 && len(e.signer.calls) == 0 && len(e.sub.calls) == 0, "C05.no-reveal-no-proposal")
		return
	}
	vnd.Assert(e.props.refused == 0, "C05.proposal-requested-while-the-jobs-context-is-live")
	if e.props.fail {
		vnd.Assert(len(e.signer.calls) == 0 && len(e.sub.calls) == 0, "C05.no-proposal-nothing-signed")
		return
	}
	// signing: only the block of the duty slot, with its own roots, for the duty's validator
	if e.pslot != e.slot {
		vnd.Cover("C05.proposal-for-another-slot")
		vnd.Assert(len(e.signer.calls) == 0, "C05.block-of-another-slot-is-never-signed")
		vnd.Assert(len(e.sub.calls) == 0, "C05.block-of-another-slot-is-never-submitted")
		return
	}
	vnd.Assert(len(e.signer.calls) == 1, "C05.single-signature-request")
	c := e.signer.calls[0]
	vnd.Assert(c.account == e2wtypes.Account(e.account), "C05.signed-by-duty-account")
	vnd.Assert(c.slot == e.slot && c.index == e.duty.ValidatorIndex(), "C05.signed-for-duty-slot-and-validator")
	body, _ := e.props.proposal.BodyRoot()
	vnd.Assert(c.parentRoot == e.parent && c.stateRoot == e.state && c.bodyRoot == body, "C05.signed-over-the-blocks-own-roots")
	if e.signer.fail {
		vnd.Assert(len(e.sub.calls) == 0, "C05.unsigned-block-never-submitted")
		return
	}
	if !e.blinded {
		vnd.Assert(len(e.sub.calls) == 1, "C05.full-block-submitted")
		sp := e.sub.calls[0]
		vnd.Assert(sp.Version == e.version && !sp.Blinded, "C05.submitted-version")
		vnd.Assert(signedMessageIs(sp, e.props.proposal, e.signer.sig), "C05.submitted-exactly-the-signed-block")
		vnd.Cover("C05.full-block")
		return
	}
	// blinded: relays asked are the winners (or all), each sent precisely the signed blinded block
	cands := e.auc.results.Providers
	if len(cands) == 0 || e.s.unblindFromAllRelays {
		cands = e.auc.results.AllProviders
	}
	anyFull := false
	for _, r := range e.relays {
		asked := false
		for _, p := range cands {
			if p.(*c05Relay) == r {
				asked = true
			}
		}
		if !asked {
			vnd.Assert(len(r.calls) == 0, "C05.only-selected-relays-are-asked")
			continue
		}
		vnd.Assert(len(r.calls)+r.rejected >= 1, "C05.every-selected-relay-is-asked")
		for _, call := range r.calls {
			bp := call.Proposal
			okMsg := false
			switch e.version {
			case spec.DataVersionBellatrix:
				okMsg = bp.Bellatrix != nil && bp.Bellatrix.Message == e.props.proposal.BellatrixBlinded && bp.Bellatrix.Signature == e.signer.sig
			case spec.DataVersionCapella:
				okMsg = bp.Capella != nil && bp.Capella.Message == e.props.proposal.CapellaBlinded && bp.Capella.Signature == e.signer.sig
			case spec.DataVersionDeneb:
				okMsg = bp.Deneb != nil && bp.Deneb.Message == e.props.proposal.DenebBlinded && bp.Deneb.Signature == e.signer.sig
			}
			vnd.Assert(okMsg && bp.Version == e.version, "C05.relay-sent-precisely-the-signed-blinded-block")
		}
		if r.mode == 0 {
			anyFull = true
		}
	}
	anyFullAsked := false
	for _, r := range e.relays {
		if r.mode == 0 && len(r.calls) > 0 {
			anyFullAsked = true
		}
	}
	anyFull = anyFull && anyFullAsked
	if !anyFull {
		vnd.Cover("C05.no-relay-unblinds")
		vnd.Assert(len(e.sub.calls) == 0, "C05.nothing-submitted-when-no-relay-returns-a-block")
		return
	}
	vnd.Cover("C05.unblinded")
	vnd.Assert(len(e.sub.calls) == 1, "C05.unblinded-block-submitted")
	sp := e.sub.calls[0]
	vnd.Assert(!sp.Blinded && sp.Version == e.version, "C05.submitted-block-is-unblinded")
	from := false
	for _, r := range e.relays {
		if r.mode != 0 || len(r.calls) == 0 {
			continue
		}
		switch e.version {
		case spec.DataVersionBellatrix:
			from = from || (sp.Bellatrix == r.payload.Bellatrix && sp.BellatrixBlinded == nil)
		case spec.DataVersionCapella:
			from = from || (sp.Capella == r.payload.Capella && sp.CapellaBlinded == nil)
		case spec.DataVersionDeneb:
			from = from || (sp.Deneb == r.payload.Deneb && sp.DenebBlinded == nil)
		}
	}
	vnd.Assert(from, "C05.submitted-full-block-came-from-an-asked-relay")
}

// VerifC16_ProposeBlindedWithoutAuction: a blinded proposal arriving when no
// auction result exists (no auctioneer, or the auction failed) must end in an
// error, not a crash.
func VerifC16_ProposeBlindedWithoutAuction() {
	e := newC05Env(0, vnd.Choose("auction.mode", 2))
	vnd.Assume(e.blinded)
	vnd.Assume(e.pslot == e.slot)
	e.build()
	ctx, cancel := context.WithTimeout(context.Background(), vnd.Delay(30*time.Second))
	defer cancel()
	e.s.Propose(ctx, e.duty)
	vnd.Quiesce()
	vnd.Cover("C16.propose.blinded-without-auction-survived")
	vnd.Assert(len(e.sub.calls) == 0, "C16.propose.nothing-submitted-without-relays")
}

type c05Accounts struct {
	fail  bool
	none  bool
	asked [][]phase0.ValidatorIndex
	epoch phase0.Epoch
}

func (h *c05Accounts) ValidatingAccountsForEpoch(_ context.Context, _ phase0.Epoch) (map[phase0.ValidatorIndex]e2wtypes.Account, error) {
	return nil, errors.New("not used")
}
func (h *c05Accounts) ValidatingAccountsForEpochByIndex(_ context.Context, epoch phase0.Epoch, indices []phase0.ValidatorIndex) (map[phase0.ValidatorIndex]e2wtypes.Account, error) {
	h.asked = append(h.asked, indices)
	h.epoch = epoch
	if h.fail {
		return nil, errors.New("mock accounts failure")
	}
	res := map[phase0.ValidatorIndex]e2wtypes.Account{}
	if !h.none {
		for _, i := range indices {
			res[i] = &vstub.Account{VIndex: uint64(i), Nm: "acc"}
		}
	}
	return res, nil
}
func (h *c05Accounts) SyncCommitteeAccountsForEpoch(_ context.Context, _ phase0.Epoch) (map[phase0.ValidatorIndex]e2wtypes.Account, error) {
	return nil, errors.New("not used")
}
func (h *c05Accounts) SyncCommitteeAccountsForEpochByIndex(_ context.Context, _ phase0.Epoch, _ []phase0.ValidatorIndex) (map[phase0.ValidatorIndex]e2wtypes.Account, error) {
	return nil, errors.New("not used")
}

type c05Randao struct {
	fail  bool
	accs  []e2wtypes.Account
	slots []phase0.Slot
	sig   phase0.BLSSignature
}

func (r *c05Randao) SignRANDAOReveal(_ context.Context, account e2wtypes.Account, slot phase0.Slot) (phase0.BLSSignature, error) {
	r.accs = append(r.accs, account)
	r.slots = append(r.slots, slot)
	if r.fail {
		return phase0.BLSSignature{}, errors.New("mock randao failure")
	}
	return r.sig, nil
}

// VerifC05_Prepare: the RANDAO reveal is requested only for the duty's
// validator and slot.
func VerifC05_Prepare() {
	ct := vstub.NewChainTime(0)
	accts := &c05Accounts{fail: vnd.Bool("accounts.fail"), none: vnd.Bool("accounts.none")}
	randao := &c05Randao{fail: vnd.Bool("randao.fail"), sig: phase0.BLSSignature(vnd.Sig("reveal"))}
	// the constructor insists on the proposing side too; Prepare never touches it
	s := c05New(WithChainTime(ct), WithValidatingAccountsProvider(accts), WithRANDAORevealSigner(randao),
		WithProposalDataProvider(&c05Proposals{fail: true}), WithProposalSubmitter(&c05Submitter{fail: true}),
		WithBeaconBlockSigner(&c05Signer{fail: true}), WithBlobSidecarSigner(c05BlobSigner{}))
	slot := phase0.Slot(vnd.U64("slot"))
	vnd.Assume(uint64(slot) < 1<<40)
	vi := phase0.ValidatorIndex(vnd.U64("validator"))
	duty := beaconblockproposer.NewDuty(slot, vi)
	err := s.Prepare(context.Background(), duty)
	if accts.fail || accts.none {
		vnd.Assert(err != nil && len(randao.accs) == 0, "C05.prepare.no-account-no-reveal")
		return
	}
	vnd.Assert(len(accts.asked) == 1 && len(accts.asked[0]) == 1 && accts.asked[0][0] == vi, "C05.prepare.account-of-duty-validator")
	vnd.Assert(uint64(accts.epoch) == uint64(slot)/ct.SPE, "C05.prepare.account-for-duty-epoch")
	vnd.Assert(len(randao.accs) == 1 && randao.slots[0] == slot, "C05.prepare.reveal-for-duty-slot")
	vnd.Assert(randao.accs[0].(*vstub.Account).VIndex == uint64(vi), "C05.prepare.reveal-by-duty-validators-account")
	if randao.fail {
		vnd.Assert(err != nil, "C05.prepare.signer-error")
		return
	}
	vnd.Assert(err == nil && duty.RANDAOReveal() == randao.sig && duty.Account() != nil, "C05.prepare.duty-filled")
	vnd.Cover("C05.prepare.ok")
}

// c05RandaoSeq answers every request with a reveal of its own (first byte = request number).
type c05RandaoSeq struct {
	accs  []e2wtypes.Account
	slots []phase0.Slot
}

func (r *c05RandaoSeq) SignRANDAOReveal(_ context.Context, account e2wtypes.Account, slot phase0.Slot) (phase0.BLSSignature, error) {
	r.accs = append(r.accs, account)
	r.slots = append(r.slots, slot)
	return phase0.BLSSignature{byte(len(r.accs)), 0xee}, nil
}

// VerifC05_PrepareTwice: two duties prepared one after the other on the same
// proposer service - any two slots (same epoch or not), any two validators (the
// same or not): each duty gets the reveal requested for its own validator's
// account and its own slot; nothing from the first preparation shows in the second.
func VerifC05_PrepareTwice() {
	ct := vstub.NewChainTime(0)
	accts := &c05Accounts{}
	randao := &c05RandaoSeq{}
	s := c05New(WithChainTime(ct), WithValidatingAccountsProvider(accts), WithRANDAORevealSigner(randao),
		WithProposalDataProvider(&c05Proposals{fail: true}), WithProposalSubmitter(&c05Submitter{fail: true}),
		WithBeaconBlockSigner(&c05Signer{fail: true}), WithBlobSidecarSigner(c05BlobSigner{}))
	for k := 0; k < 2; k++ {
		slot := phase0.Slot(vnd.U64("slot"))
		vnd.Assume(uint64(slot) < 1<<40)
		vi := phase0.ValidatorIndex(vnd.U64("validator"))
		duty := beaconblockproposer.NewDuty(slot, vi)
		err := s.Prepare(context.Background(), duty)
		vnd.Assert(err == nil, "C05.prepare2.prepared")
		vnd.Assert(len(randao.accs) == k+1, "C05.prepare2.reveal-requested-for-every-duty")
		if len(randao.accs) != k+1 {
			return
		}
		vnd.Assert(randao.slots[k] == slot && randao.accs[k].(*vstub.Account).VIndex == uint64(vi), "C05.prepare2.reveal-for-the-dutys-own-validator-and-slot")
		vnd.Assert(duty.RANDAOReveal() == phase0.BLSSignature{byte(k + 1), 0xee}, "C05.prepare2.duty-carries-the-reveal-requested-for-it")
		vnd.Assert(duty.Account() != nil && duty.Account().(*vstub.Account).VIndex == uint64(vi), "C05.prepare2.duty-carries-its-own-validators-account")
	}
	vnd.Cover("C05.prepare2.done")
}

// VerifC20_UnblindGoroutines: the proposal and its unblinding goroutines end
// whatever the relays do (the job's context is never cancelled in production).
func VerifC20_UnblindGoroutines() {
	e := newC05Env(vnd.IntRange("relays", 1, 2), 2)
	vnd.Assume(e.blinded && e.pslot == e.slot)
	e.build()
	e.s.Propose(context.Background(), e.duty)
	left := vnd.Quiesce()
	vnd.Assert(left == 0, "C20.unblind.no-goroutine-left-blocked")
	vnd.Cover("C20.unblind.returned")
}
