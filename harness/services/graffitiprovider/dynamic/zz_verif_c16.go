//go:build verif

package dynamic

import (
	"context"
	"errors"

	"github.com/attestantio/vouch/internal/vnd"
	"github.com/wealdtech/go-majordomo"
)

// c16New builds the service through its constructor.
func c16New(m majordomo.Service, location string, fallbackLocation string) *Service {
	s, err := New(context.Background(), WithLogLevel(vnd.LogLevel()), WithMajordomo(m), WithLocation(location), WithFallbackLocation(fallbackLocation))
	vnd.Assert(err == nil && s != nil, "C16.new.accepted")
	return s
}

type c16Majordomo struct {
	primary  int // 0 content, 1 not found, 2 other error
	fallback int
	content  string
	asked    []string
}

func (m *c16Majordomo) Fetch(_ context.Context, url string) ([]byte, error) {
	m.asked = append(m.asked, url)
	mode := m.primary
	if len(m.asked) > 1 {
		mode = m.fallback
	}
	switch mode {
	case 1:
		return nil, majordomo.ErrNotFound
	case 2:
		return nil, errors.New("mock fetch failure")
	}
	return []byte(m.content), nil
}

// VerifC16_DynamicGraffiti: graffiti obtained from a templated location: any
// file content an operator can supply (empty, blank lines, DOS line ends,
// templates, a line longer than a graffiti) and any fetch outcome of the
// primary and the fallback location end in a graffiti, an empty graffiti or an
// error - never a crash; the location asked for carries the slot and validator
// index; what comes back is a line of the file with its templates filled in.
func VerifC16_DynamicGraffiti() {
	contents := []string{"", "\n", "\r\n\r\n", "only line", "first\nsecond\n", "first\r\nsecond\r\n\r\n", "slot {{SLOT}} by {{VALIDATORINDEX}}", "a line that is far longer than the thirty-two bytes of a graffiti field"}
	m := &c16Majordomo{primary: vnd.Choose("primary", 3), fallback: vnd.Choose("fallback", 3), content: contents[vnd.Choose("content", len(contents))]}
	hasFallback := vnd.Bool("fallback-configured")
	fallbackLocation := ""
	if hasFallback {
		fallbackLocation = "file:///graffiti/default.txt"
	}
	s := c16New(m, "file:///graffiti/{{SLOT}}/{{VALIDATORINDEX}}.txt", fallbackLocation)
	got, err := s.Graffiti(context.Background(), 12345, 678)
	vnd.Assert(len(m.asked) >= 1 && m.asked[0] == "file:///graffiti/12345/678.txt", "C16.graffiti.location-carries-slot-and-validator")
	final := m.primary
	if m.primary != 0 && hasFallback {
		vnd.Assert(len(m.asked) == 2 && m.asked[1] == "file:///graffiti/default.txt", "C16.graffiti.fallback-asked-when-the-primary-fails")
		final = m.fallback
	} else {
		vnd.Assert(len(m.asked) == 1, "C16.graffiti.single-fetch")
	}
	switch final {
	case 1:
		vnd.Cover("C16.graffiti.not-found")
		vnd.Assert(err == nil && len(got) == 0, "C16.graffiti.not-found-is-an-empty-graffiti")
	case 2:
		vnd.Cover("C16.graffiti.fetch-error")
		vnd.Assert(err != nil, "C16.graffiti.fetch-error-reported")
	default:
		vnd.Cover("C16.graffiti.content")
		vnd.Assert(err == nil, "C16.graffiti.content-no-error")
		g := string(got)
		ok := false
		switch m.content {
		case "", "\n", "\r\n\r\n":
			ok = g == ""
		case "only line":
			ok = g == "only line"
		case "first\nsecond\n", "first\r\nsecond\r\n\r\n":
			ok = g == "first" || g == "second"
		case "slot {{SLOT}} by {{VALIDATORINDEX}}":
			ok = g == "slot 12345 by 678"
		default:
			ok = g == m.content
		}
		vnd.Assert(ok, "C16.graffiti.a-line-of-the-file-with-templates-filled-in")
	}
}
