//go:build verif

package standard

import (
	"context"
	"crypto/sha256"
	"encoding/binary"
	"errors"

	"github.com/attestantio/go-eth2-client/api"
	apiv1 "github.com/attestantio/go-eth2-client/api/v1"
	"github.com/attestantio/go-eth2-client/spec/altair"
	"github.com/attestantio/go-eth2-client/spec/phase0"
	"github.com/attestantio/vouch/internal/vnd"
	"github.com/attestantio/vouch/internal/vstub"
	nullmetrics "github.com/attestantio/vouch/services/metrics/null"
	"github.com/attestantio/vouch/services/synccommitteeaggregator"
	"github.com/attestantio/vouch/services/synccommitteemessenger"
	e2wtypes "github.com/wealdtech/go-eth2-wallet-types/v2"
)

type c15Roots struct {
	fail bool
	root phase0.Root
}

func (h *c15Roots) BeaconBlockRoot(_ context.Context, _ *api.BeaconBlockRootOpts) (*api.Response[*phase0.Root], error) {
	if h.fail {
		return nil, errors.New("mock root failure")
	}
	r := h.root
	return &api.Response[*phase0.Root]{Data: &r, Metadata: map[string]any{}}, nil
}

type c15Agg struct {
	slots []phase0.Slot
	roots []phase0.Root
}

func (h *c15Agg) SetBeaconBlockRoot(slot phase0.Slot, root phase0.Root) {
	h.slots = append(h.slots, slot)
	h.roots = append(h.roots, root)
}
func (h *c15Agg) Aggregate(_ context.Context, _ *synccommitteeaggregator.Duty) {}

type c15RootSigner struct {
	fail  bool
	zero  map[uint64]bool // validator index -> zero signature
	calls int
	epoch phase0.Epoch
	root  phase0.Root
	accs  []e2wtypes.Account
}

func (h *c15RootSigner) SignSyncCommitteeRoots(_ context.Context, accounts []e2wtypes.Account, epoch phase0.Epoch, root phase0.Root) ([]phase0.BLSSignature, error) {
	h.calls++
	h.epoch, h.root, h.accs = epoch, root, accounts
	if h.fail {
		return nil, errors.New("mock signer failure")
	}
	sigs := make([]phase0.BLSSignature, len(accounts))
	for i, a := range accounts {
		if a == nil {
			continue
		}
		v := a.(*vstub.Account).VIndex
		if h.zero[v] {
			continue
		}
		sigs[i][0] = byte(v)
		sigs[i][1] = 0xaa
	}
	return sigs, nil
}

type c15Submitter struct {
	fail  bool
	calls [][]*altair.SyncCommitteeMessage
}

func (h *c15Submitter) SubmitSyncCommitteeMessages(_ context.Context, msgs []*altair.SyncCommitteeMessage) error {
	h.calls = append(h.calls, msgs)
	if h.fail {
		return errors.New("mock submit failure")
	}
	return nil
}

// c15Spec is the chain specification New reads its constants from.
type c15Spec struct {
	spec map[string]any
}

func (h *c15Spec) Spec(_ context.Context, _ *api.SpecOpts) (*api.Response[map[string]any], error) {
	return &api.Response[map[string]any]{Data: h.spec, Metadata: map[string]any{}}, nil
}

// c15Accounts and c15SubsSubmitter are the validating accounts provider and the
// subscriptions submitter New insists on; the messenger takes its accounts
// from the duty and never subscribes.
type c15Accounts struct{}

func (c15Accounts) ValidatingAccountsForEpoch(_ context.Context, _ phase0.Epoch) (map[phase0.ValidatorIndex]e2wtypes.Account, error) {
	return nil, errors.New("not used")
}

func (c15Accounts) ValidatingAccountsForEpochByIndex(_ context.Context, _ phase0.Epoch, _ []phase0.ValidatorIndex) (map[phase0.ValidatorIndex]e2wtypes.Account, error) {
	return nil, errors.New("not used")
}

func (c15Accounts) SyncCommitteeAccountsForEpoch(_ context.Context, _ phase0.Epoch) (map[phase0.ValidatorIndex]e2wtypes.Account, error) {
	return nil, errors.New("not used")
}

func (c15Accounts) SyncCommitteeAccountsForEpochByIndex(_ context.Context, _ phase0.Epoch, _ []phase0.ValidatorIndex) (map[phase0.ValidatorIndex]e2wtypes.Account, error) {
	return nil, errors.New("not used")
}

type c15SubsSubmitter struct{}

func (c15SubsSubmitter) SubmitSyncCommitteeSubscriptions(_ context.Context, _ []*apiv1.SyncCommitteeSubscription) error {
	return errors.New("not used")
}

// c15Env is what a harness configures the messenger with; what it leaves out
// is filled with inert stubs and the mainnet constants.
type c15Env struct {
	ct                    *vstub.ChainTime
	size, subnets, target uint64
	agg                   *c15Agg
	roots                 *c15Roots
	sub                   *c15Submitter
	signer                *c15RootSigner
	sel                   *c15SelSigner
}

// c15New builds the messenger the way main does: through New, its constants
// coming from the chain specification. New leaves the slot data records empty.
func c15New(label string, e c15Env) *Service {
	if e.ct == nil {
		e.ct = &vstub.ChainTime{SPE: 32, SlotNs: 1 << 33}
	}
	if e.size == 0 {
		e.size, e.subnets, e.target = 512, 4, 16
	}
	if e.agg == nil {
		e.agg = &c15Agg{}
	}
	if e.roots == nil {
		e.roots = &c15Roots{}
	}
	if e.sub == nil {
		e.sub = &c15Submitter{}
	}
	if e.signer == nil {
		e.signer = &c15RootSigner{}
	}
	if e.sel == nil {
		e.sel = &c15SelSigner{}
	}
	s, err := New(context.Background(),
		WithLogLevel(vnd.LogLevel()),
		WithMonitor(&nullmetrics.Service{}),
		WithProcessConcurrency(2),
		WithSpecProvider(&c15Spec{spec: map[string]any{
			"SLOTS_PER_EPOCH": e.ct.SPE, "SYNC_COMMITTEE_SIZE": e.size, "SYNC_COMMITTEE_SUBNET_COUNT": e.subnets,
			"TARGET_AGGREGATORS_PER_SYNC_SUBCOMMITTEE": e.target,
		}}),
		WithChainTimeService(e.ct),
		WithSyncCommitteeAggregator(e.agg),
		WithBeaconBlockRootProvider(e.roots),
		WithSyncCommitteeMessagesSubmitter(e.sub),
		WithSyncCommitteeSubscriptionsSubmitter(c15SubsSubmitter{}),
		WithValidatingAccountsProvider(c15Accounts{}),
		WithSyncCommitteeRootSigner(e.signer),
		WithSyncCommitteeSelectionSigner(e.sel),
	)
	vnd.Assert(err == nil && s != nil, label)
	return s
}

// VerifC15_Message: a message goes out for every member with an account and a
// signature, over the head root obtained for the slot; one member's missing
// account or signature never suppresses another's.
func VerifC15_Message() { c15Message(vnd.IntRange("m", 1, 2)) }

func VerifC15_Message3() { c15Message(3) }

func c15Message(m int) {
	ct := vstub.NewChainTime(0)
	roots := &c15Roots{root: phase0.Root(vnd.Root("head")), fail: false}
	agg := &c15Agg{}
	signer := &c15RootSigner{zero: map[uint64]bool{}}
	sub := &c15Submitter{}
	switch vnd.Choose("failpoint", 4) {
	case 1:
		roots.fail = true
	case 2:
		signer.fail = true
	case 3:
		sub.fail = true
	}
	s := c15New("C15.new.accepted", c15Env{ct: ct, size: 512, subnets: 4, target: 16, agg: agg, roots: roots, sub: sub, signer: signer})
	slot := phase0.Slot(vnd.U64("slot"))
	vnd.Assume(uint64(slot) < 1<<40)
	indices := map[phase0.ValidatorIndex][]phase0.CommitteeIndex{}
	hasAccount := make([]bool, m)
	zeroSig := make([]bool, m)
	for i := 0; i < m; i++ {
		indices[phase0.ValidatorIndex(20+i)] = []phase0.CommitteeIndex{phase0.CommitteeIndex(i)}
	}
	duty := synccommitteemessenger.NewDuty(slot, indices)
	for i := 0; i < m; i++ {
		hasAccount[i] = vnd.Bool("has-account")
		if hasAccount[i] {
			duty.SetAccount(phase0.ValidatorIndex(20+i), &vstub.Account{VIndex: uint64(20 + i), Nm: "acc"})
			zeroSig[i] = vnd.Bool("zero-sig")
			signer.zero[uint64(20+i)] = zeroSig[i]
		}
	}
	msgs, err := s.Message(context.Background(), duty)
	_ = msgs
	// the committee positions a duty is built from are shared: the controller hands the same map to
	// the duties of every slot of the period and the head-event verification reads it unlocked, so
	// a message job leaves it exactly as it was
	vnd.Assert(len(indices) == m && len(duty.ContributionIndices()) == m, "C15.message.duty-data-shared-between-slots-is-left-as-it-was")
	for i := 0; i < m; i++ {
		ci, ok := indices[phase0.ValidatorIndex(20+i)]
		vnd.Assert(ok && len(ci) == 1 && ci[0] == phase0.CommitteeIndex(i), "C15.message.duty-data-shared-between-slots-is-left-as-it-was")
	}
	if roots.fail {
		vnd.Assert(err != nil && signer.calls == 0 && len(sub.calls) == 0, "C15.message.no-root-no-message")
		return
	}
	anyAccount := false
	expected := 0
	for i := 0; i < m; i++ {
		if hasAccount[i] {
			anyAccount = true
			if !zeroSig[i] {
				expected++
			}
		}
	}
	if !anyAccount {
		vnd.Assert(signer.calls == 0 && len(sub.calls) == 0, "C15.message.nothing-without-accounts")
		return
	}
	vnd.Assert(signer.calls == 1, "C15.message.single-sign-call")
	vnd.Assert(signer.root == roots.root, "C15.message.signed-over-obtained-head-root")
	vnd.Assert(uint64(signer.epoch) == uint64(slot)/ct.SPE, "C15.message.signed-for-slot-epoch")
	if signer.fail {
		vnd.Assert(err != nil && len(sub.calls) == 0, "C15.message.signer-error")
		return
	}
	if expected > 0 {
		vnd.Cover("C15.message.some-member-messages")
		vnd.Assert(len(sub.calls) == 1, "C15.message.members-with-signature-are-submitted")
	}
	if expected > 0 && expected < m {
		vnd.Cover("C15.message.one-member-skipped-others-message")
	}
	var submitted []*altair.SyncCommitteeMessage
	if len(sub.calls) > 0 {
		submitted = sub.calls[0]
	}
	vnd.Assert(len(submitted) == expected, "C15.message.one-message-per-signing-member")
	for i := 0; i < m; i++ {
		n := 0
		for _, msg := range submitted {
			if msg.ValidatorIndex == phase0.ValidatorIndex(20+i) {
				n++
				vnd.Assert(msg.Slot == slot, "C15.message.slot")
				vnd.Assert(msg.BeaconBlockRoot == roots.root, "C15.message.head-root")
				vnd.Assert(msg.Signature[0] == byte(20+i) && msg.Signature[1] == 0xaa, "C15.message.own-signature")
			}
		}
		if hasAccount[i] && !zeroSig[i] {
			vnd.Assert(n == 1, "C15.message.member-with-account-and-signature-messages")
		} else {
			vnd.Assert(n == 0, "C15.message.no-message-without-account-or-signature")
		}
	}
	// head root recorded for aggregation
	vnd.Assert(len(agg.slots) == 1 && agg.slots[0] == slot && agg.roots[0] == roots.root, "C15.message.root-recorded-for-aggregation")
}

type c15SelSigner struct {
	fail bool
	sigs []phase0.BLSSignature
	slot phase0.Slot
	subs []uint64
	accs []e2wtypes.Account
}

func (h *c15SelSigner) SignSyncCommitteeSelections(_ context.Context, accounts []e2wtypes.Account, slot phase0.Slot, subcommittees []uint64) ([]phase0.BLSSignature, error) {
	h.slot, h.subs, h.accs = slot, subcommittees, accounts
	if h.fail {
		return nil, errors.New("mock selection failure")
	}
	h.sigs = make([]phase0.BLSSignature, len(accounts))
	for i := range accounts {
		h.sigs[i] = phase0.BLSSignature(vnd.Sig("selsig"))
	}
	return h.sigs, nil
}

// VerifC15_Prepare: subcommittee = index / (size / subnets); aggregator iff
// LE64(sha256(sig)[0:8]) mod max(1, size/subnets/target) == 0; members without
// an account are skipped without affecting the others.
func VerifC15_Prepare() {
	m := vnd.IntRange("m", 1, 2)
	sel := &c15SelSigner{fail: vnd.Bool("selection.fail")}
	type params struct{ size, subnets, target uint64 }
	choices := []params{{512, 4, 16}, {32, 4, 16}, {8, 4, 1}}
	p := choices[vnd.Choose("params", len(choices))]
	s := c15New("C15.new.accepted", c15Env{size: p.size, subnets: p.subnets, target: p.target, sel: sel})
	slot := phase0.Slot(vnd.U64("slot"))
	indices := map[phase0.ValidatorIndex][]phase0.CommitteeIndex{}
	pos := make([]uint64, m)
	hasAccount := make([]bool, m)
	for i := 0; i < m; i++ {
		pos[i] = vnd.U64("position")
		vnd.Assume(pos[i] < p.size)
		indices[phase0.ValidatorIndex(30+i)] = []phase0.CommitteeIndex{phase0.CommitteeIndex(pos[i])}
	}
	// the first member may hold a second position, in another subcommittee
	second := vnd.Bool("second-position")
	pos2 := uint64(0)
	if second {
		pos2 = vnd.U64("position2")
		vnd.Assume(pos2 < p.size && pos2/(p.size/p.subnets) != pos[0]/(p.size/p.subnets))
		indices[30] = append(indices[30], phase0.CommitteeIndex(pos2))
	}
	duty := synccommitteemessenger.NewDuty(slot, indices)
	nacc := 0
	for i := 0; i < m; i++ {
		hasAccount[i] = vnd.Bool("has-account")
		if hasAccount[i] {
			nacc++
			duty.SetAccount(phase0.ValidatorIndex(30+i), &vstub.Account{VIndex: uint64(30 + i), Nm: "acc"})
		}
	}
	err := s.Prepare(context.Background(), duty)
	if nacc == 0 {
		vnd.Assert(err == nil && sel.accs == nil, "C15.prepare.nothing-without-accounts")
		return
	}
	nsel := nacc
	if second && hasAccount[0] {
		nsel++
	}
	vnd.Assert(len(sel.accs) == nsel && sel.slot == slot, "C15.prepare.selection-signed-for-every-position-of-members-with-account")
	if sel.fail {
		vnd.Assert(err != nil, "C15.prepare.signer-error")
		return
	}
	modulo := p.size / p.subnets / p.target
	if modulo < 1 {
		modulo = 1
	}
	for k, acc := range sel.accs {
		v := acc.(*vstub.Account).VIndex
		i := int(v - 30)
		vnd.Assert(hasAccount[i], "C15.prepare.only-members-with-account")
		wantSub := pos[i] / (p.size / p.subnets)
		if i == 0 && second && sel.subs[k] != wantSub {
			wantSub = pos2 / (p.size / p.subnets) // the member's other position
			vnd.Cover("C15.prepare.second-subcommittee")
		}
		vnd.Assert(sel.subs[k] == wantSub, "C15.prepare.subcommittee-rule")
		h := sha256.Sum256(sel.sigs[k][:])
		isAgg := binary.LittleEndian.Uint64(h[:8])%modulo == 0
		got := duty.AggregatorSubcommittees(phase0.ValidatorIndex(v))
		proof, present := got[wantSub]
		vnd.Assert(present == isAgg, "C15.prepare.spec-aggregator-rule")
		if isAgg {
			vnd.Cover("C15.prepare.aggregator")
			vnd.Assert(proof == sel.sigs[k], "C15.prepare.selection-proof-kept")
		}
	}
	vnd.Cover("C15.prepare.checked")
}

// VerifC20_SlotDataRecordsBounded: the per-slot record of what was signed stays
// bounded under the default configuration (nobody else cleans it up).
func VerifC20_SlotDataRecordsBounded() {
	// the records' pre-state is filled in below
	s := c15New("C20.new.accepted", c15Env{})
	slot := []phase0.Slot{1000, 7654321}[vnd.Choose("slot", 2)] // concrete: 100 map keys are compared pairwise
	for back := phase0.Slot(1); back <= maxSlotDataRecordsBeforeCleanUp+1; back++ {
		s.slotDataRecords[slot-back] = synccommitteemessenger.SlotData{}
	}
	s.UpdateSyncCommitteeDataRecord(slot, phase0.Root{1}, nil)
	_, ok := s.slotDataRecords[slot]
	vnd.Assert(ok, "C20.records.recorded")
	vnd.Assert(len(s.slotDataRecords) <= maxSlotDataRecordsBeforeCleanUp+1, "C20.records.bounded-without-external-cleanup")
	for k := range s.slotDataRecords {
		if k+minSlotDataRecordsToKeep >= slot {
			vnd.Cover("C20.records.recent-kept")
		}
	}
	// recent records needed for inclusion verification are kept
	_, recent := s.slotDataRecords[slot-1]
	vnd.Assert(recent, "C20.records.recent-records-kept")
}

// VerifC17_SlotDataRecords: recording the data used for a slot (message job)
// overlapping its lookup or clean-up (head event handler) has no unsynchronised
// conflicting accesses.
func VerifC17_SlotDataRecords() {
	// the records' pre-state is filled in below
	s := c15New("C17.new.accepted", c15Env{})
	for i := phase0.Slot(0); i < 3; i++ {
		s.slotDataRecords[100+i] = synccommitteemessenger.SlotData{}
	}
	other := vnd.Choose("other-operation", 2)
	go s.UpdateSyncCommitteeDataRecord(200, phase0.Root{1}, nil)
	go func() {
		if other == 0 {
			_, _ = s.GetDataUsedForSlot(101)
		} else {
			s.RemoveHistoricDataUsedForSlotVerification(200)
		}
	}()
	left := vnd.Quiesce()
	vnd.Assert(left == 0, "C17.records.everything-returns")
	vnd.Cover("C17.records.overlap-explored")
}
