//go:build verif

package blockrelay

import (
	"context"
	"errors"
	"strings"

	"github.com/attestantio/go-eth2-client/spec/bellatrix"
	"github.com/attestantio/go-eth2-client/spec/phase0"
	"github.com/attestantio/vouch/internal/vnd"
	v1 "github.com/attestantio/vouch/services/blockrelay/v1"
	v2 "github.com/attestantio/vouch/services/blockrelay/v2"
)

// VerifStub_json_Unmarshal stands for encoding/json.Unmarshal in the version
// dispatch of execution configurations, for the catalogue documents of
// VerifC16_Dispatch. It follows the decoder's rules for the targets met here:
// a target implementing json.Unmarshaler has its UnmarshalJSON called with the
// document; a pointer-to-pointer target is set to nil by the document null and
// allocated otherwise; null has no effect on any other target. The wire structs
// of the v1/v2 packages are outside the catalogue (an error) except for null.
// The native replay runs the real decoder.
func VerifStub_json_Unmarshal(data []byte, v any) error {
	doc := strings.TrimSpace(string(data))
	switch d := v.(type) {
	case *executionConfigMetadataJSON:
		switch doc {
		case "null", "{}":
			return nil
		case `{"version":2}`:
			d.Version = 2
			return nil
		case `{"version":3}`:
			d.Version = 3
			return nil
		case `[]`:
			return errors.New("json: cannot unmarshal array into Go value of type blockrelay.executionConfigMetadataJSON")
		}
		return errors.New("unexpected end of JSON input")
	case *v1.ExecutionConfig:
		return d.UnmarshalJSON(data)
	case *v2.ExecutionConfig:
		return d.UnmarshalJSON(data)
	case **v1.ExecutionConfig:
		if doc == "null" {
			*d = nil
			return nil
		}
		if *d == nil {
			*d = &v1.ExecutionConfig{}
		}
		return (*d).UnmarshalJSON(data)
	case **v2.ExecutionConfig:
		if doc == "null" {
			*d = nil
			return nil
		}
		if *d == nil {
			*d = &v2.ExecutionConfig{}
		}
		return (*d).UnmarshalJSON(data)
	}
	if doc == "null" {
		return nil
	}
	return errors.New("document outside the catalogue")
}

// VerifC16_Dispatch: the version dispatch of an execution configuration
// document of any top-level shape (null, with and without surrounding space,
// an empty object, an unknown version, an array,
// a truncated document) ends with an error or with a configuration that can be
// asked for proposer settings; it never crashes and never hands out an unusable
// configuration.
func VerifC16_Dispatch() {
	docs := []string{"null", " null\n", "{}", `{"version":3}`, "[]", "{broken"}
	doc := docs[vnd.Choose("document", len(docs))]
	cfg, err := UnmarshalJSON([]byte(doc))
	if err != nil {
		vnd.Cover("C16.dispatch.refused")
		vnd.Assert(cfg == nil, "C16.dispatch.no-configuration-with-an-error")
		return
	}
	vnd.Assert(cfg != nil, "C16.dispatch.configuration-or-error")
	if cfg == nil {
		return
	}
	pc, perr := cfg.ProposerConfig(context.Background(), nil, phase0.BLSPubKey{7}, bellatrix.ExecutionAddress{0xfa}, 30000000)
	vnd.Assert(perr != nil || pc != nil, "C16.dispatch.accepted-configuration-answers-lookups")
}
