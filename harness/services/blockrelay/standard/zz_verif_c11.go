//go:build verif

package standard

import (
	"context"
	"errors"
	"github.com/attestantio/go-block-relay/types"
	"time"

	builderapi "github.com/attestantio/go-builder-client/api"
	apiv1 "github.com/attestantio/go-builder-client/api/v1"
	builderspec "github.com/attestantio/go-builder-client/spec"
	consensusapi "github.com/attestantio/go-eth2-client/api"
	"github.com/attestantio/go-eth2-client/spec/bellatrix"
	"github.com/attestantio/go-eth2-client/spec/phase0"
	"github.com/attestantio/vouch/internal/vnd"
	"github.com/attestantio/vouch/internal/vstub"
	"github.com/attestantio/vouch/services/beaconblockproposer"
	"github.com/attestantio/vouch/util"
	"github.com/shopspring/decimal"
	e2wtypes "github.com/wealdtech/go-eth2-wallet-types/v2"
)

// per (account, relay) resolved settings
type c11Setting struct {
	fee bellatrix.ExecutionAddress
	gas uint64
}

type c11Config struct {
	unresolvable map[uint64]bool     // account tag -> settings cannot be resolved
	relays       map[uint64][]string // account tag -> relay addresses (ordered)
	settings     map[uint64]map[string]c11Setting
}

func (c *c11Config) ProposerConfig(_ context.Context, account e2wtypes.Account, pubkey phase0.BLSPubKey, _ bellatrix.ExecutionAddress, _ uint64) (*beaconblockproposer.ProposerConfig, error) {
	// lookups for validators not controlled by Vouch come without an account (harness keys: 0x40 + tag - 1)
	tag := uint64(pubkey[0]-0x40) + 1
	if account != nil {
		tag = account.(*vstub.Account).Tag
	}
	if c.unresolvable[tag] {
		return nil, errors.New("mock: settings cannot be resolved")
	}
	pc := &beaconblockproposer.ProposerConfig{FeeRecipient: bellatrix.ExecutionAddress{0xee}}
	for _, addr := range c.relays[tag] {
		st := c.settings[tag][addr]
		pc.Relays = append(pc.Relays, &beaconblockproposer.RelayConfig{Address: addr, FeeRecipient: st.fee, GasLimit: st.gas, MinValue: decimal.Zero})
	}
	return pc, nil
}

type c11Signer struct {
	failFor map[uint64]bool
	calls   int
}

func c11Sig(tag uint64, reg *apiv1.ValidatorRegistration) phase0.BLSSignature {
	var s phase0.BLSSignature
	s[0] = byte(tag)
	copy(s[1:5], reg.FeeRecipient[0:4])
	s[5] = reg.FeeRecipient[19]
	for i := 0; i < 8; i++ {
		s[8+i] = byte(reg.GasLimit >> (8 * uint(i)))
	}
	copy(s[16:20], reg.Pubkey[0:4])
	return s
}

func (g *c11Signer) SignValidatorRegistration(_ context.Context, account e2wtypes.Account, reg *builderapi.VersionedValidatorRegistration) (phase0.BLSSignature, error) {
	g.calls++
	tag := account.(*vstub.Account).Tag
	if g.failFor[tag] {
		return phase0.BLSSignature{}, errors.New("mock sign failure")
	}
	return c11Sig(tag, reg.V1), nil
}

type c11Relay struct {
	name  string
	fail  bool
	calls [][]*builderapi.VersionedSignedValidatorRegistration
}

func (r *c11Relay) Name() string              { return r.name }
func (r *c11Relay) Address() string           { return r.name }
func (r *c11Relay) Pubkey() *phase0.BLSPubKey { return nil }
func (r *c11Relay) SubmitValidatorRegistrations(_ context.Context, opts *builderapi.SubmitValidatorRegistrationsOpts) error {
	r.calls = append(r.calls, opts.Registrations)
	if r.fail {
		return errors.New("mock relay failure")
	}
	return nil
}

type c11Node struct {
	name  string
	fail  bool
	calls [][]*consensusapi.VersionedSignedValidatorRegistration
	// echo: this beacon node has Vouch as its builder endpoint, so the
	// registrations it is given come straight back through the builder API
	echo *Service
}

func (n *c11Node) Name() string    { return n.name }
func (n *c11Node) Address() string { return n.name }
func (n *c11Node) IsActive() bool  { return true }
func (n *c11Node) IsSynced() bool  { return true }
func (n *c11Node) SubmitValidatorRegistrations(_ context.Context, regs []*consensusapi.VersionedSignedValidatorRegistration) error {
	n.calls = append(n.calls, regs)
	if n.echo != nil {
		back := make([]*types.SignedValidatorRegistration, 0, len(regs))
		for _, r := range regs {
			back = append(back, &types.SignedValidatorRegistration{Signature: r.V1.Signature, Message: &types.ValidatorRegistration{
				FeeRecipient: r.V1.Message.FeeRecipient, GasLimit: r.V1.Message.GasLimit, Timestamp: r.V1.Message.Timestamp, Pubkey: r.V1.Message.Pubkey}})
		}
		_, _ = n.echo.ValidatorRegistrations(context.Background(), back)
	}
	if n.fail {
		return errors.New("mock node failure")
	}
	return nil
}

var c11RelayNames = []string{"https://relay-a.example", "https://relay-b.example"}

// VerifC11_Registrations: every relay of every resolvable, signing validator
// receives that validator's registration with that relay's fee recipient and gas
// limit, signed over those values; failures are isolated.
func VerifC11_Registrations() {
	util.VerifResetBuilderClients()
	na := vnd.IntRange("accounts", 1, 2)
	relays := []*c11Relay{{name: c11RelayNames[0], fail: vnd.Bool("relay-a.fail")}, {name: c11RelayNames[1], fail: vnd.Bool("relay-b.fail")}}
	for _, r := range relays {
		util.VerifSetBuilderClient(r.name, r)
	}
	nodes := []*c11Node{{name: "node-a", fail: vnd.Bool("node-a.fail")}, {name: "node-b"}}
	cfg := &c11Config{unresolvable: map[uint64]bool{}, relays: map[uint64][]string{}, settings: map[uint64]map[string]c11Setting{}}
	signer := &c11Signer{failFor: map[uint64]bool{}}
	accounts := map[phase0.ValidatorIndex]e2wtypes.Account{}
	for i := 0; i < na; i++ {
		tag := uint64(i + 1)
		acc := &vstub.Account{Tag: tag, VIndex: tag, Nm: "acc"}
		acc.Key.B[0] = byte(0x40 + i)
		accounts[phase0.ValidatorIndex(tag)] = acc
		cfg.unresolvable[tag] = vnd.Bool("unresolvable")
		signer.failFor[tag] = vnd.Bool("sign.fail")
		nr := vnd.IntRange("relays", 1, 2)
		cfg.settings[tag] = map[string]c11Setting{}
		for k := 0; k < nr; k++ {
			cfg.relays[tag] = append(cfg.relays[tag], c11RelayNames[k])
			cfg.settings[tag][c11RelayNames[k]] = c11Setting{fee: bellatrix.ExecutionAddress(vnd.Addr("fee")), gas: vnd.U64("gas")}
		}
	}
	s := relayNew(vstub.NewChainTime(0))
	s.validatorRegistrationSigner, s.executionConfig = signer, cfg
	s.secondaryValidatorRegistrationsSubmitters = append(s.secondaryValidatorRegistrationsSubmitters, nodes[0], nodes[1])
	if vnd.Bool("node-b.has-vouch-as-its-builder") {
		nodes[1].echo = s
	}
	_ = s.submitValidatorRegistrationsForAccounts(context.Background(), accounts)
	vnd.Quiesce()

	expectedFirst := 0
	for i := 0; i < na; i++ {
		tag := uint64(i + 1)
		ok := !cfg.unresolvable[tag] && !signer.failFor[tag]
		for k, addr := range cfg.relays[tag] {
			st := cfg.settings[tag][addr]
			// count this validator's registrations at this relay
			n := 0
			for _, batch := range relays[k].calls {
				for _, reg := range batch {
					if reg.V1.Message.Pubkey[0] == byte(0x40+i) {
						n++
						vnd.Assert(reg.V1.Message.FeeRecipient == st.fee && reg.V1.Message.GasLimit == st.gas, "C11.registration-carries-that-relays-fee-recipient-and-gas-limit")
						vnd.Assert(reg.V1.Signature == c11Sig(tag, reg.V1.Message), "C11.registration-signed-by-that-validator-over-those-values")
					}
				}
			}
			if ok {
				vnd.Cover("C11.validator-registered")
				vnd.Assert(n == 1, "C11.every-relay-of-every-resolvable-validator-gets-its-registration")
			} else {
				vnd.Assert(n == 0, "C11.no-registration-without-settings-or-signature")
			}
			if ok && k == 0 {
				expectedFirst++
			}
		}
	}
	// every secondary beacon node receives the first relay's registration of each such validator
	for _, nd := range nodes {
		got := 0
		for _, batch := range nd.calls {
			got += len(batch)
		}
		vnd.Assert(got == expectedFirst, "C11.every-beacon-node-gets-the-registrations-despite-other-failures")
	}
	vnd.Assert(len(relays[0].calls) <= 1 && len(relays[1].calls) <= 1, "C11.one-submission-per-relay")
}

// VerifC11_Reuse: a signed registration is reused only while its content is unchanged.
func VerifC11_Reuse() {
	util.VerifResetBuilderClients()
	relay := &c11Relay{name: c11RelayNames[0]}
	util.VerifSetBuilderClient(relay.name, relay)
	cfg := &c11Config{unresolvable: map[uint64]bool{}, relays: map[uint64][]string{1: {relay.name}}, settings: map[uint64]map[string]c11Setting{1: {}}}
	signer := &c11Signer{failFor: map[uint64]bool{}}
	acc := &vstub.Account{Tag: 1, VIndex: 1, Nm: "acc"}
	accounts := map[phase0.ValidatorIndex]e2wtypes.Account{1: acc}
	s := relayNew(vstub.NewChainTime(0))
	s.validatorRegistrationSigner, s.executionConfig = signer, cfg
	// four rounds; in each the settings are what they are (changed, changed back, unchanged) and
	// the signing request may fail. The reference: a registration is reused exactly when its
	// content is that of the registration sent last for the validator; otherwise it is signed
	// afresh (the old object carries an old timestamp), and if that fails nothing is sent for the
	// validator this round and nothing about the failed attempt is remembered.
	const rounds = 4
	st := [rounds]c11Setting{}
	var last c11Setting // content of the registration sent last
	haveLast := false
	sent := 0
	for round := 0; round < rounds; round++ {
		st[round] = c11Setting{fee: bellatrix.ExecutionAddress(vnd.Addr("fee")), gas: vnd.U64("gas")}
		cfg.settings[1][relay.name] = st[round]
		signer.failFor[1] = vnd.Bool("sign.fails")
		before := signer.calls
		_ = s.submitValidatorRegistrationsForAccounts(context.Background(), accounts)
		vnd.Quiesce()
		reuse := haveLast && st[round] == last
		if reuse {
			vnd.Cover("C11.reuse.unchanged")
			vnd.Assert(signer.calls == before, "C11.reuse.unchanged-content-is-not-signed-again")
		} else {
			vnd.Assert(signer.calls == before+1, "C11.reuse.changed-content-is-signed-afresh")
			if haveLast && round >= 2 && (st[round] == st[0] || st[round] == st[1]) {
				vnd.Cover("C11.reuse.changed-and-changed-back")
			}
		}
		if !reuse && signer.failFor[1] {
			vnd.Cover("C11.reuse.signing-failed")
			got := 0
			for _, batch := range relay.calls[sent:] {
				got += len(batch)
			}
			vnd.Assert(got == 0, "C11.reuse.nothing-sent-for-a-validator-whose-signing-failed")
			sent = len(relay.calls)
			continue
		}
		vnd.Assert(len(relay.calls) == sent+1 && len(relay.calls[sent]) == 1, "C11.reuse.each-round-registers")
		if len(relay.calls) != sent+1 || len(relay.calls[sent]) != 1 {
			return
		}
		reg := relay.calls[sent][0].V1
		sent = len(relay.calls)
		vnd.Assert(reg.Message.FeeRecipient == st[round].fee && reg.Message.GasLimit == st[round].gas, "C11.reuse.content-is-current-settings")
		vnd.Assert(reg.Signature == c11Sig(1, reg.Message), "C11.reuse.signature-matches-content-never-a-stale-one")
		last, haveLast = st[round], true
	}
	_ = builderspec.BuilderVersionV1
}

// VerifC11_Forwarding: registrations arriving on the builder API: those of
// validators Vouch controls are dropped, those of other validators are
// forwarded unchanged (fee recipient, gas limit, timestamp, key, signature) to
// every relay of that validator's settings, whatever the other entries are.
func VerifC11_Forwarding() {
	util.VerifResetBuilderClients()
	relays := []*c11Relay{{name: c11RelayNames[0]}, {name: c11RelayNames[1], fail: vnd.Bool("relay-b.fail")}}
	for _, r := range relays {
		util.VerifSetBuilderClient(r.name, r)
	}
	cfg := &c11Config{unresolvable: map[uint64]bool{}, relays: map[uint64][]string{}, settings: map[uint64]map[string]c11Setting{}}
	s := relayNew(vstub.NewChainTime(0))
	s.executionConfig = cfg
	n := vnd.IntRange("registrations", 1, 2)
	var in []*types.SignedValidatorRegistration
	controlled := make([]bool, n)
	nrel := make([]int, n)
	for i := 0; i < n; i++ {
		tag := uint64(i + 1)
		var key phase0.BLSPubKey
		key[0] = byte(0x40 + i)
		controlled[i] = vnd.Bool("controlled-by-vouch")
		if controlled[i] {
			s.controlledValidators[key] = struct{}{}
		}
		cfg.unresolvable[tag] = vnd.Bool("unresolvable")
		nrel[i] = vnd.IntRange("relays", 0, 2)
		cfg.settings[tag] = map[string]c11Setting{}
		for k := 0; k < nrel[i]; k++ {
			cfg.relays[tag] = append(cfg.relays[tag], c11RelayNames[k])
		}
		in = append(in, &types.SignedValidatorRegistration{Signature: phase0.BLSSignature(vnd.Sig("their-signature")), Message: &types.ValidatorRegistration{
			FeeRecipient: bellatrix.ExecutionAddress(vnd.Addr("their-fee-recipient")), GasLimit: vnd.U64("their-gas-limit"), Timestamp: time.Unix(int64(vnd.SmallU64("their-timestamp", 32)), 0), Pubkey: key}})
	}
	_, err := s.ValidatorRegistrations(context.Background(), in)
	vnd.Assert(err == nil, "C11.forward.no-error")
	vnd.Quiesce()
	for i := 0; i < n; i++ {
		for k := 0; k < 2; k++ {
			got := 0
			for _, batch := range relays[k].calls {
				for _, reg := range batch {
					if reg.V1.Message.Pubkey == in[i].Message.Pubkey {
						got++
						m := reg.V1.Message
						vnd.Assert(m.FeeRecipient == in[i].Message.FeeRecipient && m.GasLimit == in[i].Message.GasLimit && m.Timestamp.Equal(in[i].Message.Timestamp) && reg.V1.Signature == in[i].Signature, "C11.forward.forwarded-unchanged")
					}
				}
			}
			want := 0
			if !controlled[i] && !cfg.unresolvable[uint64(i+1)] && k < nrel[i] {
				want = 1
				vnd.Cover("C11.forward.forwarded")
			}
			if controlled[i] {
				vnd.Cover("C11.forward.controlled-dropped")
			}
			vnd.Assert(got == want, "C11.forward.to-every-relay-of-an-uncontrolled-validator-and-to-none-for-a-controlled-one")
		}
	}
}

// VerifC11_RoundsThenForwarding: two registration rounds with any two sets out of two validators
// (a validator may join or leave between the rounds), then a registration for each of the two
// arriving on the builder API. Vouch registers exactly the validators of each round; what arrives from
// outside is dropped for the validators of the latest round - Vouch registers those itself - and
// forwarded unchanged to the relays of every other validator, one that has left included.
func VerifC11_RoundsThenForwarding() {
	util.VerifResetBuilderClients()
	relay := &c11Relay{name: c11RelayNames[0]}
	util.VerifSetBuilderClient(relay.name, relay)
	cfg := &c11Config{unresolvable: map[uint64]bool{}, relays: map[uint64][]string{}, settings: map[uint64]map[string]c11Setting{}}
	signer := &c11Signer{failFor: map[uint64]bool{}}
	s := relayNew(vstub.NewChainTime(0))
	s.validatorRegistrationSigner, s.executionConfig = signer, cfg
	accs := [2]*vstub.Account{}
	for i := range accs {
		tag := uint64(i + 1)
		accs[i] = &vstub.Account{Tag: tag, VIndex: tag, Nm: "acc"}
		accs[i].Key.B[0] = byte(0x40 + i)
		cfg.relays[tag] = []string{relay.name}
		cfg.settings[tag] = map[string]c11Setting{relay.name: {fee: bellatrix.ExecutionAddress{byte(0xa0 + i)}, gas: 30000000}}
	}
	var in [2][2]bool // in[round][validator]
	for round := 0; round < 2; round++ {
		accounts := map[phase0.ValidatorIndex]e2wtypes.Account{}
		for i := range accs {
			in[round][i] = vnd.Bool("validator-in-round")
			if in[round][i] {
				accounts[phase0.ValidatorIndex(i+1)] = accs[i]
			}
		}
		// a validator that joins in the second round may fail to sign its registration: it is then not
		// registered this round, and it is Vouch's validator all the same
		for i := range accs {
			signer.failFor[uint64(i+1)] = round == 1 && in[1][i] && !in[0][i] && vnd.Bool("signing-fails-for-the-joining-validator")
		}
		before := len(relay.calls)
		_ = s.submitValidatorRegistrationsForAccounts(context.Background(), accounts)
		vnd.Quiesce()
		for i := range accs {
			got := 0
			for _, batch := range relay.calls[before:] {
				for _, reg := range batch {
					if reg.V1.Message.Pubkey[0] == byte(0x40+i) {
						got++
					}
				}
			}
			want := 0
			if in[round][i] && !signer.failFor[uint64(i+1)] {
				want = 1
			}
			vnd.Assert(got == want, "C11.rounds.exactly-the-validators-of-the-round-are-registered")
		}
	}
	if in[0][0] && !in[1][0] {
		vnd.Cover("C11.rounds.validator-left-between-rounds")
	}
	// registrations from outside (a beacon node's validator client) for both validators
	var theirs []*types.SignedValidatorRegistration
	for i := range accs {
		var key phase0.BLSPubKey
		key[0] = byte(0x40 + i)
		theirs = append(theirs, &types.SignedValidatorRegistration{Signature: phase0.BLSSignature{0x77, byte(i)}, Message: &types.ValidatorRegistration{
			FeeRecipient: bellatrix.ExecutionAddress{0x55, byte(i)}, GasLimit: 29000000, Timestamp: time.Unix(1700000000, 0), Pubkey: key}})
	}
	before := len(relay.calls)
	_, err := s.ValidatorRegistrations(context.Background(), theirs)
	vnd.Assert(err == nil, "C11.rounds.forwarding-no-error")
	vnd.Quiesce()
	for i := range accs {
		got := 0
		for _, batch := range relay.calls[before:] {
			for _, reg := range batch {
				if reg.V1.Message.Pubkey == theirs[i].Message.Pubkey {
					got++
					vnd.Assert(reg.V1.Signature == theirs[i].Signature && reg.V1.Message.FeeRecipient == theirs[i].Message.FeeRecipient && reg.V1.Message.GasLimit == theirs[i].Message.GasLimit, "C11.rounds.forwarded-unchanged")
				}
			}
		}
		want := 1
		if in[1][i] {
			want = 0 // Vouch registers this validator itself
		}
		vnd.Assert(got == want, "C11.rounds.dropped-for-the-validators-of-the-latest-round-forwarded-for-all-others")
	}
}
