//go:build verif

package standard

import (
	"context"
	"math/big"

	"github.com/attestantio/go-block-relay/services/blockauctioneer"
	builderclient "github.com/attestantio/go-builder-client"
	"github.com/attestantio/go-builder-client/api/deneb"
	builderspec "github.com/attestantio/go-builder-client/spec"
	"github.com/attestantio/go-eth2-client/spec"
	"github.com/attestantio/go-eth2-client/spec/bellatrix"
	"github.com/attestantio/go-eth2-client/spec/phase0"
	"github.com/attestantio/vouch/internal/vnd"
	"github.com/attestantio/vouch/internal/vstub"
	"github.com/attestantio/vouch/services/beaconblockproposer"
	"github.com/attestantio/vouch/services/blockrelay"
	v2 "github.com/attestantio/vouch/services/blockrelay/v2"
	"github.com/attestantio/vouch/util"
	"github.com/holiman/uint256"
	e2wtypes "github.com/wealdtech/go-eth2-wallet-types/v2"
)

// c09Strategy is the bid strategy: its i-th call has a winner or not as scripted.
type c09Strategy struct {
	calls   int
	winners []bool // per call; calls beyond the script have a winner
	bids    []*builderspec.VersionedSignedBuilderBid
}

func c09Bid(value uint64) *builderspec.VersionedSignedBuilderBid {
	return &builderspec.VersionedSignedBuilderBid{Version: spec.DataVersionDeneb, Deneb: &deneb.SignedBuilderBid{Message: &deneb.BuilderBid{Value: uint256.NewInt(value)}}}
}

func (b *c09Strategy) BuilderBid(_ context.Context, _ phase0.Slot, _ phase0.Hash32, _ phase0.BLSPubKey, _ *beaconblockproposer.ProposerConfig, _ map[phase0.BLSPubKey]*blockrelay.BuilderConfig) (*blockauctioneer.Results, error) {
	i := b.calls
	b.calls++
	res := &blockauctioneer.Results{Participation: map[string]*blockauctioneer.Participation{}, AllProviders: []builderclient.BuilderBidProvider{}, Providers: []builderclient.BuilderBidProvider{}}
	if i >= len(b.winners) || b.winners[i] {
		bid := c09Bid(uint64(1000 + i))
		b.bids = append(b.bids, bid)
		res.WinningParticipation = &blockauctioneer.Participation{Category: "standard", Score: big.NewInt(int64(1000 + i)), Bid: bid}
	}
	return res, nil
}

func c09Service(b *c09Strategy) *Service {
	s := c12Service(&c12Majordomo{}, &c12Accounts{}, &c12Bids{})
	s.builderBidProvider = b
	fee := bellatrix.ExecutionAddress{0x11}
	s.executionConfig = &v2.ExecutionConfig{Version: 2, FeeRecipient: &fee, Relays: map[string]*v2.BaseRelayConfig{"https://relay.example/": {}}}
	return s
}

var _ = util.ValidatorPubkey

type c09AccountsByKey struct{}

func (c09AccountsByKey) AccountByPublicKey(_ context.Context, key phase0.BLSPubKey) (e2wtypes.Account, error) {
	a := &vstub.Account{Tag: 1, Nm: "acc"}
	a.Key.B = key
	return a, nil
}

// VerifC09_AuctionCache: what an auction decided is what a later request for
// the bid of that slot, parent and validator is answered with - the winning bid,
// or nothing when there was no winner - without a second auction; a request for
// another parent or validator does not see it.
func VerifC09_AuctionCache() {
	b := &c09Strategy{winners: []bool{vnd.Bool("auction.has-winner")}}
	s := c09Service(b)
	parent := phase0.Hash32{1}
	// through the public entry point (which looks the account up by key) or directly
	var res *blockauctioneer.Results
	var err error
	if vnd.Bool("auction.through-the-public-entry") {
		s.accountsProvider = c09AccountsByKey{}
		res, err = s.AuctionBlock(context.Background(), 5, parent, phase0.BLSPubKey{7})
	} else {
		res, err = s.auctionBlock(context.Background(), 5, parent, phase0.BLSPubKey{7}, nil)
	}
	vnd.Assert(err == nil && res != nil && b.calls == 1, "C09.cache.auction-held")
	same := vnd.Bool("request.same-key")
	askParent, askKey := parent, phase0.BLSPubKey{7}
	switch {
	case same:
	case vnd.Bool("request.other-parent"):
		askParent = phase0.Hash32{2}
	default:
		askKey = phase0.BLSPubKey{8}
	}
	bid, err := s.BuilderBid(context.Background(), 5, askParent, askKey)
	vnd.Assert(err == nil, "C09.cache.request-no-error")
	if same {
		vnd.Assert(b.calls == 1, "C09.cache.no-second-auction-for-a-decided-slot")
		if b.winners[0] {
			vnd.Cover("C09.cache.winner-served")
			vnd.Assert(bid == b.bids[0], "C09.cache.request-answered-with-the-winning-bid")
		} else {
			vnd.Cover("C09.cache.no-winner-served")
			vnd.Assert(bid == nil, "C09.cache.no-winner-means-no-bid-so-the-local-payload-is-used")
		}
	} else {
		vnd.Cover("C09.cache.other-key")
		// its own auction is held (the script gives it a winner) and answers it
		vnd.Assert(b.calls == 2 && bid == b.bids[len(b.bids)-1], "C09.cache.decision-not-served-for-another-parent-or-validator")
	}
	vnd.Assert(vnd.HeldLocks() == 0, "C09.cache.locks-released")
}

// VerifC09_ConcurrentRequests: two beacon nodes ask for the bid of the same
// slot, parent and validator at the same time, with no auction decided yet
// (schedule mode). Exactly one auction is held whatever the interleaving, and
// both are answered with its outcome - in particular a bid that appears after an
// auction closed without a winner never wins.
func VerifC09_ConcurrentRequests() {
	first := vnd.Bool("first-auction.has-winner")
	b := &c09Strategy{winners: []bool{first}} // a second auction, were it held, would find a bid
	s := c09Service(b)
	var got [2]*builderspec.VersionedSignedBuilderBid
	var errs [2]error
	done := 0
	for i := 0; i < 2; i++ {
		i := i
		go func() {
			got[i], errs[i] = s.BuilderBid(context.Background(), 5, phase0.Hash32{1}, phase0.BLSPubKey{7})
			done++
		}()
	}
	left := vnd.Quiesce()
	vnd.Assert(left == 0 && done == 2, "C09.concurrent.both-requests-return")
	vnd.Assert(errs[0] == nil && errs[1] == nil, "C09.concurrent.no-error")
	vnd.Assert(b.calls == 1, "C09.concurrent.exactly-one-auction")
	if first {
		vnd.Cover("C09.concurrent.winner")
		vnd.Assert(got[0] == b.bids[0] && got[1] == b.bids[0], "C09.concurrent.both-answered-with-the-winning-bid")
	} else {
		vnd.Cover("C09.concurrent.no-winner")
		vnd.Assert(got[0] == nil && got[1] == nil, "C09.concurrent.a-bid-appearing-after-the-auction-closed-never-wins")
	}
	vnd.Assert(vnd.HeldLocks() == 0, "C09.concurrent.locks-released")
}

// VerifC17_BidCache: requests for cached bids (REST path) overlapping auctions
// that cache bids for other parents of the same slot (after a reorg) have no
// unsynchronised conflicting accesses.
func VerifC17_BidCache() {
	b := &c09Strategy{}
	s := c09Service(b)
	_, _ = s.auctionBlock(context.Background(), 5, phase0.Hash32{1}, phase0.BLSPubKey{7}, nil)
	done := 0
	go func() { _, _ = s.BuilderBid(context.Background(), 5, phase0.Hash32{1}, phase0.BLSPubKey{7}); done++ }()
	go func() {
		_, _ = s.auctionBlock(context.Background(), 5, phase0.Hash32{2}, phase0.BLSPubKey{7}, nil)
		done++
	}()
	go func() { _, _ = s.BuilderBid(context.Background(), 5, phase0.Hash32{3}, phase0.BLSPubKey{7}); done++ }()
	left := vnd.Quiesce()
	vnd.Assert(left == 0 && done == 3, "C17.bidcache.all-return")
}
