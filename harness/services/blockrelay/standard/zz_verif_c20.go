//go:build verif

package standard

import (
	"context"
	"fmt"
	"strconv"

	builderspec "github.com/attestantio/go-builder-client/spec"
	"github.com/attestantio/go-eth2-client/spec/phase0"
	"github.com/attestantio/vouch/internal/vnd"
)

// VerifC20_BidCacheBounded: one auction from an arbitrary state of the bid
// cache (inductive step of "the cache of auction results, kept per slot, holds
// nothing older than a fixed window of recent slots"): after the auction for
// slot S nothing from more than two epochs before S is left.
func VerifC20_BidCacheBounded() {
	// the auction has a winner or not (relays down, bids below the minimum ...): its result is cached either way
	s := c09Service(&c09Strategy{winners: []bool{vnd.Bool("auction-has-a-winner")}})
	slot := vnd.U64("slot")
	vnd.Assume(slot < 1<<40)
	n := vnd.IntRange("cached-slots", 0, 3)
	for i := 0; i < n; i++ {
		old := vnd.U64("cached.slot")
		vnd.Assume(old <= slot)
		s.builderBidsCache[fmt.Sprintf("%d", old)] = map[string]*builderspec.VersionedSignedBuilderBid{"x": c09Bid(1)}
	}
	_, _ = s.AuctionBlock(context.Background(), phase0.Slot(slot), phase0.Hash32{1}, phase0.BLSPubKey{7})
	for k := range s.builderBidsCache {
		cached, err := strconv.ParseUint(k, 10, 64)
		vnd.Assert(err == nil, "C20.bidcache.keys-are-slots")
		vnd.Assert(cached+64 >= slot, "C20.bidcache.nothing-older-than-two-epochs-after-an-auction")
	}
	_, have := s.builderBidsCache[fmt.Sprintf("%d", slot)]
	vnd.Assert(have, "C20.bidcache.result-of-this-auction-kept")
	vnd.Cover("C20.bidcache.checked")
}
