//go:build verif

package standard

import (
	"context"

	"github.com/attestantio/go-block-relay/types"

	apiv1 "github.com/attestantio/go-builder-client/api/v1"
	"github.com/attestantio/go-eth2-client/spec/phase0"
	"github.com/attestantio/vouch/internal/vnd"
	"github.com/attestantio/vouch/internal/vstub"
	"github.com/attestantio/vouch/util"
	e2wtypes "github.com/wealdtech/go-eth2-wallet-types/v2"
	"golang.org/x/sync/semaphore"
)

type c17Accounts struct{ c12Accounts }

// VerifC17_ConfigRefreshVsUsers: a configuration refresh overlapping a
// registration round, a settings lookup or an auction has no unsynchronised
// conflicting accesses (happens-before race monitor).
func VerifC17_ConfigRefreshVsUsers() {
	util.VerifResetBuilderClients()
	m := &c12Majordomo{outcome: docValid}
	a := &c12Accounts{}
	b := &c12Bids{}
	s := c12Service(m, a, b)
	s.activitySem = semaphore.NewWeighted(1)
	s.validatorRegistrationSigner = &c11Signer{failFor: map[uint64]bool{}}
	s.latestValidatorRegistrations = map[phase0.BLSPubKey]phase0.Root{}
	s.signedValidatorRegistrations = map[phase0.Root]*apiv1.SignedValidatorRegistration{}
	c12Preload(s, 1)
	user := vnd.Choose("user", 3)
	go s.fetchExecutionConfig(context.Background())
	go func() {
		switch user {
		case 0:
			s.submitValidatorRegistrations(context.Background())
		case 1:
			_, _ = s.ProposerConfig(context.Background(), nil, phase0.BLSPubKey{7})
		case 2:
			_, _ = s.auctionBlock(context.Background(), 5, phase0.Hash32{}, phase0.BLSPubKey{7}, nil)
		}
	}()
	left := vnd.Quiesce()
	vnd.Assert(left == 0, "C17.config.everything-returns")
	vnd.Cover("C17.config.overlap-explored")
	_ = e2wtypes.Account(nil)
	_ = vstub.ClientMonitor{}
}

// VerifC17_RegistrationsVsREST: a registration round (two accounts) overlapping
// a builder-API registration request for another validator (what a beacon node
// with Vouch as its builder sends): no unsynchronised conflicting accesses, and
// the request sees the controlled set of before or after the round, not a
// half-filled one.
func VerifC17_RegistrationsVsREST() {
	util.VerifResetBuilderClients()
	relay := &c11Relay{name: c11RelayNames[0]}
	util.VerifSetBuilderClient(relay.name, relay)
	cfg := &c11Config{unresolvable: map[uint64]bool{}, relays: map[uint64][]string{1: {relay.name}, 2: {relay.name}, 3: {relay.name}}, settings: map[uint64]map[string]c11Setting{1: {}, 2: {}, 3: {}}}
	accounts := map[phase0.ValidatorIndex]e2wtypes.Account{}
	for i := 0; i < 2; i++ {
		acc := &vstub.Account{Tag: uint64(i + 1), VIndex: uint64(i + 1), Nm: "acc"}
		acc.Key.B[0] = byte(0x40 + i)
		accounts[phase0.ValidatorIndex(i+1)] = acc
	}
	s := relayNew(vstub.NewChainTime(0))
	s.executionConfig = cfg
	var theirs phase0.BLSPubKey
	theirs[0] = 0x42
	done := 0
	go func() { _ = s.submitValidatorRegistrationsForAccounts(context.Background(), accounts); done++ }()
	go func() {
		_, _ = s.ValidatorRegistrations(context.Background(), []*types.SignedValidatorRegistration{{Message: &types.ValidatorRegistration{Pubkey: theirs, GasLimit: 1}},
			{Message: &types.ValidatorRegistration{Pubkey: phase0.BLSPubKey{0x41}, GasLimit: 2}}})
		done++
	}()
	left := vnd.Quiesce()
	vnd.Assert(left == 0 && done == 2, "C17.registrations.everything-returns")
	vnd.Cover("C17.registrations.overlap-explored")
}

// VerifC17_TwoRegistrationRounds: two registration rounds overlap - what the controller asks for through
// the public entry point for newly seen accounts while the periodic round is under way (the periodic
// round's single-flight guard does not cover the public entry point). Both rounds sign afresh (nothing
// is cached yet), one validator each: no unsynchronised conflicting accesses to the maps the rounds
// share, and both return.
func VerifC17_TwoRegistrationRounds() {
	util.VerifResetBuilderClients()
	relay := &c11Relay{name: c11RelayNames[0]}
	util.VerifSetBuilderClient(relay.name, relay)
	cfg := &c11Config{unresolvable: map[uint64]bool{}, relays: map[uint64][]string{1: {relay.name}, 2: {relay.name}}, settings: map[uint64]map[string]c11Setting{1: {}, 2: {}}}
	rounds := make([]map[phase0.ValidatorIndex]e2wtypes.Account, 2)
	for i := 0; i < 2; i++ {
		acc := &vstub.Account{Tag: uint64(i + 1), VIndex: uint64(i + 1), Nm: "acc"}
		acc.Key.B[0] = byte(0x40 + i)
		rounds[i] = map[phase0.ValidatorIndex]e2wtypes.Account{phase0.ValidatorIndex(i + 1): acc}
	}
	s := relayNew(vstub.NewChainTime(0))
	s.executionConfig = cfg
	done := 0
	go func() { _ = s.submitValidatorRegistrationsForAccounts(context.Background(), rounds[0]); done++ }()
	go func() { _ = s.submitValidatorRegistrationsForAccounts(context.Background(), rounds[1]); done++ }()
	left := vnd.Quiesce()
	vnd.Assert(left == 0 && done == 2, "C17.tworounds.everything-returns")
	vnd.Cover("C17.tworounds.overlap-explored")
}
