//go:build verif

package standard

import (
	"context"

	apiv1 "github.com/attestantio/go-builder-client/api/v1"
	"github.com/attestantio/go-eth2-client/spec/phase0"
	"github.com/attestantio/vouch/internal/vnd"
	"github.com/attestantio/vouch/internal/vstub"
	"github.com/attestantio/vouch/util"
	e2wtypes "github.com/wealdtech/go-eth2-wallet-types/v2"
	"golang.org/x/sync/semaphore"
)

type c17Accounts struct{ c12Accounts }

// VerifC17_ConfigRefreshVsUsers: a configuration refresh overlapping a
// registration round, a settings lookup or an auction has no unsynchronised
// conflicting accesses (happens-before race monitor).
func VerifC17_ConfigRefreshVsUsers() {
	util.VerifResetBuilderClients()
	m := &c12Majordomo{outcome: docValid}
	a := &c12Accounts{}
	b := &c12Bids{}
	s := c12Service(m, a, b)
	s.activitySem = semaphore.NewWeighted(1)
	s.validatorRegistrationSigner = &c11Signer{failFor: map[uint64]bool{}}
	s.latestValidatorRegistrations = map[phase0.BLSPubKey]phase0.Root{}
	s.signedValidatorRegistrations = map[phase0.Root]*apiv1.SignedValidatorRegistration{}
	c12Preload(s, 1)
	user := vnd.Choose("user", 3)
	go s.fetchExecutionConfig(context.Background())
	go func() {
		switch user {
		case 0:
			s.submitValidatorRegistrations(context.Background())
		case 1:
			_, _ = s.ProposerConfig(context.Background(), nil, phase0.BLSPubKey{7})
		case 2:
			_, _ = s.auctionBlock(context.Background(), 5, phase0.Hash32{}, phase0.BLSPubKey{7}, nil)
		}
	}()
	left := vnd.Quiesce()
	vnd.Assert(left == 0, "C17.config.everything-returns")
	vnd.Cover("C17.config.overlap-explored")
	_ = e2wtypes.Account(nil)
	_ = vstub.ClientMonitor{}
}
