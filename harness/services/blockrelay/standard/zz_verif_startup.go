//go:build verif

package standard

import (
	"context"

	restdaemon "github.com/attestantio/go-block-relay/services/daemon/rest"
	builderapiv1 "github.com/attestantio/go-builder-client/api/v1"
	builderspec "github.com/attestantio/go-builder-client/spec"
	consensusclient "github.com/attestantio/go-eth2-client"
	"github.com/attestantio/go-eth2-client/api"
	apiv1 "github.com/attestantio/go-eth2-client/api/v1"
	"github.com/attestantio/go-eth2-client/spec/phase0"
	"github.com/attestantio/vouch/internal/vnd"
	"github.com/attestantio/vouch/internal/vstub"
	"github.com/attestantio/vouch/services/blockrelay"
	v2 "github.com/attestantio/vouch/services/blockrelay/v2"
	nullmetrics "github.com/attestantio/vouch/services/metrics/null"
	"golang.org/x/sync/semaphore"
)

// startupDaemons counts the REST daemons the constructor asked for.
var startupDaemons int

// VerifStub_restdaemon_New stands for the REST daemon's constructor, which
// opens a listening socket: the daemon is noted as requested, nothing else.
func VerifStub_restdaemon_New(_ context.Context, _ ...restdaemon.Parameter) (*restdaemon.Service, error) {
	startupDaemons++
	return nil, nil
}

type startupValidators struct{}

func (startupValidators) Validators(_ context.Context, _ *api.ValidatorsOpts) (*api.Response[map[phase0.ValidatorIndex]*apiv1.Validator], error) {
	return &api.Response[map[phase0.ValidatorIndex]*apiv1.Validator]{Data: map[phase0.ValidatorIndex]*apiv1.Validator{}, Metadata: map[string]any{}}, nil
}

type relayQuietAccounts struct{ c12Accounts }

// relayNew builds the relay service through New - so that everything the
// constructor initialises (maps, the registration semaphore, the default
// configuration) is what the code under test really starts from - while nothing
// happens yet: during construction the account manager reports a failure, so
// neither the configuration source is asked nor a registration round made. The
// harness then puts its own collaborators in place.
func relayNew(ct *vstub.ChainTime) *Service {
	quiet := &relayQuietAccounts{c12Accounts{mode: 2}}
	s, err := New(context.Background(), WithLogLevel(vnd.LogLevel()), WithMonitor(&nullmetrics.Service{}),
		WithMajordomo(&c12Majordomo{outcome: docFetchError}), WithScheduler(&vstub.Scheduler{}), WithListenAddress("localhost:0"), WithChainTime(ct),
		WithConfigURL("file:///config.json"), WithFallbackFeeRecipient(c12Fallback), WithFallbackGasLimit(30000000),
		WithAccountsProvider(c09AccountsByKey{}), WithValidatorsProvider(startupValidators{}), WithValidatingAccountsProvider(quiet),
		WithValidatorRegistrationSigner(&c11Signer{failFor: map[uint64]bool{}}),
		WithReleaseVersion("1.2.3"), WithBuilderBidProvider(&c12Bids{}), WithBuilderConfigs(map[phase0.BLSPubKey]*blockrelay.BuilderConfig{}))
	if err != nil && !vnd.Symbolic() {
		// native replay only: the real REST daemon could not listen in this sandbox; fall back to
		// what the constructor would have built (the engine, which decides, never takes this branch)
		return &Service{chainTime: ct, majordomo: &c12Majordomo{outcome: docFetchError}, configURL: "file:///config.json",
			fallbackFeeRecipient: c12Fallback, fallbackGasLimit: 30000000, accountsProvider: c09AccountsByKey{},
			validatingAccountsProvider: quiet, validatorRegistrationSigner: &c11Signer{failFor: map[uint64]bool{}},
			latestValidatorRegistrations: map[phase0.BLSPubKey]phase0.Root{}, signedValidatorRegistrations: map[phase0.Root]*builderapiv1.SignedValidatorRegistration{},
			builderBidsCache: map[string]map[string]*builderspec.VersionedSignedBuilderBid{}, executionConfig: &v2.ExecutionConfig{Version: 2},
			activitySem: semaphore.NewWeighted(1), builderBidProvider: &c12Bids{}, builderConfigs: map[phase0.BLSPubKey]*blockrelay.BuilderConfig{},
			controlledValidators: map[phase0.BLSPubKey]struct{}{}, releaseVersion: "1.2.3"}
	}
	vnd.Assert(err == nil && s != nil, "C12.new.accepted")
	vnd.Quiesce()
	return s
}

// VerifC12_NewThenUse: the relay service as main builds it - through New,
// whatever the configuration source and the account manager answer at that
// moment - and then used: construction succeeds, the initial registration round
// ends, the configuration in use is the fetched one or the fallback, settings
// lookups, auctions, registration rounds and both periodic jobs (fired by hand,
// at times their runtime functions put in the future) return with no lock left
// behind, and a later good refresh goes through.
func VerifC12_NewThenUse() {
	startupDaemons = 0
	m := &c12Majordomo{outcome: vnd.Choose("fetch.outcome", nC12Outcomes)}
	a := &c12Accounts{mode: vnd.Choose("accounts.mode", 3)}
	b := &c12Bids{}
	sched := &vstub.Scheduler{}
	ct := vstub.NewChainTime(0)
	vnd.Assume(ct.CurrentSlot() < 1<<26) // instants stay within int64 nanoseconds
	node := &c11Node{name: "node-a"}
	s, err := New(context.Background(), WithLogLevel(vnd.LogLevel()), WithMonitor(&nullmetrics.Service{}),
		WithMajordomo(m), WithScheduler(sched), WithListenAddress("localhost:0"), WithChainTime(ct),
		WithConfigURL("file:///config.json"), WithFallbackFeeRecipient(c12Fallback), WithFallbackGasLimit(30000000),
		WithAccountsProvider(c09AccountsByKey{}), WithValidatorsProvider(startupValidators{}), WithValidatingAccountsProvider(a),
		WithValidatorRegistrationSigner(&c11Signer{failFor: map[uint64]bool{}}),
		WithSecondaryValidatorRegistrationsSubmitters([]consensusclient.ValidatorRegistrationsSubmitter{node}),
		WithReleaseVersion("1.2.3"), WithBuilderBidProvider(b), WithBuilderConfigs(map[phase0.BLSPubKey]*blockrelay.BuilderConfig{}))
	vnd.Assert(err == nil && s != nil, "C12.new.starts-whatever-the-configuration-source-answers")
	if s == nil {
		return
	}
	left := vnd.Quiesce()
	vnd.Assert(left == 0 && vnd.HeldLocks() == 0, "C12.new.initial-registration-round-ends")
	vnd.Assert(startupDaemons == 1, "C12.new.one-rest-daemon")
	// (without validating accounts to fetch it for, the configuration is not asked for)
	vnd.Assert(m.calls <= 1 && vnd.Implies(a.mode == 0, m.calls == 1), "C12.new.configuration-fetched-once-before-new-returns")
	obtained := a.mode == 0 && (m.outcome == docValid || m.outcome == docUnresolvable)
	pc, perr := s.ProposerConfig(context.Background(), nil, phase0.BLSPubKey{7})
	vnd.Assert(vnd.HeldLocks() == 0, "C12.new.lookup-releases-locks")
	switch {
	case !obtained:
		vnd.Cover("C12.new.fallback")
		vnd.Assert(perr == nil && pc.FeeRecipient == c12Fallback && len(pc.Relays) == 0, "C12.new.fallback-when-nothing-obtained")
	case m.outcome == docValid:
		vnd.Cover("C12.new.configured")
		vnd.Assert(perr == nil && pc.FeeRecipient[0] == 0x11, "C12.new.uses-obtained-config")
	default:
		vnd.Assert(perr != nil, "C12.new.unresolvable-settings-are-an-error")
	}
	// auctions, by the internal entry and the public one
	_, _ = s.auctionBlock(context.Background(), 5, phase0.Hash32{}, phase0.BLSPubKey{7}, nil)
	_, _ = s.AuctionBlock(context.Background(), 6, phase0.Hash32{1}, phase0.BLSPubKey{7})
	vnd.Assert(vnd.HeldLocks() == 0, "C12.new.auctions-release-locks")
	// the two periodic jobs: next runs lie in the future, and running them returns
	vnd.Assert(len(sched.Periodic) == 2, "C12.new.two-periodic-jobs")
	for _, j := range sched.Periodic {
		at, rerr := j.Runtime(context.Background())
		vnd.Assert(rerr == nil && !at.Before(ct.StartOfEpoch(ct.CurrentEpoch()+1)), "C12.new.periodic-job-next-run-in-the-future")
		vnd.Assert(at.Before(ct.StartOfEpoch(ct.CurrentEpoch()+2)), "C12.new.periodic-job-next-run-within-the-next-epoch")
		m.outcome, a.mode = docValid, 0
		askedBefore := len(a.asked)
		j.Fn(context.Background())
		vnd.Assert(vnd.Quiesce() == 0 && vnd.HeldLocks() == 0, "C12.new.periodic-job-returns")
		// whatever the round at start-up met (no accounts, an account manager in trouble, no
		// configuration), a later round is a round: it goes to the account manager again
		vnd.Assert(len(a.asked) > askedBefore, "C12.new.a-later-round-is-not-skipped-because-of-how-an-earlier-one-ended")
	}
	pc, perr = s.ProposerConfig(context.Background(), nil, phase0.BLSPubKey{7})
	vnd.Assert(perr == nil && pc.FeeRecipient[0] == 0x11, "C12.new.later-refresh-goes-through")
	// configuration and registrations are for the validators that are about to be active: every
	// question to the account manager (at start-up and from the periodic jobs) was about the next epoch
	vnd.Assert(len(a.asked) > 0, "C11.new.account-manager-consulted")
	for _, e := range a.asked {
		vnd.Assert(e == ct.CurrentEpoch()+1, "C11.new.accounts-of-the-next-epoch-are-what-is-configured-and-registered")
	}
}
