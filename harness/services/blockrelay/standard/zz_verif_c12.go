//go:build verif

package standard

import (
	"context"
	"errors"

	"github.com/attestantio/go-block-relay/services/blockauctioneer"
	builderclient "github.com/attestantio/go-builder-client"
	"github.com/attestantio/go-eth2-client/spec/bellatrix"
	"github.com/attestantio/go-eth2-client/spec/phase0"
	"github.com/attestantio/vouch/internal/vnd"
	"github.com/attestantio/vouch/internal/vstub"
	"github.com/attestantio/vouch/services/beaconblockproposer"
	"github.com/attestantio/vouch/services/blockrelay"
	v2 "github.com/attestantio/vouch/services/blockrelay/v2"
	e2wtypes "github.com/wealdtech/go-eth2-wallet-types/v2"
)

// documents the configuration source can deliver
var c12Docs = []string{
	`this is not json`,
	`{"version":2,"fee_recipient":"0x1111111111111111111111111111111111111111"}`,
	`{"version":2,"fee_recipient":"0x2222222222222222222222222222222222222222","relays":{"https://relay.example/":{}},"proposers":[{"proposer":"0x000000000000000000000000000000000000000000000000000000000000000000000000000000000000000000000000"}]}`,
	`{"version":3}`,
	``,
}

const (
	docBad = iota
	docValid
	docUnresolvable
	docWrongVersion
	docEmpty
	docFetchError
	nC12Outcomes
)

// VerifStub_blockrelay_UnmarshalJSON delivers what blockrelay.UnmarshalJSON
// delivers for the catalogue documents (the native replay runs the real parser).
func VerifStub_blockrelay_UnmarshalJSON(data []byte) (blockrelay.ExecutionConfigurator, error) {
	switch string(data) {
	case c12Docs[docValid]:
		fee := bellatrix.ExecutionAddress{0x11, 0x11, 0x11, 0x11, 0x11, 0x11, 0x11, 0x11, 0x11, 0x11, 0x11, 0x11, 0x11, 0x11, 0x11, 0x11, 0x11, 0x11, 0x11, 0x11}
		return &v2.ExecutionConfig{Version: 2, FeeRecipient: &fee}, nil
	case c12Docs[docUnresolvable]:
		fee := bellatrix.ExecutionAddress{0x22, 0x22, 0x22, 0x22, 0x22, 0x22, 0x22, 0x22, 0x22, 0x22, 0x22, 0x22, 0x22, 0x22, 0x22, 0x22, 0x22, 0x22, 0x22, 0x22}
		return &v2.ExecutionConfig{Version: 2, FeeRecipient: &fee,
			Relays:    map[string]*v2.BaseRelayConfig{"https://relay.example/": {}},
			Proposers: []*v2.ProposerConfig{{}}}, nil
	}
	return nil, errors.New("unparseable execution configuration")
}

type c12Majordomo struct {
	gate    chan struct{} // when set, Fetch waits for it to be closed
	waiting bool
	outcome int
	calls   int
}

func (m *c12Majordomo) Fetch(_ context.Context, _ string) ([]byte, error) {
	m.calls++
	if m.gate != nil {
		m.waiting = true
		<-m.gate // the configuration source has not answered yet
		m.waiting = false
	}
	if m.outcome == docFetchError {
		return nil, errors.New("mock fetch failure")
	}
	return []byte(c12Docs[m.outcome]), nil
}

type c12Accounts struct {
	mode  int // 0: one account, 1: none, 2: error
	asked []phase0.Epoch
}

func (a *c12Accounts) ValidatingAccountsForEpoch(_ context.Context, epoch phase0.Epoch) (map[phase0.ValidatorIndex]e2wtypes.Account, error) {
	a.asked = append(a.asked, epoch)
	switch a.mode {
	case 1:
		return map[phase0.ValidatorIndex]e2wtypes.Account{}, nil
	case 2:
		return nil, errors.New("mock accounts failure")
	}
	return map[phase0.ValidatorIndex]e2wtypes.Account{1: &vstub.Account{VIndex: 1, Nm: "acc"}}, nil
}
func (a *c12Accounts) ValidatingAccountsForEpochByIndex(_ context.Context, _ phase0.Epoch, _ []phase0.ValidatorIndex) (map[phase0.ValidatorIndex]e2wtypes.Account, error) {
	return nil, errors.New("not used")
}
func (a *c12Accounts) SyncCommitteeAccountsForEpoch(_ context.Context, _ phase0.Epoch) (map[phase0.ValidatorIndex]e2wtypes.Account, error) {
	return nil, errors.New("not used")
}
func (a *c12Accounts) SyncCommitteeAccountsForEpochByIndex(_ context.Context, _ phase0.Epoch, _ []phase0.ValidatorIndex) (map[phase0.ValidatorIndex]e2wtypes.Account, error) {
	return nil, errors.New("not used")
}

type c12Bids struct{ calls int }

func (b *c12Bids) BuilderBid(_ context.Context, _ phase0.Slot, _ phase0.Hash32, _ phase0.BLSPubKey, _ *beaconblockproposer.ProposerConfig, _ map[phase0.BLSPubKey]*blockrelay.BuilderConfig) (*blockauctioneer.Results, error) {
	b.calls++
	return &blockauctioneer.Results{Participation: map[string]*blockauctioneer.Participation{}, AllProviders: []builderclient.BuilderBidProvider{}, Providers: []builderclient.BuilderBidProvider{}}, nil
}

var c12Fallback = bellatrix.ExecutionAddress{0xfa}

func c12Service(m *c12Majordomo, a *c12Accounts, b *c12Bids) *Service {
	s := relayNew(vstub.NewChainTime(0))
	s.majordomo, s.validatingAccountsProvider, s.builderBidProvider = m, a, b
	// never configured so far (the constructor starts from an empty version 2 configuration,
	// which answers like the fallback; the harnesses say explicitly what was obtained before)
	s.executionConfig = nil
	return s
}

// c12Preload puts a previously obtained configuration in place.
func c12Preload(s *Service, kind int) blockrelay.ExecutionConfigurator {
	var cfg blockrelay.ExecutionConfigurator
	switch kind {
	case 1:
		cfg, _ = VerifStub_blockrelay_UnmarshalJSON([]byte(c12Docs[docValid]))
	case 2:
		cfg, _ = VerifStub_blockrelay_UnmarshalJSON([]byte(c12Docs[docUnresolvable]))
	}
	s.executionConfig = cfg
	return cfg
}

// VerifC12_Keep: a refresh replaces the configuration only when a new one was
// obtained; otherwise the last good one (or the fallback) stays in use; every
// request returns and no lock is left held.
func VerifC12_Keep() {
	m := &c12Majordomo{outcome: vnd.Choose("fetch.outcome", nC12Outcomes)}
	a := &c12Accounts{mode: vnd.Choose("accounts.mode", 3)}
	b := &c12Bids{}
	s := c12Service(m, a, b)
	prevKind := vnd.Choose("previous", 3)
	prev := c12Preload(s, prevKind)
	s.fetchExecutionConfig(context.Background())
	vnd.Assert(vnd.HeldLocks() == 0, "C12.keep.refresh-releases-locks")
	obtained := a.mode == 0 && (m.outcome == docValid || m.outcome == docUnresolvable)
	if obtained {
		vnd.Cover("C12.keep.new-config")
		vnd.Assert(s.executionConfig != nil && s.executionConfig != prev, "C12.keep.successful-fetch-replaces-config")
	} else {
		vnd.Cover("C12.keep.kept")
		vnd.Assert(s.executionConfig == prev, "C12.keep.failed-fetch-keeps-last-good-config")
	}
	// lookups afterwards
	pc, err := s.ProposerConfig(context.Background(), nil, phase0.BLSPubKey{7})
	vnd.Assert(vnd.HeldLocks() == 0, "C12.keep.lookup-releases-locks")
	effective := prevKind
	if obtained {
		effective = 1
		if m.outcome == docUnresolvable {
			effective = 2
		}
	}
	switch effective {
	case 0:
		vnd.Assert(err == nil && pc.FeeRecipient == c12Fallback && len(pc.Relays) == 0, "C12.keep.fallback-when-never-configured")
	case 1:
		vnd.Assert(err == nil && pc.FeeRecipient[0] == 0x11, "C12.keep.uses-obtained-config")
	case 2:
		vnd.Cover("C12.keep.unresolvable")
		vnd.Assert(err != nil, "C12.keep.unresolvable-settings-are-an-error")
	}
	// an auction afterwards returns, and leaves no lock behind
	_, _ = s.auctionBlock(context.Background(), 5, phase0.Hash32{}, phase0.BLSPubKey{7}, nil)
	vnd.Assert(vnd.HeldLocks() == 0, "C12.keep.auction-releases-locks-on-every-path")
	// and a later refresh is not blocked
	m.outcome = docValid
	a.mode = 0
	s.fetchExecutionConfig(context.Background())
	vnd.Assert(s.executionConfig != nil && vnd.HeldLocks() == 0, "C12.keep.later-refresh-goes-through")
}

// VerifC12_Live: refreshes interleaved with lookups and auctions never block
// one another for good (schedule mode; RWMutex with writer preference).
func VerifC12_Live() {
	m := &c12Majordomo{outcome: docValid}
	a := &c12Accounts{}
	b := &c12Bids{}
	s := c12Service(m, a, b)
	c12Preload(s, 1+vnd.Choose("previous", 2))
	done := 0
	go func() { s.fetchExecutionConfig(context.Background()); done++ }()
	go func() {
		_, _ = s.auctionBlock(context.Background(), 5, phase0.Hash32{}, phase0.BLSPubKey{7}, nil)
		done++
	}()
	if vnd.Bool("with-lookup") {
		go func() { _, _ = s.ProposerConfig(context.Background(), nil, phase0.BLSPubKey{7}); done++ }()
	} else {
		done++
	}
	left := vnd.Quiesce()
	vnd.Assert(left == 0 && done == 3, "C12.live.every-request-returns")
	vnd.Assert(vnd.HeldLocks() == 0, "C12.live.no-lock-left-held")
	vnd.Cover("C12.live.done")
}

// VerifC12_SlowSource: while a refresh is waiting for a configuration source
// that has not answered, requests for proposer settings and auctions return,
// using the last configuration obtained successfully; when the source answers
// (with any outcome) the refresh returns and no lock is left held.
func VerifC12_SlowSource() {
	m := &c12Majordomo{outcome: vnd.Choose("fetch.outcome", nC12Outcomes), gate: make(chan struct{})}
	a := &c12Accounts{}
	b := &c12Bids{}
	s := c12Service(m, a, b)
	prev := c12Preload(s, 1)
	fetched := false
	go func() { s.fetchExecutionConfig(context.Background()); fetched = true }()
	vnd.Quiesce()
	vnd.Assert(m.waiting && !fetched, "C12.slow.refresh-is-waiting-for-the-source")
	// requests made meanwhile (each in its own goroutine so that one that blocks is seen)
	var pc *beaconblockproposer.ProposerConfig
	lookedUp, auctioned := false, false
	go func() {
		pc, _ = s.ProposerConfig(context.Background(), nil, phase0.BLSPubKey{7})
		lookedUp = true
	}()
	go func() {
		_, _ = s.auctionBlock(context.Background(), 5, phase0.Hash32{}, phase0.BLSPubKey{7}, nil)
		auctioned = true
	}()
	vnd.Quiesce()
	vnd.Assert(lookedUp, "C12.slow.settings-request-returns-while-the-source-is-silent")
	vnd.Assert(auctioned, "C12.slow.auction-returns-while-the-source-is-silent")
	if lookedUp {
		want, _ := prev.ProposerConfig(context.Background(), nil, phase0.BLSPubKey{7}, c12Fallback, 30000000)
		vnd.Assert(pc != nil && want != nil && pc.FeeRecipient == want.FeeRecipient, "C12.slow.last-good-configuration-used-meanwhile")
	}
	close(m.gate)
	left := vnd.Quiesce()
	vnd.Assert(fetched && left == 0, "C12.slow.refresh-returns-once-the-source-answers")
	vnd.Assert(vnd.HeldLocks() == 0, "C12.slow.no-lock-left-held")
	vnd.Cover("C12.slow.done")
}
