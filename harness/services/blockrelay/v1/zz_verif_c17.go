//go:build verif

package v1

import (
	"context"

	"github.com/attestantio/go-eth2-client/spec/bellatrix"
	"github.com/attestantio/go-eth2-client/spec/phase0"
	"github.com/attestantio/vouch/internal/vnd"
)

// VerifC17_ConcurrentLookups: one legacy execution configuration - shared, like the version 2 one,
// between registration rounds, proposer-setting lookups and REST requests - is consulted by two
// lookups at once (same or different validators; own entry, null entry, default entry or none).
// Race monitor on; each lookup's answer is the one it gets alone.
func VerifC17_ConcurrentLookups() {
	keyA, keyB := phase0.BLSPubKey{7}, phase0.BLSPubKey{8}
	cfg := &ExecutionConfig{ProposerConfigs: map[phase0.BLSPubKey]*ProposerConfig{}}
	switch vnd.Choose("specific", 3) {
	case 1:
		cfg.ProposerConfigs[keyA] = ndV1Config("specific")
	case 2:
		cfg.ProposerConfigs[keyA] = nil
	}
	if vnd.Bool("default.present") {
		cfg.DefaultConfig = ndV1Config("default")
	}
	second := keyA
	if vnd.Bool("second-lookup-for-another-validator") {
		second = keyB
	}
	type answer struct {
		err    bool
		fee    bellatrix.ExecutionAddress
		relays int
		gas    uint64
	}
	summarise := func(k phase0.BLSPubKey) answer {
		res, err := cfg.ProposerConfig(context.Background(), nil, k, bellatrix.ExecutionAddress{0xfa}, 30000000)
		if err != nil {
			return answer{err: true}
		}
		a := answer{fee: res.FeeRecipient, relays: len(res.Relays)}
		for _, r := range res.Relays {
			a.gas += r.GasLimit
		}
		return a
	}
	var got [2]answer
	done := 0
	for i, k := range []phase0.BLSPubKey{keyA, second} {
		i, k := i, k
		go func() {
			got[i] = summarise(k)
			done++
		}()
	}
	left := vnd.Quiesce()
	vnd.Assert(left == 0 && done == 2, "C17.v1.lookups-finish")
	vnd.Assert(got[0] == summarise(keyA), "C17.v1.first-lookup-answer-is-the-sequential-one")
	vnd.Assert(got[1] == summarise(second), "C17.v1.second-lookup-answer-is-the-sequential-one")
	vnd.Cover("C17.v1.lookups-overlapped")
}
