//go:build verif

package v1

import (
	"context"
	"time"

	"github.com/attestantio/go-eth2-client/spec/bellatrix"
	"github.com/attestantio/go-eth2-client/spec/phase0"
	"github.com/attestantio/vouch/internal/vnd"
)

func ndV1Config(name string) *ProposerConfig {
	pc := &ProposerConfig{FeeRecipient: bellatrix.ExecutionAddress(vnd.Addr(name + ".fee")), GasLimit: vnd.U64(name + ".gas")}
	switch vnd.Choose(name+".builder", 3) {
	case 1:
		pc.Builder = &BuilderConfig{Enabled: false, Relays: []string{"https://unused.example"}}
	case 2:
		pc.Builder = &BuilderConfig{Enabled: true, Grace: time.Duration(vnd.SmallU64(name+".grace", 40)), Relays: []string{"https://r1.example", "https://r2.example"}[:vnd.IntRange(name+".relays", 0, 2)]}
	}
	return pc
}

// VerifC10_V1Lookup: legacy configuration: the entry for the validator's key,
// else the default entry, else the fallback values; gas limit 0 means fallback;
// relays only when the builder is enabled.
func VerifC10_V1Lookup() {
	pubkey := phase0.BLSPubKey{7}
	cfg := &ExecutionConfig{ProposerConfigs: map[phase0.BLSPubKey]*ProposerConfig{}}
	var specific, def *ProposerConfig
	if vnd.Bool("specific.present") {
		specific = ndV1Config("specific")
		cfg.ProposerConfigs[pubkey] = specific
	}
	if vnd.Bool("other.present") {
		cfg.ProposerConfigs[phase0.BLSPubKey{8}] = ndV1Config("other")
	}
	if vnd.Bool("default.present") {
		def = ndV1Config("default")
		cfg.DefaultConfig = def
	}
	fallbackFee := bellatrix.ExecutionAddress{0xfa}
	const fallbackGas = uint64(30000000)
	// remember the chosen entry's values before the call (the call may fill in defaults)
	src := specific
	if src == nil {
		src = def
	}
	wantFee, wantGas := fallbackFee, fallbackGas
	var wantRelays []string
	wantGrace := time.Duration(0)
	if src != nil {
		wantFee = src.FeeRecipient
		if src.GasLimit != 0 {
			wantGas = src.GasLimit
		}
		if src.Builder != nil && src.Builder.Enabled {
			wantRelays = src.Builder.Relays
			wantGrace = src.Builder.Grace
		}
		vnd.Cover("C10.v1.entry-found")
	} else {
		vnd.Cover("C10.v1.fallback")
	}
	got, err := cfg.ProposerConfig(context.Background(), nil, pubkey, fallbackFee, fallbackGas)
	vnd.Assert(err == nil && got != nil, "C10.v1.no-error")
	vnd.Assert(got.FeeRecipient == wantFee, "C10.v1.fee-recipient-specific-then-default-then-fallback")
	vnd.Assert(len(got.Relays) == len(wantRelays), "C10.v1.relays-only-when-builder-enabled")
	for i, r := range got.Relays {
		if i < len(wantRelays) {
			vnd.Assert(r.Address == wantRelays[i], "C10.v1.relay-address")
			vnd.Assert(r.FeeRecipient == wantFee && r.GasLimit == wantGas && r.Grace == wantGrace, "C10.v1.relay-values")
		}
	}
}

// VerifC17_V1ConcurrentLookups: two settings lookups on the same legacy
// configuration (they run under a shared read lock in production) have no
// unsynchronised conflicting accesses.
func VerifC17_V1ConcurrentLookups() {
	cfg := &ExecutionConfig{ProposerConfigs: map[phase0.BLSPubKey]*ProposerConfig{},
		DefaultConfig: &ProposerConfig{FeeRecipient: bellatrix.ExecutionAddress{1}}} // no gas limit, no builder section
	for i := 0; i < 2; i++ {
		go func() {
			_, _ = cfg.ProposerConfig(context.Background(), nil, phase0.BLSPubKey{7}, bellatrix.ExecutionAddress{0xfa}, 30000000)
		}()
	}
	left := vnd.Quiesce()
	vnd.Assert(left == 0, "C17.v1.everything-returns")
	vnd.Cover("C17.v1.overlap-explored")
}
