//go:build verif

package v1

import (
	"context"
	"errors"
	"time"

	"github.com/attestantio/go-eth2-client/spec/bellatrix"
	"github.com/attestantio/go-eth2-client/spec/phase0"
	"github.com/attestantio/vouch/internal/vnd"
)

func ndV1Config(name string) *ProposerConfig {
	pc := &ProposerConfig{FeeRecipient: bellatrix.ExecutionAddress(vnd.Addr(name + ".fee")), GasLimit: vnd.U64(name + ".gas")}
	switch vnd.Choose(name+".builder", 3) {
	case 1:
		pc.Builder = &BuilderConfig{Enabled: false, Relays: []string{"https://unused.example"}}
	case 2:
		pc.Builder = &BuilderConfig{Enabled: true, Grace: time.Duration(vnd.SmallU64(name+".grace", 40)), Relays: []string{"https://r1.example", "https://r2.example"}[:vnd.IntRange(name+".relays", 0, 2)]}
	}
	return pc
}

// VerifC10_V1Lookup: legacy configuration: the entry for the validator's key,
// else the default entry, else the fallback values; gas limit 0 means fallback;
// relays only when the builder is enabled.
func VerifC10_V1Lookup() {
	pubkey := phase0.BLSPubKey{7}
	cfg := &ExecutionConfig{ProposerConfigs: map[phase0.BLSPubKey]*ProposerConfig{}}
	var specific, def *ProposerConfig
	nullEntry := false
	switch vnd.Choose("specific", 3) {
	case 1:
		specific = ndV1Config("specific")
		cfg.ProposerConfigs[pubkey] = specific
	case 2:
		// "proposer_config":{"0x07..":null} is a document the parser accepts: the entry is there, without values
		cfg.ProposerConfigs[pubkey] = nil
		nullEntry = true
	}
	if vnd.Bool("other.present") {
		cfg.ProposerConfigs[phase0.BLSPubKey{8}] = ndV1Config("other")
	}
	if vnd.Bool("default.present") {
		def = ndV1Config("default")
		cfg.DefaultConfig = def
	}
	fallbackFee := bellatrix.ExecutionAddress{0xfa}
	const fallbackGas = uint64(30000000)
	// remember the chosen entry's values before the call (the call may fill in defaults)
	src := specific
	if src == nil {
		src = def
	}
	wantFee, wantGas := fallbackFee, fallbackGas
	var wantRelays []string
	wantGrace := time.Duration(0)
	if src != nil {
		wantFee = src.FeeRecipient
		if src.GasLimit != 0 {
			wantGas = src.GasLimit
		}
		if src.Builder != nil && src.Builder.Enabled {
			wantRelays = src.Builder.Relays
			wantGrace = src.Builder.Grace
		}
		vnd.Cover("C10.v1.entry-found")
	} else {
		vnd.Cover("C10.v1.fallback")
	}
	got, err := cfg.ProposerConfig(context.Background(), nil, pubkey, fallbackFee, fallbackGas)
	vnd.Assert(err == nil && got != nil, "C10.v1.no-error")
	if nullEntry {
		// an entry without values: the lookup answers (no crash) with the values of the default entry or the fallback ones
		vnd.Cover("C10.v1.null-entry")
		vnd.Assert(got.FeeRecipient == fallbackFee || (def != nil && got.FeeRecipient == def.FeeRecipient), "C10.v1.null-entry-answers-with-default-or-fallback-values")
		return
	}
	vnd.Assert(got.FeeRecipient == wantFee, "C10.v1.fee-recipient-specific-then-default-then-fallback")
	vnd.Assert(len(got.Relays) == len(wantRelays), "C10.v1.relays-only-when-builder-enabled")
	for i, r := range got.Relays {
		if i < len(wantRelays) {
			vnd.Assert(r.Address == wantRelays[i], "C10.v1.relay-address")
			vnd.Assert(r.FeeRecipient == wantFee && r.GasLimit == wantGas && r.Grace == wantGrace, "C10.v1.relay-values")
		}
	}
}

// VerifC17_V1ConcurrentLookups: two settings lookups on the same legacy
// configuration (they run under a shared read lock in production) have no
// unsynchronised conflicting accesses.
func VerifC17_V1ConcurrentLookups() {
	cfg := &ExecutionConfig{ProposerConfigs: map[phase0.BLSPubKey]*ProposerConfig{},
		DefaultConfig: &ProposerConfig{FeeRecipient: bellatrix.ExecutionAddress{1}}} // no gas limit, no builder section
	for i := 0; i < 2; i++ {
		go func() {
			_, _ = cfg.ProposerConfig(context.Background(), nil, phase0.BLSPubKey{7}, bellatrix.ExecutionAddress{0xfa}, 30000000)
		}()
	}
	left := vnd.Quiesce()
	vnd.Assert(left == 0, "C17.v1.everything-returns")
	vnd.Cover("C17.v1.overlap-explored")
}

// ---------------------------------------------------------------------------
// decoding of legacy proposer entries

var c16Doc struct {
	text    string
	fee     string
	gas     string
	builder int // 0 absent, 1 disabled, 2 enabled with one relay
	broken  bool
}

// VerifStub_json_Unmarshal stands for encoding/json.Unmarshal on the legacy
// proposer entry of VerifC16_V1Decode: it delivers what the real decoder
// delivers for that document (the native replay runs the real decoder).
func VerifStub_json_Unmarshal(data []byte, v any) error {
	if string(data) == "wire" {
		// round trip of VerifC10_V1RoundTrip: what json.Marshal was handed comes back
		switch d := v.(type) {
		case *proposerConfigJSON:
			*d = *(c10Wire.(*proposerConfigJSON))
		case *builderConfigJSON:
			*d = *(c10Wire.(*builderConfigJSON))
		case *executionConfigJSON:
			*d = *(c10Wire.(*executionConfigJSON))
		default:
			return errors.New("target outside the catalogue")
		}
		return nil
	}
	if string(data) != c16Doc.text {
		return errors.New("document outside the catalogue")
	}
	if c16Doc.broken {
		return errors.New("unexpected end of JSON input")
	}
	d, ok := v.(*proposerConfigJSON)
	if !ok {
		return errors.New("target outside the catalogue")
	}
	d.FeeRecipient, d.GasLimit = c16Doc.fee, c16Doc.gas
	switch c16Doc.builder {
	case 1:
		d.Builder = &BuilderConfig{}
	case 2:
		d.Builder = &BuilderConfig{Enabled: true, Relays: []string{"https://r1.example"}}
	}
	return nil
}

// VerifC16_V1Decode: a legacy proposer entry of any shape (fee recipient
// absent, empty, shorter or longer than 20 bytes, odd-length or non-hex; gas
// limit absent, numeric, negative or text; builder absent, disabled or enabled;
// a truncated document) is decoded or refused, and what was decoded serves a
// settings lookup, without a crash.
func VerifC16_V1Decode() {
	fees := []string{"", "0x", "0x0102", "0x" + "ab01ab01ab01ab01ab01ab01ab01ab01ab01ab", "0x" + "ab01ab01ab01ab01ab01ab01ab01ab01ab01ab01", "ab01ab01ab01ab01ab01ab01ab01ab01ab01ab01",
		"0x" + "ab01ab01ab01ab01ab01ab01ab01ab01ab01ab01ff", "0xabc", "0xzz01"}
	c16Doc.fee = fees[vnd.Choose("fee-recipient", len(fees))]
	c16Doc.gas = []string{"", "30000000", "-1", "lots", "18446744073709551616"}[vnd.Choose("gas-limit", 5)]
	c16Doc.builder = vnd.Choose("builder", 3)
	c16Doc.broken = vnd.Bool("truncated")
	doc := `{`
	sep := ""
	if c16Doc.fee != "" {
		doc += `"fee_recipient":"` + c16Doc.fee + `"`
		sep = ","
	}
	if c16Doc.gas != "" {
		doc += sep + `"gas_limit":"` + c16Doc.gas + `"`
		sep = ","
	}
	switch c16Doc.builder {
	case 1:
		doc += sep + `"builder":{"enabled":false}`
	case 2:
		doc += sep + `"builder":{"enabled":true,"relays":["https://r1.example"]}`
	}
	if !c16Doc.broken {
		doc += `}`
	}
	c16Doc.text = doc
	pc := &ProposerConfig{}
	err := pc.UnmarshalJSON([]byte(doc))
	if err != nil {
		vnd.Cover("C16.v1decode.refused")
		return
	}
	vnd.Cover("C16.v1decode.accepted")
	pubkey := phase0.BLSPubKey{7}
	which := vnd.Bool("as-default-entry")
	cfg := &ExecutionConfig{ProposerConfigs: map[phase0.BLSPubKey]*ProposerConfig{}}
	if which {
		cfg.DefaultConfig = pc
	} else {
		cfg.ProposerConfigs[pubkey] = pc
	}
	got, err := cfg.ProposerConfig(context.Background(), nil, pubkey, bellatrix.ExecutionAddress{0xfa}, 30000000)
	vnd.Assert(err != nil || got != nil, "C16.v1decode.lookup-result-or-error")
	if err == nil {
		vnd.Assert(len(got.Relays) == map[int]int{0: 0, 1: 0, 2: 1}[c16Doc.builder], "C16.v1decode.relays-of-the-decoded-entry")
	}
}

// ---------------------------------------------------------------------------
// marshal / unmarshal round trip of the legacy objects

var c10Wire any

// VerifStub_json_Marshal: the wire struct handed to json.Marshal is what
// json.Unmarshal delivers (the JSON text itself is not modelled; native replay
// runs the real codec).
func VerifStub_json_Marshal(v any) ([]byte, error) {
	c10Wire = v
	return []byte("wire"), nil
}

// VerifC10_V1RoundTrip: each legacy object survives MarshalJSON followed by
// UnmarshalJSON with the same meaning: fee recipient, gas limit (0 = not set),
// builder enabled flag, grace (whole ms) and relays; the per-validator map keeps
// its keys.
func VerifC10_V1RoundTrip() {
	fee := bellatrix.ExecutionAddress{1, 2, 3, 4, 5, 6, 7, 8, 9, 10, 11, 12, 13, 14, 15, 16, 17, 18, 19, 20}
	switch vnd.Choose("object", 3) {
	case 0:
		ms := vnd.U64("grace.ms")
		vnd.Assume(ms < 1<<40)
		in := &BuilderConfig{Enabled: vnd.Bool("enabled"), Grace: time.Duration(ms) * time.Millisecond, Relays: []string{"https://r1.example"}[:vnd.IntRange("relays", 0, 1)]}
		vnd.Assume(!in.Enabled || len(in.Relays) > 0) // an enabled builder without relays is not a valid configuration
		doc, err := in.MarshalJSON()
		vnd.Assert(err == nil, "C10.v1roundtrip.marshal")
		out := &BuilderConfig{}
		vnd.Assert(out.UnmarshalJSON(doc) == nil, "C10.v1roundtrip.unmarshal")
		vnd.Assert(out.Enabled == in.Enabled && out.Grace == in.Grace && len(out.Relays) == len(in.Relays), "C10.v1roundtrip.builder-entry-same-meaning")
	case 1:
		in := &ProposerConfig{FeeRecipient: fee, GasLimit: vnd.U64("gas")}
		if vnd.Bool("builder.present") {
			in.Builder = &BuilderConfig{Enabled: true, Relays: []string{"https://r1.example"}}
		}
		doc, err := in.MarshalJSON()
		vnd.Assert(err == nil, "C10.v1roundtrip.marshal")
		out := &ProposerConfig{}
		vnd.Assert(out.UnmarshalJSON(doc) == nil, "C10.v1roundtrip.unmarshal")
		vnd.Assert(out.FeeRecipient == in.FeeRecipient && out.GasLimit == in.GasLimit && (out.Builder == nil) == (in.Builder == nil), "C10.v1roundtrip.proposer-entry-same-meaning")
	case 2:
		in := &ExecutionConfig{DefaultConfig: &ProposerConfig{FeeRecipient: fee}, ProposerConfigs: map[phase0.BLSPubKey]*ProposerConfig{}}
		// the key's text form begins with a letter, with one zero digit or with a zero byte
		key := phase0.BLSPubKey{[]byte{0xaa, 0x0a, 0x00}[vnd.Choose("key.first-byte", 3)], 0xbb}
		if vnd.Bool("specific.present") {
			in.ProposerConfigs[key] = &ProposerConfig{FeeRecipient: fee, GasLimit: 5}
		}
		doc, err := in.MarshalJSON()
		vnd.Assert(err == nil, "C10.v1roundtrip.marshal")
		out := &ExecutionConfig{}
		vnd.Assert(out.UnmarshalJSON(doc) == nil, "C10.v1roundtrip.unmarshal")
		// (values, not pointers: the real codec builds new objects, the engine's stand-in hands the same ones back)
		sameEntry := func(a, b *ProposerConfig) bool {
			return (a == nil) == (b == nil) && (a == nil || (a.FeeRecipient == b.FeeRecipient && a.GasLimit == b.GasLimit && (a.Builder == nil) == (b.Builder == nil)))
		}
		vnd.Assert(sameEntry(out.DefaultConfig, in.DefaultConfig) && len(out.ProposerConfigs) == len(in.ProposerConfigs), "C10.v1roundtrip.configuration-same-meaning")
		if len(in.ProposerConfigs) == 1 {
			got, present := out.ProposerConfigs[key]
			vnd.Assert(present && got != nil && sameEntry(got, in.ProposerConfigs[key]), "C10.v1roundtrip.per-validator-entry-keeps-its-key")
		}
	}
	vnd.Cover("C10.v1roundtrip.checked")
}
