//go:build verif

package v2

import (
	"context"
	"time"

	"github.com/attestantio/go-eth2-client/spec/bellatrix"
	"github.com/attestantio/go-eth2-client/spec/phase0"
	"github.com/attestantio/vouch/internal/vnd"
	"github.com/attestantio/vouch/services/beaconblockproposer"
	"github.com/shopspring/decimal"
)

// One optional field family at a time is symbolic at every level (top, base
// relay, proposer, proposer relay override); the other families are absent.
const (
	famFee = iota
	famGas
	famGrace
	famMin
)

type c10Vals struct {
	present bool
	fee     bellatrix.ExecutionAddress
	gas     uint64
	grace   time.Duration
	min     uint64
}

func ndVals(name string, fam int) c10Vals {
	v := c10Vals{present: vnd.Bool(name + ".present")}
	if !v.present {
		return v
	}
	switch fam {
	case famFee:
		v.fee = bellatrix.ExecutionAddress(vnd.Addr(name + ".fee"))
	case famGas:
		v.gas = vnd.U64(name + ".gas")
	case famGrace:
		v.grace = time.Duration(vnd.SmallU64(name+".grace", 40))
	case famMin:
		v.min = vnd.SmallU64(name+".min", 40)
		vnd.Assume(v.min > 0)
	}
	return v
}

func (v c10Vals) feeP(fam int) *bellatrix.ExecutionAddress {
	if fam == famFee && v.present {
		f := v.fee
		return &f
	}
	return nil
}
func (v c10Vals) gasP(fam int) *uint64 {
	if fam == famGas && v.present {
		g := v.gas
		return &g
	}
	return nil
}
func (v c10Vals) graceP(fam int) *time.Duration {
	if fam == famGrace && v.present {
		g := v.grace
		return &g
	}
	return nil
}
func (v c10Vals) minP(fam int) *decimal.Decimal {
	if fam == famMin && v.present {
		d := decimal.New(int64(v.min), 0)
		return &d
	}
	return nil
}

// pick returns the first present level (documented precedence, most specific first).
func pick(levels ...c10Vals) (c10Vals, bool) {
	for _, l := range levels {
		if l.present {
			return l, true
		}
	}
	return c10Vals{}, false
}

// VerifC10_V2Precedence: fee recipient, gas limit, grace and minimum value of
// every relay follow: proposer-relay value, else proposer value, else base-relay
// value, else top-level value, else fallback; relay set = base set (or none if
// reset) minus disabled plus new; only the first matching proposer entry applies.
func VerifC10_V2Precedence() {
	fam := vnd.Choose("family", 4)
	top := ndVals("top", fam)
	base := ndVals("base", fam)
	prop := ndVals("proposer", fam)
	over := ndVals("override", fam)
	fallbackFee := bellatrix.ExecutionAddress{0xfa}
	const fallbackGas = uint64(30000000)

	cfg := &ExecutionConfig{Version: 2, FeeRecipient: top.feeP(fam), GasLimit: top.gasP(fam), Grace: top.graceP(fam), MinValue: top.minP(fam),
		Relays: map[string]*BaseRelayConfig{"https://base.example": {FeeRecipient: base.feeP(fam), GasLimit: base.gasP(fam), Grace: base.graceP(fam), MinValue: base.minP(fam)}}}
	pubkey := phase0.BLSPubKey{7}
	matches := vnd.Bool("first-entry-matches")
	reset := vnd.Bool("reset-relays")
	overrideKind := vnd.Choose("override.kind", 3) // 0 none, 1 of the base relay, 2 a new relay
	disabled := false
	first := &ProposerConfig{Validator: phase0.BLSPubKey{9}, FeeRecipient: prop.feeP(fam), GasLimit: prop.gasP(fam), Grace: prop.graceP(fam), MinValue: prop.minP(fam), ResetRelays: reset}
	if matches {
		first.Validator = pubkey
	}
	if overrideKind != 0 {
		disabled = vnd.Bool("override.disabled")
		addr := "https://base.example"
		if overrideKind == 2 {
			addr = "https://new.example"
		}
		first.Relays = map[string]*ProposerRelayConfig{addr: {Disabled: disabled, FeeRecipient: over.feeP(fam), GasLimit: over.gasP(fam), Grace: over.graceP(fam), MinValue: over.minP(fam)}}
	}
	// a second entry that also matches must never be applied once the first one matched
	decoyFee := bellatrix.ExecutionAddress{0xdd}
	decoyGas := uint64(1)
	second := &ProposerConfig{Validator: pubkey, FeeRecipient: &decoyFee, GasLimit: &decoyGas, ResetRelays: true}
	cfg.Proposers = []*ProposerConfig{first, second}
	if !matches {
		cfg.Proposers = []*ProposerConfig{first} // no entry matches
	}

	got, err := cfg.ProposerConfig(context.Background(), nil, pubkey, fallbackFee, fallbackGas)
	vnd.Assert(err == nil && got != nil, "C10.v2.no-error")

	none := c10Vals{}
	p, o := none, none
	if matches {
		p = prop
		if overrideKind != 0 {
			o = over
		}
	}
	// top-level fee recipient of the proposer settings
	if fam == famFee {
		want := fallbackFee
		if l, ok := pick(p, top); ok {
			want = l.fee
		}
		vnd.Assert(got.FeeRecipient == want, "C10.v2.fee-recipient-precedence")
	}
	// expected relay set
	type exp struct {
		addr   string
		levels []c10Vals
	}
	var want []exp
	baseKept := !(matches && reset) && !(matches && overrideKind == 1 && disabled)
	if baseKept {
		lv := []c10Vals{none, p, base, top}
		if overrideKind == 1 {
			lv[0] = o
		}
		want = append(want, exp{"https://base.example", lv})
	}
	if matches && overrideKind == 2 && !disabled {
		// a new relay named by the proposer entry
		want = append(want, exp{"https://new.example", []c10Vals{o, p, top}})
	}
	if matches && overrideKind == 1 && reset && !disabled {
		// reset discards the inherited relay; naming it again adds it afresh
		want = append(want, exp{"https://base.example", []c10Vals{o, p, top}})
	}
	vnd.Assert(len(got.Relays) == len(want), "C10.v2.relay-set")
	for _, w := range want {
		var r *beaconblockproposer.RelayConfig
		for _, x := range got.Relays {
			if x.Address == w.addr {
				r = x
			}
		}
		vnd.Assert(r != nil, "C10.v2.relay-present")
		if r == nil {
			continue
		}
		l, ok := pick(w.levels...)
		switch fam {
		case famFee:
			wantFee := fallbackFee
			if ok {
				wantFee = l.fee
			}
			vnd.Assert(r.FeeRecipient == wantFee, "C10.v2.relay-fee-recipient-precedence")
			vnd.Assert(r.GasLimit == fallbackGas, "C10.v2.relay-gas-limit-fallback")
		case famGas:
			wantGas := fallbackGas
			if ok {
				wantGas = l.gas
			}
			vnd.Assert(r.GasLimit == wantGas, "C10.v2.relay-gas-limit-precedence")
			vnd.Assert(r.FeeRecipient == fallbackFee, "C10.v2.relay-fee-recipient-fallback")
		case famGrace:
			wantGrace := time.Duration(0)
			if ok {
				wantGrace = l.grace
			}
			vnd.Assert(r.Grace == wantGrace, "C10.v2.relay-grace-precedence")
		case famMin:
			wantMin := uint64(0)
			if ok {
				wantMin = l.min
			}
			vnd.Assert(r.MinValue.BigInt().Uint64() == wantMin && r.MinValue.BigInt().IsUint64(), "C10.v2.relay-min-value-precedence")
		}
		vnd.Cover("C10.v2.relay-checked")
	}
}

// VerifC16_ConfigShapes: execution configurations of any shape the JSON
// decoder can deliver (null relay entries, proposer entry without key) end in an
// error or a usable result, never in a crash.
func VerifC16_ConfigShapes() {
	pubkey := phase0.BLSPubKey{7}
	cfg := &ExecutionConfig{Version: 2, Relays: map[string]*BaseRelayConfig{}}
	switch vnd.Choose("base-relay", 3) {
	case 1:
		cfg.Relays["https://base.example"] = &BaseRelayConfig{}
	case 2:
		cfg.Relays["https://base.example"] = nil // "relays": {"https://base.example": null}
	}
	p := &ProposerConfig{Validator: pubkey}
	switch vnd.Choose("proposer-relay", 4) {
	case 1:
		p.Relays = map[string]*ProposerRelayConfig{"https://base.example": {}}
	case 2:
		p.Relays = map[string]*ProposerRelayConfig{"https://base.example": nil}
	case 3:
		p.Relays = map[string]*ProposerRelayConfig{"https://new.example": nil}
	}
	if vnd.Bool("proposer-without-key") {
		p.Validator = phase0.BLSPubKey{}
	}
	cfg.Proposers = []*ProposerConfig{p}
	_, _ = cfg.ProposerConfig(context.Background(), nil, pubkey, bellatrix.ExecutionAddress{1}, 30000000)
	vnd.Cover("C16.config.survived")
}
