//go:build verif

package v2

import (
	"context"
	"errors"
	"regexp"
	"time"

	"github.com/attestantio/go-eth2-client/spec/bellatrix"
	"github.com/attestantio/go-eth2-client/spec/phase0"
	"github.com/attestantio/vouch/internal/vnd"
	"github.com/attestantio/vouch/internal/vstub"
	"github.com/attestantio/vouch/services/beaconblockproposer"
	"github.com/shopspring/decimal"
	e2wtypes "github.com/wealdtech/go-eth2-wallet-types/v2"
)

// One optional field family at a time is symbolic at every level (top, base
// relay, proposer, proposer relay override); the other families are absent.
const (
	famFee = iota
	famGas
	famGrace
	famMin
	famKey // the relay's public key: set on a base relay and on a proposer's relay entry only
)

type c10Vals struct {
	present bool
	fee     bellatrix.ExecutionAddress
	gas     uint64
	grace   time.Duration
	min     uint64
	key     phase0.BLSPubKey
}

func ndVals(name string, fam int) c10Vals {
	v := c10Vals{present: vnd.Bool(name + ".present")}
	if !v.present {
		return v
	}
	switch fam {
	case famFee:
		v.fee = bellatrix.ExecutionAddress(vnd.Addr(name + ".fee"))
	case famGas:
		v.gas = vnd.U64(name + ".gas")
	case famGrace:
		v.grace = time.Duration(vnd.SmallU64(name+".grace", 40))
	case famMin:
		v.min = vnd.SmallU64(name+".min", 40)
		vnd.Assume(v.min > 0)
	case famKey:
		v.key = phase0.BLSPubKey{0x80, vnd.U8(name + ".key")}
	}
	return v
}

func (v c10Vals) keyP(fam int) *phase0.BLSPubKey {
	if fam == famKey && v.present {
		k := v.key
		return &k
	}
	return nil
}

func (v c10Vals) feeP(fam int) *bellatrix.ExecutionAddress {
	if fam == famFee && v.present {
		f := v.fee
		return &f
	}
	return nil
}
func (v c10Vals) gasP(fam int) *uint64 {
	if fam == famGas && v.present {
		g := v.gas
		return &g
	}
	return nil
}
func (v c10Vals) graceP(fam int) *time.Duration {
	if fam == famGrace && v.present {
		g := v.grace
		return &g
	}
	return nil
}
func (v c10Vals) minP(fam int) *decimal.Decimal {
	if fam == famMin && v.present {
		d := decimal.New(int64(v.min), 0)
		return &d
	}
	return nil
}

// pick returns the first present level (documented precedence, most specific first).
func pick(levels ...c10Vals) (c10Vals, bool) {
	for _, l := range levels {
		if l.present {
			return l, true
		}
	}
	return c10Vals{}, false
}

// VerifC10_V2Precedence: fee recipient, gas limit, grace and minimum value of
// every relay follow: proposer-relay value, else proposer value, else base-relay
// value, else top-level value, else fallback; relay set = base set (or none if
// reset) minus disabled plus new; only the first matching proposer entry applies.
func VerifC10_V2Precedence() {
	fam := vnd.Choose("family", 5)
	top := ndVals("top", fam)
	base := ndVals("base", fam)
	prop := ndVals("proposer", fam)
	over := ndVals("override", fam)
	fallbackFee := bellatrix.ExecutionAddress{0xfa}
	const fallbackGas = uint64(30000000)

	cfg := &ExecutionConfig{Version: 2, FeeRecipient: top.feeP(fam), GasLimit: top.gasP(fam), Grace: top.graceP(fam), MinValue: top.minP(fam),
		Relays: map[string]*BaseRelayConfig{"https://base.example": {FeeRecipient: base.feeP(fam), GasLimit: base.gasP(fam), Grace: base.graceP(fam), MinValue: base.minP(fam), PublicKey: base.keyP(fam)}}}
	pubkey := phase0.BLSPubKey{7}
	matches := vnd.Bool("first-entry-matches")
	reset := vnd.Bool("reset-relays")
	overrideKind := vnd.Choose("override.kind", 3) // 0 none, 1 of the base relay, 2 a new relay
	disabled := false
	first := &ProposerConfig{Validator: phase0.BLSPubKey{9}, FeeRecipient: prop.feeP(fam), GasLimit: prop.gasP(fam), Grace: prop.graceP(fam), MinValue: prop.minP(fam), ResetRelays: reset}
	if matches {
		first.Validator = pubkey
	}
	if overrideKind != 0 {
		disabled = vnd.Bool("override.disabled")
		addr := "https://base.example"
		if overrideKind == 2 {
			addr = "https://new.example"
		}
		first.Relays = map[string]*ProposerRelayConfig{addr: {Disabled: disabled, FeeRecipient: over.feeP(fam), GasLimit: over.gasP(fam), Grace: over.graceP(fam), MinValue: over.minP(fam), PublicKey: over.keyP(fam)}}
		if !disabled && vnd.Bool("override.written-as-null") {
			// "relays":{"<addr>":null}: an entry without values of its own, the same as {}
			first.Relays[addr] = nil
			over = c10Vals{}
		}
	}
	// a second entry that also matches must never be applied once the first one matched
	decoyFee := bellatrix.ExecutionAddress{0xdd}
	decoyGas := uint64(1)
	second := &ProposerConfig{Validator: pubkey, FeeRecipient: &decoyFee, GasLimit: &decoyGas, ResetRelays: true}
	cfg.Proposers = []*ProposerConfig{first, second}
	if !matches {
		cfg.Proposers = []*ProposerConfig{first} // no entry matches
	}

	// the configuration object serves many lookups during its life: an earlier lookup for
	// another validator (the one the first entry names when it does not name ours) has no
	// bearing on this one, and what it was handed does not change afterwards
	type relaySnap struct {
		addr     string
		fee      bellatrix.ExecutionAddress
		gas, min uint64
		grace    time.Duration
		key      phase0.BLSPubKey
		hasKey   bool
	}
	var earlier *beaconblockproposer.ProposerConfig
	var earlierSnap []relaySnap
	if vnd.Bool("an-earlier-lookup-for-another-validator") {
		earlier, _ = cfg.ProposerConfig(context.Background(), nil, phase0.BLSPubKey{9}, fallbackFee, fallbackGas)
		if earlier != nil {
			for _, r := range earlier.Relays {
				sn := relaySnap{addr: r.Address, fee: r.FeeRecipient, gas: r.GasLimit, min: r.MinValue.BigInt().Uint64(), grace: r.Grace}
				if r.PublicKey != nil {
					sn.key, sn.hasKey = *r.PublicKey, true
				}
				earlierSnap = append(earlierSnap, sn)
			}
		}
	}

	got, err := cfg.ProposerConfig(context.Background(), nil, pubkey, fallbackFee, fallbackGas)
	vnd.Assert(err == nil && got != nil, "C10.v2.no-error")
	if earlier != nil {
		vnd.Assert(len(earlier.Relays) == len(earlierSnap), "C10.v2.settings-handed-out-earlier-are-unchanged")
		for i, r := range earlier.Relays {
			if i < len(earlierSnap) {
				w := earlierSnap[i]
				vnd.Assert(r.Address == w.addr && r.FeeRecipient == w.fee && r.GasLimit == w.gas && r.Grace == w.grace && r.MinValue.BigInt().Uint64() == w.min, "C10.v2.settings-handed-out-earlier-are-unchanged")
				vnd.Assert((r.PublicKey != nil) == w.hasKey && (r.PublicKey == nil || *r.PublicKey == w.key), "C10.v2.settings-handed-out-earlier-are-unchanged")
			}
		}
	}

	// lookups only read the configuration: the base relay still has the key it was configured with
	if fam == famKey {
		b := cfg.Relays["https://base.example"]
		vnd.Assert(b != nil && (b.PublicKey != nil) == base.present && (b.PublicKey == nil || *b.PublicKey == base.key), "C10.v2.lookups-leave-the-configuration-as-it-was")
	}

	none := c10Vals{}
	p, o := none, none
	if matches {
		p = prop
		if overrideKind != 0 {
			o = over
		}
	}
	// top-level fee recipient of the proposer settings
	if fam == famFee {
		want := fallbackFee
		if l, ok := pick(p, top); ok {
			want = l.fee
		}
		vnd.Assert(got.FeeRecipient == want, "C10.v2.fee-recipient-precedence")
	}
	// expected relay set
	type exp struct {
		addr   string
		levels []c10Vals
	}
	var want []exp
	baseKept := !(matches && reset) && !(matches && overrideKind == 1 && disabled)
	if baseKept {
		lv := []c10Vals{none, p, base, top}
		if overrideKind == 1 {
			lv[0] = o
		}
		want = append(want, exp{"https://base.example", lv})
	}
	if matches && overrideKind == 2 && !disabled {
		// a new relay named by the proposer entry
		want = append(want, exp{"https://new.example", []c10Vals{o, p, top}})
	}
	if matches && overrideKind == 1 && reset && !disabled {
		// reset discards the inherited relay; naming it again adds it afresh
		want = append(want, exp{"https://base.example", []c10Vals{o, p, top}})
	}
	vnd.Assert(len(got.Relays) == len(want), "C10.v2.relay-set")
	for _, w := range want {
		var r *beaconblockproposer.RelayConfig
		for _, x := range got.Relays {
			if x.Address == w.addr {
				r = x
			}
		}
		vnd.Assert(r != nil, "C10.v2.relay-present")
		if r == nil {
			continue
		}
		l, ok := pick(w.levels...)
		switch fam {
		case famFee:
			wantFee := fallbackFee
			if ok {
				wantFee = l.fee
			}
			vnd.Assert(r.FeeRecipient == wantFee, "C10.v2.relay-fee-recipient-precedence")
			vnd.Assert(r.GasLimit == fallbackGas, "C10.v2.relay-gas-limit-fallback")
		case famGas:
			wantGas := fallbackGas
			if ok {
				wantGas = l.gas
			}
			vnd.Assert(r.GasLimit == wantGas, "C10.v2.relay-gas-limit-precedence")
			vnd.Assert(r.FeeRecipient == fallbackFee, "C10.v2.relay-fee-recipient-fallback")
		case famGrace:
			wantGrace := time.Duration(0)
			if ok {
				wantGrace = l.grace
			}
			vnd.Assert(r.Grace == wantGrace, "C10.v2.relay-grace-precedence")
		case famMin:
			wantMin := uint64(0)
			if ok {
				wantMin = l.min
			}
			vnd.Assert(r.MinValue.BigInt().Uint64() == wantMin && r.MinValue.BigInt().IsUint64(), "C10.v2.relay-min-value-precedence")
		case famKey:
			// only the relay-level entries carry a key: the proposer's relay entry over the base relay's
			kl, kok := pick(w.levels[0], base)
			if w.addr != "https://base.example" || (matches && reset) {
				kl, kok = pick(w.levels[0]) // a new relay, or the inherited one discarded and named afresh
			}
			vnd.Assert((r.PublicKey != nil) == kok, "C10.v2.relay-public-key-precedence")
			if r.PublicKey != nil && kok {
				vnd.Assert(*r.PublicKey == kl.key, "C10.v2.relay-public-key-precedence")
			}
		}
		vnd.Cover("C10.v2.relay-checked")
	}
}

// VerifC16_ConfigShapes: execution configurations of any shape the JSON
// decoder can deliver (null relay entries, null proposer entries, proposer entry without key) end in an
// error or a usable result, never in a crash.
func VerifC16_ConfigShapes() {
	pubkey := phase0.BLSPubKey{7}
	cfg := &ExecutionConfig{Version: 2, Relays: map[string]*BaseRelayConfig{}}
	switch vnd.Choose("base-relay", 3) {
	case 1:
		cfg.Relays["https://base.example"] = &BaseRelayConfig{}
	case 2:
		cfg.Relays["https://base.example"] = nil // "relays": {"https://base.example": null}
	}
	p := &ProposerConfig{Validator: pubkey}
	switch vnd.Choose("proposer-relay", 4) {
	case 1:
		p.Relays = map[string]*ProposerRelayConfig{"https://base.example": {}}
	case 2:
		p.Relays = map[string]*ProposerRelayConfig{"https://base.example": nil}
	case 3:
		p.Relays = map[string]*ProposerRelayConfig{"https://new.example": nil}
	}
	if vnd.Bool("proposer-without-key") {
		p.Validator = phase0.BLSPubKey{}
	}
	cfg.Proposers = []*ProposerConfig{p}
	switch vnd.Choose("null-proposer-entry", 3) { // "proposers": [null, {...}] / [{...}, null]
	case 1:
		cfg.Proposers = []*ProposerConfig{nil, p}
	case 2:
		cfg.Proposers = []*ProposerConfig{p, nil}
	}
	_, _ = cfg.ProposerConfig(context.Background(), nil, pubkey, bellatrix.ExecutionAddress{1}, 30000000)
	vnd.Cover("C16.config.survived")
}

// ---------------------------------------------------------------------------
// account proposers

type c10Account struct {
	vstub.Account
	w *vstub.Wallet
}

func (a *c10Account) Wallet() e2wtypes.Wallet { return a.w }

var c10Doc struct {
	text     string
	proposer string
}

// VerifStub_json_Unmarshal stands for encoding/json.Unmarshal on the proposer
// entry document of VerifC10_V2AccountAnchors (the native replay uses the real
// decoder on the same text).
func VerifStub_json_Unmarshal(data []byte, v any) error {
	if string(data) == "wire" {
		// the round trip of VerifC10_V2RoundTrip: what json.Marshal was given comes back
		// (string fields tagged omitempty are absent when empty, which decodes to empty)
		switch d := v.(type) {
		case *proposerRelayConfigJSON:
			*d = *(c10Wire.(*proposerRelayConfigJSON))
		case *baseRelayConfigJSON:
			*d = *(c10Wire.(*baseRelayConfigJSON))
		case *proposerConfigJSON:
			*d = *(c10Wire.(*proposerConfigJSON))
		case *executionConfigJSON:
			*d = *(c10Wire.(*executionConfigJSON))
		default:
			return errors.New("target outside the catalogue")
		}
		return nil
	}
	if string(data) != c10Doc.text {
		return errors.New("document outside the catalogue")
	}
	d, ok := v.(*proposerConfigJSON)
	if !ok {
		return errors.New("target outside the catalogue")
	}
	d.Proposer = c10Doc.proposer
	d.FeeRecipient = "0x0101010101010101010101010101010101010101"
	return nil
}

// VerifC10_V2AccountAnchors: an account proposer read from a version 2
// document applies to an account exactly when the expression, anchored at both
// ends whatever anchors it was written with, matches the whole "wallet/account"
// name; the entry decoded from the document is the one applied.
func VerifC10_V2AccountAnchors() {
	body := []string{"Wallet 1/Account 1", "Wallet 1/Account .", "Wallet 1/.*", "W.*1"}[vnd.Choose("expression", 4)]
	written := body
	switch vnd.Choose("anchors-written", 4) {
	case 1:
		written = "^" + body
	case 2:
		written = body + "$"
	case 3:
		written = "^" + body + "$"
	}
	c10Doc.proposer = written
	c10Doc.text = `{"proposer":"` + written + `","fee_recipient":"0x0101010101010101010101010101010101010101"}`
	entry := &ProposerConfig{}
	err := entry.UnmarshalJSON([]byte(c10Doc.text))
	vnd.Assert(err == nil && entry.Account != nil, "C10.v2.account-entry-decodes")
	if err != nil || entry.Account == nil {
		return
	}
	vnd.Assert(entry.Account.String() == "^"+body+"$", "C10.v2.account-expression-anchored-at-both-ends")

	names := [][2]string{{"Wallet 1", "Account 1"}, {"Wallet 1", "Account 10"}, {"Cold Wallet 1", "Account 1"}, {"Wallet 1", "Account 2"}, {"Wallet 2", "Account 1"}, {"Wallet 11", "x/Account 1"}}
	nm := names[vnd.Choose("account-name", len(names))]
	acc := &c10Account{w: &vstub.Wallet{Nm: nm[0]}}
	acc.Nm = nm[1]
	// a later entry that matches everything must not be reached when the first matches
	decoyFee := bellatrix.ExecutionAddress{0xdd}
	cfg := &ExecutionConfig{Version: 2, Proposers: []*ProposerConfig{entry, {Account: regexp.MustCompile("^.*$"), FeeRecipient: &decoyFee}}}
	fallbackFee := bellatrix.ExecutionAddress{0xfa}
	got, err := cfg.ProposerConfig(context.Background(), acc, phase0.BLSPubKey{7}, fallbackFee, 30000000)
	vnd.Assert(err == nil && got != nil, "C10.v2.account-lookup-no-error")
	whole := regexp.MustCompile("^(?:" + body + ")$").MatchString(nm[0] + "/" + nm[1])
	want := decoyFee
	if whole {
		vnd.Cover("C10.v2.account-entry-applies")
		want = bellatrix.ExecutionAddress{1, 1, 1, 1, 1, 1, 1, 1, 1, 1, 1, 1, 1, 1, 1, 1, 1, 1, 1, 1}
	} else {
		vnd.Cover("C10.v2.account-entry-skipped")
	}
	vnd.Assert(got.FeeRecipient == want, "C10.v2.first-entry-matching-the-whole-account-name-applies")
}

// ---------------------------------------------------------------------------
// marshal / unmarshal round trip

var c10Wire any

// VerifStub_json_Marshal stands for encoding/json.Marshal on the four wire
// structs of this package in VerifC10_V2RoundTrip: the JSON text itself is
// not modelled, the struct handed to the encoder is what the decoder delivers
// (native replay runs the real encoder and decoder).
func VerifStub_json_Marshal(v any) ([]byte, error) {
	c10Wire = v
	return []byte("wire"), nil
}

type c10Opt struct {
	min   *decimal.Decimal
	fee   *bellatrix.ExecutionAddress
	gas   *uint64
	grace *time.Duration
	key   *phase0.BLSPubKey
}

// ndOpt: every optional setting absent or present; numbers symbolic (grace in
// whole milliseconds below 2^40, as the document holds milliseconds), addresses
// and keys one concrete value (their hex text is concrete).
func ndOpt(name string) c10Opt {
	var o c10Opt
	if vnd.Bool(name + ".fee.present") {
		a := bellatrix.ExecutionAddress{1, 2, 3, 4, 5, 6, 7, 8, 9, 10, 11, 12, 13, 14, 15, 16, 17, 18, 19, 20}
		o.fee = &a
	}
	if vnd.Bool(name + ".gas.present") {
		g := vnd.U64(name + ".gas")
		o.gas = &g
	}
	if vnd.Bool(name + ".grace.present") {
		ms := vnd.U64(name + ".grace.ms")
		vnd.Assume(ms < 1<<40)
		g := time.Duration(ms) * time.Millisecond
		o.grace = &g
	}
	if vnd.Bool(name + ".key.present") {
		k := phase0.BLSPubKey{0xaa, 0xbb}
		o.key = &k
	}
	return o
}

func sameU64(a, b *uint64) bool { return (a == nil) == (b == nil) && (a == nil || *a == *b) }
func sameDur(a, b *time.Duration) bool {
	return (a == nil) == (b == nil) && (a == nil || *a == *b)
}
func sameAddr(a, b *bellatrix.ExecutionAddress) bool {
	return (a == nil) == (b == nil) && (a == nil || *a == *b)
}
func sameKey(a, b *phase0.BLSPubKey) bool { return (a == nil) == (b == nil) && (a == nil || *a == *b) }
func sameMin(a, b *decimal.Decimal) bool {
	return (a == nil) == (b == nil) && (a == nil || a.BigInt().Cmp(b.BigInt()) == 0)
}

// VerifC10_V2RoundTrip: each of the four version 2 configuration objects
// survives MarshalJSON followed by UnmarshalJSON with every setting as it was:
// present settings keep their value (zero included), absent ones stay absent.
func VerifC10_V2RoundTrip() {
	o := ndOpt("o")
	switch vnd.Choose("object", 4) {
	case 0:
		in := &ProposerRelayConfig{Disabled: vnd.Bool("disabled"), PublicKey: o.key, FeeRecipient: o.fee, GasLimit: o.gas, Grace: o.grace, MinValue: o.min}
		doc, err := in.MarshalJSON()
		vnd.Assert(err == nil, "C10.roundtrip.marshal")
		out := &ProposerRelayConfig{}
		vnd.Assert(out.UnmarshalJSON(doc) == nil, "C10.roundtrip.unmarshal")
		vnd.Assert(out.Disabled == in.Disabled && sameKey(out.PublicKey, in.PublicKey) && sameAddr(out.FeeRecipient, in.FeeRecipient), "C10.roundtrip.proposer-relay-entry-same-meaning")
		vnd.Assert(sameU64(out.GasLimit, in.GasLimit), "C10.roundtrip.gas-limit-kept")
		vnd.Assert(sameDur(out.Grace, in.Grace), "C10.roundtrip.grace-kept-zero-included")
		vnd.Assert(sameMin(out.MinValue, in.MinValue), "C10.roundtrip.min-value-kept")
	case 1:
		in := &BaseRelayConfig{PublicKey: o.key, FeeRecipient: o.fee, GasLimit: o.gas, Grace: o.grace, MinValue: o.min}
		doc, err := in.MarshalJSON()
		vnd.Assert(err == nil, "C10.roundtrip.marshal")
		out := &BaseRelayConfig{}
		vnd.Assert(out.UnmarshalJSON(doc) == nil, "C10.roundtrip.unmarshal")
		vnd.Assert(sameKey(out.PublicKey, in.PublicKey) && sameAddr(out.FeeRecipient, in.FeeRecipient), "C10.roundtrip.base-relay-entry-same-meaning")
		vnd.Assert(sameU64(out.GasLimit, in.GasLimit), "C10.roundtrip.gas-limit-kept")
		vnd.Assert(sameDur(out.Grace, in.Grace), "C10.roundtrip.grace-kept-zero-included")
		vnd.Assert(sameMin(out.MinValue, in.MinValue), "C10.roundtrip.min-value-kept")
	case 2:
		relays := map[string]*ProposerRelayConfig{"https://r.example": {}}
		in := &ProposerConfig{Validator: phase0.BLSPubKey{7}, FeeRecipient: o.fee, GasLimit: o.gas, Grace: o.grace, MinValue: o.min, ResetRelays: vnd.Bool("reset"), Relays: relays}
		if vnd.Bool("by-account") {
			in.Validator = phase0.BLSPubKey{}
			in.Account = regexp.MustCompile("^Wallet 1/.*$")
		}
		doc, err := in.MarshalJSON()
		vnd.Assert(err == nil, "C10.roundtrip.marshal")
		out := &ProposerConfig{}
		vnd.Assert(out.UnmarshalJSON(doc) == nil, "C10.roundtrip.unmarshal")
		vnd.Assert(out.Validator == in.Validator && (out.Account == nil) == (in.Account == nil), "C10.roundtrip.proposer-kept")
		if in.Account != nil && out.Account != nil {
			vnd.Assert(out.Account.String() == in.Account.String(), "C10.roundtrip.proposer-kept")
		}
		vnd.Assert(sameAddr(out.FeeRecipient, in.FeeRecipient) && out.ResetRelays == in.ResetRelays && len(out.Relays) == 1, "C10.roundtrip.proposer-entry-same-meaning")
		vnd.Assert(sameU64(out.GasLimit, in.GasLimit), "C10.roundtrip.gas-limit-kept")
		vnd.Assert(sameDur(out.Grace, in.Grace), "C10.roundtrip.grace-kept-zero-included")
		vnd.Assert(sameMin(out.MinValue, in.MinValue), "C10.roundtrip.min-value-kept")
	case 3:
		in := &ExecutionConfig{Version: 2, FeeRecipient: o.fee, GasLimit: o.gas, Grace: o.grace, MinValue: o.min,
			Relays: map[string]*BaseRelayConfig{"https://r.example": {}}, Proposers: []*ProposerConfig{{Validator: phase0.BLSPubKey{7}}}}
		doc, err := in.MarshalJSON()
		vnd.Assert(err == nil, "C10.roundtrip.marshal")
		out := &ExecutionConfig{}
		vnd.Assert(out.UnmarshalJSON(doc) == nil, "C10.roundtrip.unmarshal")
		vnd.Assert(sameAddr(out.FeeRecipient, in.FeeRecipient) && len(out.Relays) == 1 && len(out.Proposers) == 1, "C10.roundtrip.configuration-same-meaning")
		vnd.Assert(sameU64(out.GasLimit, in.GasLimit), "C10.roundtrip.gas-limit-kept")
		vnd.Assert(sameDur(out.Grace, in.Grace), "C10.roundtrip.grace-kept-zero-included")
		vnd.Assert(sameMin(out.MinValue, in.MinValue), "C10.roundtrip.min-value-kept")
	}
	vnd.Cover("C10.roundtrip.checked")
}

// VerifC10_V2MinValueRoundTrip: the minimum value (held in wei, written in
// ETH) of each of the four objects survives the round trip: absent stays
// absent; 0, 0.5, 10 and 100 ETH come back as the same number of wei.
func VerifC10_V2MinValueRoundTrip() {
	var min *decimal.Decimal
	if m := vnd.Choose("min-value", 5); m > 0 {
		d := decimal.New([]int64{0, 5, 100, 1000}[m-1], 17)
		min = &d
	}
	var out *decimal.Decimal
	switch vnd.Choose("object", 4) {
	case 0:
		in := &ProposerRelayConfig{MinValue: min}
		doc, err := in.MarshalJSON()
		vnd.Assert(err == nil, "C10.minvalue.marshal")
		o := &ProposerRelayConfig{}
		vnd.Assert(o.UnmarshalJSON(doc) == nil, "C10.minvalue.unmarshal")
		out = o.MinValue
	case 1:
		in := &BaseRelayConfig{MinValue: min}
		doc, err := in.MarshalJSON()
		vnd.Assert(err == nil, "C10.minvalue.marshal")
		o := &BaseRelayConfig{}
		vnd.Assert(o.UnmarshalJSON(doc) == nil, "C10.minvalue.unmarshal")
		out = o.MinValue
	case 2:
		in := &ProposerConfig{Validator: phase0.BLSPubKey{7}, MinValue: min}
		doc, err := in.MarshalJSON()
		vnd.Assert(err == nil, "C10.minvalue.marshal")
		o := &ProposerConfig{}
		vnd.Assert(o.UnmarshalJSON(doc) == nil, "C10.minvalue.unmarshal")
		out = o.MinValue
	case 3:
		in := &ExecutionConfig{Version: 2, MinValue: min}
		doc, err := in.MarshalJSON()
		vnd.Assert(err == nil, "C10.minvalue.marshal")
		o := &ExecutionConfig{}
		vnd.Assert(o.UnmarshalJSON(doc) == nil, "C10.minvalue.unmarshal")
		out = o.MinValue
	}
	vnd.Assert(sameMin(out, min), "C10.minvalue.kept-through-the-round-trip")
	vnd.Cover("C10.minvalue.checked")
}
