//go:build verif

package v2

import (
	"context"

	"github.com/attestantio/go-eth2-client/spec/bellatrix"
	"github.com/attestantio/go-eth2-client/spec/phase0"
	"github.com/attestantio/vouch/internal/vnd"
)

// VerifC17_ConcurrentLookups: one version 2 execution configuration - the object the relay service
// publishes and then hands, unlocked or under a shared read lock, to registration rounds,
// proposer-setting lookups and REST requests alike - is consulted by two lookups at once (for the
// same or for different validators; null or empty base relay entries, proposer entries with null,
// empty, disabled or new relay overrides). Run with the race monitor on every schedule within the
// preemption bound: no conflicting unsynchronised access, and each lookup's answer is the one it
// gets alone.
func VerifC17_ConcurrentLookups() {
	keyA, keyB := phase0.BLSPubKey{7}, phase0.BLSPubKey{8}
	cfg := &ExecutionConfig{Version: 2, Relays: map[string]*BaseRelayConfig{}}
	gas := uint64(31000000)
	switch vnd.Choose("base-relay", 3) {
	case 0:
		cfg.Relays["https://base.example"] = &BaseRelayConfig{GasLimit: &gas}
	case 1:
		cfg.Relays["https://base.example"] = nil // "relays": {"https://base.example": null}
	case 2:
		cfg.Relays["https://base.example"] = nil
		cfg.Relays["https://other.example"] = &BaseRelayConfig{}
	}
	p := &ProposerConfig{Validator: keyA}
	switch vnd.Choose("proposer-relay", 4) {
	case 1:
		p.Relays = map[string]*ProposerRelayConfig{"https://base.example": {Disabled: vnd.Bool("disabled")}}
	case 2:
		p.Relays = map[string]*ProposerRelayConfig{"https://base.example": nil}
	case 3:
		p.Relays = map[string]*ProposerRelayConfig{"https://new.example": nil}
	}
	p.ResetRelays = vnd.Bool("reset-relays")
	cfg.Proposers = []*ProposerConfig{p}
	second := keyA
	if vnd.Bool("second-lookup-for-another-validator") {
		second = keyB
	}
	// what each lookup answers on its own, taken from an identical private configuration
	type answer struct {
		err    bool
		relays int
		gas    uint64
	}
	summarise := func(k phase0.BLSPubKey) answer {
		res, err := cfg.ProposerConfig(context.Background(), nil, k, bellatrix.ExecutionAddress{1}, 30000000)
		if err != nil {
			return answer{err: true}
		}
		a := answer{relays: len(res.Relays)}
		for _, r := range res.Relays {
			a.gas += r.GasLimit
		}
		return a
	}
	var got [2]answer
	done := 0
	for i, k := range []phase0.BLSPubKey{keyA, second} {
		i, k := i, k
		go func() {
			got[i] = summarise(k)
			done++
		}()
	}
	left := vnd.Quiesce()
	vnd.Assert(left == 0 && done == 2, "C17.v2.lookups-finish")
	// afterwards (sequentially) the same questions get the same answers: the overlap changed nothing
	vnd.Assert(got[0] == summarise(keyA), "C17.v2.first-lookup-answer-is-the-sequential-one")
	vnd.Assert(got[1] == summarise(second), "C17.v2.second-lookup-answer-is-the-sequential-one")
	vnd.Cover("C17.v2.lookups-overlapped")
}
