//go:build verif

package standard

import (
	"context"
	"errors"
	"sync"

	"github.com/attestantio/go-eth2-client/api"
	apiv1 "github.com/attestantio/go-eth2-client/api/v1"
	"github.com/attestantio/go-eth2-client/spec/phase0"
	"github.com/attestantio/vouch/internal/vnd"
	"github.com/attestantio/vouch/internal/vstub"
	"github.com/attestantio/vouch/services/attestationaggregator"
	"github.com/attestantio/vouch/services/beaconcommitteesubscriber"
	nullmetrics "github.com/attestantio/vouch/services/metrics/null"
	e2wtypes "github.com/wealdtech/go-eth2-wallet-types/v2"
)

type c14Duties struct {
	duties []*apiv1.AttesterDuty
}

func (h *c14Duties) AttesterDuties(_ context.Context, _ *api.AttesterDutiesOpts) (*api.Response[[]*apiv1.AttesterDuty], error) {
	return &api.Response[[]*apiv1.AttesterDuty]{Data: h.duties, Metadata: map[string]any{}}, nil
}

type c14Agg struct {
	fail     bool
	failSlot map[phase0.Slot]bool // slots whose selection signing fails
	flag     map[uint64]bool      // validator index -> aggregator
	sizes    map[uint64]uint64    // validator index -> the committee size its selection was judged with
	mu       sync.Mutex           // the slots of an epoch are handled by goroutines of their own
}

func (h *c14Agg) Aggregate(_ context.Context, _ *attestationaggregator.Duty) {}

func (h *c14Agg) AggregatorsAndSignatures(_ context.Context, accounts []e2wtypes.Account, slot phase0.Slot, sizes []uint64) ([]phase0.BLSSignature, []bool, error) {
	if h.fail || h.failSlot[slot] {
		return nil, nil, errors.New("mock aggregator failure")
	}
	sigs := make([]phase0.BLSSignature, len(accounts))
	flags := make([]bool, len(accounts))
	for i, a := range accounts {
		flags[i] = h.flag[a.(*vstub.Account).VIndex]
		if h.sizes != nil && i < len(sizes) {
			h.mu.Lock()
			h.sizes[a.(*vstub.Account).VIndex] = sizes[i]
			h.mu.Unlock()
		}
		sigs[i][0] = byte(a.(*vstub.Account).VIndex)
	}
	return sigs, flags, nil
}

type c14Submitter struct {
	calls [][]*apiv1.BeaconCommitteeSubscription
}

func (h *c14Submitter) SubmitBeaconCommitteeSubscriptions(_ context.Context, subs []*apiv1.BeaconCommitteeSubscription) error {
	h.calls = append(h.calls, subs)
	return nil
}

// c14Length: the committees of a slot differ in size (and in the modulus of the selection rule).
func c14Length(c phase0.CommitteeIndex) uint64 { return 127 + uint64(c)*129 }

// c14New builds the subscriber the way main does: through New.
func c14New(ct *vstub.ChainTime, processConcurrency int64, dp *c14Duties, agg *c14Agg, sub *c14Submitter) *Service {
	s, err := New(context.Background(),
		WithLogLevel(vnd.LogLevel()),
		WithMonitor(&nullmetrics.Service{}),
		WithProcessConcurrency(processConcurrency),
		WithChainTimeService(ct),
		WithAttesterDutiesProvider(dp),
		WithAttestationAggregator(agg),
		WithBeaconCommitteeSubmitter(sub),
	)
	vnd.Assert(err == nil && s != nil, "C14.new.accepted")
	return s
}

// VerifC14_Subscribe: every (slot, committee) with a duty in a slot after the
// current one is subscribed, whatever other duties of the epoch lie in the past.
func VerifC14_Subscribe() { c14Subscribe(vnd.IntRange("m", 1, 2)) }

func VerifC14_Subscribe3() { c14Subscribe(3) }

func c14Subscribe(m int) {
	ct := vstub.NewChainTime(0)
	dp := &c14Duties{}
	agg := &c14Agg{flag: map[uint64]bool{}, sizes: map[uint64]uint64{}}
	sub := &c14Submitter{}
	s := c14New(ct, 2, dp, agg, sub)
	accounts := map[phase0.ValidatorIndex]e2wtypes.Account{}
	slots := make([]phase0.Slot, m)
	comms := make([]phase0.CommitteeIndex, m)
	for i := 0; i < m; i++ {
		// slots relative to the current slot: before / at / after
		rel := vnd.Choose("duty.rel", 4)
		slots[i] = phase0.Slot(uint64(ct.Cur) + uint64(rel))
		vnd.Assume(uint64(ct.Cur) >= 1)
		slots[i]-- // rel 0: past, 1: current, 2,3: future
		comms[i] = phase0.CommitteeIndex(vnd.Choose("duty.committee", 2))
		v := phase0.ValidatorIndex(10 + i)
		agg.flag[uint64(v)] = vnd.Bool("is-aggregator")
		accounts[v] = &vstub.Account{VIndex: uint64(v), Nm: "acc"}
		dp.duties = append(dp.duties, &apiv1.AttesterDuty{Slot: slots[i], ValidatorIndex: v, CommitteeIndex: comms[i],
			CommitteeLength: c14Length(comms[i]), CommitteesAtSlot: 2, ValidatorCommitteeIndex: uint64(i)})
	}
	info, err := s.Subscribe(context.Background(), phase0.Epoch(uint64(ct.Cur)/ct.SPE), accounts)
	vnd.Assert(err == nil, "C14.subscribe.no-error")
	vnd.Quiesce()
	vnd.Assert(vnd.Blocked() == 0, "C14.subscribe.goroutines-finish")
	var payload []*apiv1.BeaconCommitteeSubscription
	if len(sub.calls) > 0 {
		vnd.Assert(len(sub.calls) == 1, "C14.subscribe.single-submission")
		payload = sub.calls[0]
	}
	expected := 0
	for i := 0; i < m; i++ {
		first := true
		for j := 0; j < i; j++ {
			if slots[j] == slots[i] && comms[j] == comms[i] {
				first = false
			}
		}
		if uint64(slots[i]) > uint64(ct.Cur) {
			if first {
				expected++
			}
			vnd.Cover("C14.subscribe.future-duty")
			// the selection rule was applied with the size of this validator's own committee
			sz, asked := agg.sizes[uint64(10+i)]
			vnd.Assert(asked && sz == c14Length(comms[i]), "C14.subscribe.selection-judged-with-the-validators-own-committee-size")
			// exactly one entry for this (slot, committee)
			n := 0
			for _, p := range payload {
				if p.Slot == slots[i] && p.CommitteeIndex == comms[i] {
					n++
					vnd.Assert(p.CommitteesAtSlot == 2, "C14.subscribe.committees-at-slot")
					// the entry names a validator of that committee and its aggregator flag
					okv := false
					for k := 0; k < m; k++ {
						if slots[k] == slots[i] && comms[k] == comms[i] && p.ValidatorIndex == phase0.ValidatorIndex(10+k) && p.IsAggregator == agg.flag[uint64(10+k)] {
							okv = true
						}
					}
					vnd.Assert(okv, "C14.subscribe.validator-and-flag-of-that-committee")
				}
			}
			vnd.Assert(n == 1, "C14.subscribe.every-future-slot-committee-subscribed")
			// stored info marks the committee as aggregator iff one of its validators is
			anyAgg := false
			for k := 0; k < m; k++ {
				if slots[k] == slots[i] && comms[k] == comms[i] && agg.flag[uint64(10+k)] {
					anyAgg = true
				}
			}
			si := info[slots[i]][comms[i]]
			vnd.Assert(si != nil && si.IsAggregator == anyAgg, "C14.subscribe.info-aggregator-if-any-validator-selected")
		} else {
			for _, p := range payload {
				vnd.Assert(!(p.Slot == slots[i] && p.CommitteeIndex == comms[i]), "C14.subscribe.no-subscription-for-non-future-slot")
			}
		}
	}
	vnd.Assert(len(payload) == expected, "C14.subscribe.nothing-else")
}

// VerifC14_SubscribeSignFailures: three duties in three different future slots,
// process concurrency 1..2; the slot-selection signing of any subset of the
// slots fails. Subscribe still returns, and every slot whose signing worked is
// subscribed and present in the returned information: a failing slot is dropped
// on its own.
func VerifC14_SubscribeSignFailures() {
	ct := vstub.NewChainTime(0)
	dp := &c14Duties{}
	agg := &c14Agg{flag: map[uint64]bool{}, failSlot: map[phase0.Slot]bool{}}
	sub := &c14Submitter{}
	s := c14New(ct, int64(vnd.IntRange("process-concurrency", 1, 2)), dp, agg, sub)
	accounts := map[phase0.ValidatorIndex]e2wtypes.Account{}
	const m = 3
	var slots [m]phase0.Slot
	var fails [m]bool
	for i := 0; i < m; i++ {
		slots[i] = phase0.Slot(uint64(ct.Cur) + 1 + uint64(i))
		fails[i] = vnd.Bool("signing-fails")
		agg.failSlot[slots[i]] = fails[i]
		v := phase0.ValidatorIndex(10 + i)
		accounts[v] = &vstub.Account{VIndex: uint64(v), Nm: "acc"}
		dp.duties = append(dp.duties, &apiv1.AttesterDuty{Slot: slots[i], ValidatorIndex: v, CommitteeIndex: 1, CommitteeLength: 16, CommitteesAtSlot: 2, ValidatorCommitteeIndex: uint64(i)})
	}
	returned := false
	var info map[phase0.Slot]map[phase0.CommitteeIndex]*beaconcommitteesubscriber.Subscription
	go func() {
		info, _ = s.Subscribe(context.Background(), phase0.Epoch(uint64(ct.Cur)/ct.SPE), accounts)
		returned = true
	}()
	left := vnd.Quiesce()
	vnd.Assert(returned && left == 0, "C14.signfail.subscribe-returns-whatever-fails")
	if !returned {
		return
	}
	var payload []*apiv1.BeaconCommitteeSubscription
	if len(sub.calls) > 0 {
		payload = sub.calls[0]
	}
	for i := 0; i < m; i++ {
		n := 0
		for _, p := range payload {
			if p.Slot == slots[i] {
				n++
			}
		}
		if fails[i] {
			vnd.Cover("C14.signfail.slot-dropped")
			vnd.Assert(n == 0, "C14.signfail.no-subscription-without-selection-proof")
		} else {
			vnd.Assert(n == 1, "C14.signfail.a-failing-slot-does-not-stop-the-others")
			vnd.Assert(info[slots[i]][1] != nil, "C14.signfail.info-for-every-subscribed-slot")
		}
	}
}
