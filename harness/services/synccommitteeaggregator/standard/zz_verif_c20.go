//go:build verif

package standard

import (
	"github.com/attestantio/go-eth2-client/spec/phase0"
	"github.com/attestantio/vouch/internal/vnd"
	"github.com/attestantio/vouch/internal/vstub"
)

// VerifC20_HeadRootsBounded: recording the head root for slot s (done for every
// slot a sync committee member messages) leaves no root older than a few slots,
// whether or not an aggregation ever consumed the earlier ones.
func VerifC20_HeadRootsBounded() {
	// only the bookkeeping of the roots is exercised: the providers are inert;
	// New leaves the recorded roots empty, the pre-state is filled in below
	s := c15New("C20.new.accepted", &vstub.ChainTime{SPE: 32, SlotNs: 1 << 33}, &c15Roots{}, &c15Contribs{}, &c15CPSigner{}, &c15Submitter{})
	slot := phase0.Slot(vnd.U64("slot"))
	vnd.Assume(slot >= 16 && uint64(slot) < 1<<40)
	for back := phase0.Slot(1); back <= 6; back++ {
		if vnd.Bool("older-root-present") {
			s.beaconBlockRoots[slot-back] = phase0.Root{byte(back)}
		}
	}
	root := phase0.Root(vnd.Root("head"))
	s.SetBeaconBlockRoot(slot, root)
	got, ok := s.beaconBlockRoots[slot]
	vnd.Assert(ok && got == root, "C20.roots.recorded")
	for k := range s.beaconBlockRoots {
		vnd.Assert(k+4 >= slot, "C20.roots.nothing-older-than-a-few-slots")
	}
	vnd.Assert(vnd.HeldLocks() == 0, "C20.roots.locks-released")
	vnd.Cover("C20.roots.checked")
}
