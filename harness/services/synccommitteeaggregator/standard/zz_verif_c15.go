//go:build verif

package standard

import (
	"context"
	"errors"

	"github.com/attestantio/go-eth2-client/api"
	"github.com/attestantio/go-eth2-client/spec/altair"
	"github.com/attestantio/go-eth2-client/spec/phase0"
	"github.com/attestantio/vouch/internal/vnd"
	"github.com/attestantio/vouch/internal/vstub"
	nullmetrics "github.com/attestantio/vouch/services/metrics/null"
	"github.com/attestantio/vouch/services/synccommitteeaggregator"
	"github.com/prysmaticlabs/go-bitfield"
	e2wtypes "github.com/wealdtech/go-eth2-wallet-types/v2"
)

type c15Roots struct {
	fail  bool
	head  phase0.Root
	calls int
}

func (r *c15Roots) BeaconBlockRoot(_ context.Context, _ *api.BeaconBlockRootOpts) (*api.Response[*phase0.Root], error) {
	r.calls++
	if r.fail {
		return nil, errors.New("mock root failure")
	}
	h := r.head
	return &api.Response[*phase0.Root]{Data: &h, Metadata: map[string]any{}}, nil
}

type c15Contribs struct {
	failSub uint64 // subcommittee whose contribution cannot be obtained (99: none)
	asked   []*api.SyncCommitteeContributionOpts
	given   []*altair.SyncCommitteeContribution
}

func (c *c15Contribs) SyncCommitteeContribution(_ context.Context, opts *api.SyncCommitteeContributionOpts) (*api.Response[*altair.SyncCommitteeContribution], error) {
	c.asked = append(c.asked, opts)
	if opts.SubcommitteeIndex == c.failSub {
		return nil, errors.New("mock contribution failure")
	}
	bits := bitfield.NewBitvector128()
	bits.SetBitAt(opts.SubcommitteeIndex, true)
	con := &altair.SyncCommitteeContribution{Slot: opts.Slot, BeaconBlockRoot: opts.BeaconBlockRoot, SubcommitteeIndex: opts.SubcommitteeIndex, AggregationBits: bits}
	c.given = append(c.given, con)
	return &api.Response[*altair.SyncCommitteeContribution]{Data: con, Metadata: map[string]any{}}, nil
}

type c15CPSigner struct {
	fail bool
	accs []e2wtypes.Account
	caps []*altair.ContributionAndProof
}

func (g *c15CPSigner) SignContributionAndProofs(_ context.Context, accounts []e2wtypes.Account, caps []*altair.ContributionAndProof) ([]phase0.BLSSignature, error) {
	g.accs, g.caps = accounts, caps
	if g.fail {
		return nil, errors.New("mock sign failure")
	}
	sigs := make([]phase0.BLSSignature, len(accounts))
	for i, a := range accounts {
		sigs[i][0] = byte(a.(*vstub.Account).VIndex)
		sigs[i][1] = byte(caps[i].Contribution.SubcommitteeIndex)
		sigs[i][2] = byte(caps[i].AggregatorIndex)
	}
	return sigs, nil
}

type c15Submitter struct {
	fail  bool
	calls [][]*altair.SignedContributionAndProof
}

func (s *c15Submitter) SubmitSyncCommitteeContributions(_ context.Context, caps []*altair.SignedContributionAndProof) error {
	s.calls = append(s.calls, caps)
	if s.fail {
		return errors.New("mock submit failure")
	}
	return nil
}

// c15Spec is the chain specification New reads its constants from.
type c15Spec struct {
	spec map[string]any
}

func (h *c15Spec) Spec(_ context.Context, _ *api.SpecOpts) (*api.Response[map[string]any], error) {
	return &api.Response[map[string]any]{Data: h.spec, Metadata: map[string]any{}}, nil
}

// c15Accounts is the validating accounts provider New insists on; the
// aggregator takes its accounts from the duty and never asks it.
type c15Accounts struct{}

func (c15Accounts) ValidatingAccountsForEpoch(_ context.Context, _ phase0.Epoch) (map[phase0.ValidatorIndex]e2wtypes.Account, error) {
	return nil, errors.New("not used")
}

func (c15Accounts) ValidatingAccountsForEpochByIndex(_ context.Context, _ phase0.Epoch, _ []phase0.ValidatorIndex) (map[phase0.ValidatorIndex]e2wtypes.Account, error) {
	return nil, errors.New("not used")
}

func (c15Accounts) SyncCommitteeAccountsForEpoch(_ context.Context, _ phase0.Epoch) (map[phase0.ValidatorIndex]e2wtypes.Account, error) {
	return nil, errors.New("not used")
}

func (c15Accounts) SyncCommitteeAccountsForEpochByIndex(_ context.Context, _ phase0.Epoch, _ []phase0.ValidatorIndex) (map[phase0.ValidatorIndex]e2wtypes.Account, error) {
	return nil, errors.New("not used")
}

// c15New builds the aggregator the way main does: through New, its constants
// (the mainnet ones; none of them enters the aggregation) coming from the
// chain specification. New leaves the recorded head roots empty.
func c15New(label string, ct *vstub.ChainTime, roots *c15Roots, contribs *c15Contribs, sgn *c15CPSigner, sub *c15Submitter) *Service {
	s, err := New(context.Background(),
		WithLogLevel(vnd.LogLevel()),
		WithMonitor(&nullmetrics.Service{}),
		WithSpecProvider(&c15Spec{spec: map[string]any{
			"SLOTS_PER_EPOCH": ct.SPE, "SYNC_COMMITTEE_SIZE": uint64(512), "SYNC_COMMITTEE_SUBNET_COUNT": uint64(4),
			"TARGET_AGGREGATORS_PER_SYNC_SUBCOMMITTEE": uint64(16),
		}}),
		WithChainTime(ct),
		WithBeaconBlockRootProvider(roots),
		WithContributionAndProofSigner(sgn),
		WithValidatingAccountsProvider(c15Accounts{}),
		WithSyncCommitteeContributionProvider(contribs),
		WithSyncCommitteeContributionsSubmitter(sub),
	)
	vnd.Assert(err == nil && s != nil, label)
	return s
}

// VerifC15_Aggregate: the aggregation job of a slot: for every (aggregator,
// subcommittee) of the duty one signed contribution-and-proof is submitted, with
// that validator as aggregator, the contribution obtained for that slot,
// subcommittee and the head root the messages of that slot were signed over (the
// node's head if none was recorded), that pair's selection proof, and the
// signature made by that validator's account over that very message; when a step
// fails nothing wrong is submitted; the recorded root is consumed.
func VerifC15_Aggregate() {
	slot := phase0.Slot(vnd.U64("slot"))
	vnd.Assume(uint64(slot) < 1<<40)
	roots := &c15Roots{fail: vnd.Bool("head.fail"), head: phase0.Root(vnd.Root("head"))}
	contribs := &c15Contribs{failSub: []uint64{99, 1}[vnd.Choose("contribution.fails", 2)]}
	sgn := &c15CPSigner{fail: vnd.Bool("sign.fail")}
	sub := &c15Submitter{fail: vnd.Bool("submit.fail")}
	s := c15New("C15.new.accepted", vstub.NewChainTime(0), roots, contribs, sgn, sub)
	recorded := vnd.Bool("root-recorded-by-messenger")
	rec := phase0.Root(vnd.Root("recorded"))
	if recorded {
		s.SetBeaconBlockRoot(slot, rec)
	}
	nv := vnd.IntRange("aggregators", 1, 2)
	duty := &synccommitteeaggregator.Duty{Slot: slot, SelectionProofs: map[phase0.ValidatorIndex]map[uint64]phase0.BLSSignature{}, Accounts: map[phase0.ValidatorIndex]e2wtypes.Account{}}
	type pair struct {
		v     phase0.ValidatorIndex
		sub   uint64
		proof phase0.BLSSignature
	}
	var pairs []pair
	for i := 0; i < nv; i++ {
		v := phase0.ValidatorIndex(20 + i)
		duty.ValidatorIndices = append(duty.ValidatorIndices, v)
		duty.Accounts[v] = &vstub.Account{VIndex: uint64(v), Nm: "acc"}
		duty.SelectionProofs[v] = map[uint64]phase0.BLSSignature{}
		for k := 0; k < vnd.IntRange("subcommittees", 1, 2); k++ {
			p := pair{v, uint64(2*i + k), phase0.BLSSignature(vnd.Sig("selection-proof"))}
			duty.SelectionProofs[v][p.sub] = p.proof
			pairs = append(pairs, p)
		}
	}
	s.Aggregate(context.Background(), duty)

	want := rec
	if !recorded {
		want = roots.head
	}
	failed := (!recorded && roots.fail) || sgn.fail
	for _, p := range pairs {
		if p.sub == contribs.failSub {
			failed = true
		}
	}
	vnd.Assert(recorded == (roots.calls == 0), "C15.aggregate.head-asked-only-when-no-root-was-recorded")
	_, still := s.beaconBlockRoots[slot]
	vnd.Assert(!still, "C15.aggregate.recorded-root-consumed")
	if failed {
		vnd.Cover("C15.aggregate.step-failed")
		vnd.Assert(len(sub.calls) == 0, "C15.aggregate.nothing-submitted-when-a-step-fails")
		return
	}
	vnd.Cover("C15.aggregate.submitted")
	vnd.Assert(len(sub.calls) == 1 && len(sub.calls[0]) == len(pairs), "C15.aggregate.one-contribution-per-aggregator-and-subcommittee")
	if len(sub.calls) != 1 {
		return
	}
	for _, p := range pairs {
		n := 0
		for _, c := range sub.calls[0] {
			m := c.Message
			if m.AggregatorIndex == p.v && m.Contribution.SubcommitteeIndex == p.sub {
				n++
				vnd.Assert(m.Contribution.Slot == slot && m.Contribution.BeaconBlockRoot == want, "C15.aggregate.contribution-for-that-slot-and-the-root-messaged")
				vnd.Assert(m.SelectionProof == p.proof, "C15.aggregate.selection-proof-of-that-pair")
				vnd.Assert(c.Signature[0] == byte(p.v) && c.Signature[1] == byte(p.sub) && c.Signature[2] == byte(p.v), "C15.aggregate.signed-by-that-validator-over-that-message")
			}
		}
		vnd.Assert(n == 1, "C15.aggregate.every-pair-of-the-duty-contributes")
	}
	vnd.Assert(vnd.HeldLocks() == 0, "C15.aggregate.locks-released")
}
