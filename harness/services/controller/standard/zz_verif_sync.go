//go:build verif

package standard

import (
	"context"
	"errors"
	"fmt"
	"github.com/attestantio/go-eth2-client/spec"
	"github.com/attestantio/go-eth2-client/spec/capella"
	"github.com/prysmaticlabs/go-bitfield"
	"time"

	"github.com/attestantio/go-eth2-client/api"
	apiv1 "github.com/attestantio/go-eth2-client/api/v1"
	"github.com/attestantio/go-eth2-client/spec/altair"
	"github.com/attestantio/go-eth2-client/spec/phase0"
	"github.com/attestantio/vouch/internal/vnd"
	"github.com/attestantio/vouch/internal/vstub"
	"github.com/attestantio/vouch/services/synccommitteeaggregator"
	"github.com/attestantio/vouch/services/synccommitteemessenger"
)

type hSyncDuties struct {
	fail   bool
	duties []*apiv1.SyncCommitteeDuty
	epochs []phase0.Epoch
}

func (h *hSyncDuties) SyncCommitteeDuties(_ context.Context, opts *api.SyncCommitteeDutiesOpts) (*api.Response[[]*apiv1.SyncCommitteeDuty], error) {
	h.epochs = append(h.epochs, opts.Epoch)
	if h.fail {
		return nil, errors.New("mock duties failure")
	}
	return &api.Response[[]*apiv1.SyncCommitteeDuty]{Data: h.duties, Metadata: map[string]any{}}, nil
}

type hSyncSubscriber struct {
	epochs []phase0.Epoch
}

func (h *hSyncSubscriber) Subscribe(_ context.Context, endEpoch phase0.Epoch, _ []*apiv1.SyncCommitteeDuty) error {
	h.epochs = append(h.epochs, endEpoch)
	return nil
}

type hSyncAggRec struct {
	duties []*synccommitteeaggregator.Duty
}

func (h *hSyncAggRec) SetBeaconBlockRoot(_ phase0.Slot, _ phase0.Root) {}
func (h *hSyncAggRec) Aggregate(_ context.Context, d *synccommitteeaggregator.Duty) {
	h.duties = append(h.duties, d)
}

type hSyncMessenger struct {
	messaged    []*synccommitteemessenger.Duty
	failMessage bool
	prepared    []*synccommitteemessenger.Duty
}

func (h *hSyncMessenger) Prepare(_ context.Context, duty *synccommitteemessenger.Duty) error {
	h.prepared = append(h.prepared, duty)
	return nil
}
func (h *hSyncMessenger) Message(_ context.Context, d *synccommitteemessenger.Duty) ([]*altair.SyncCommitteeMessage, error) {
	h.messaged = append(h.messaged, d)
	if h.failMessage {
		return nil, errors.New("mock message failure")
	}
	return nil, nil
}
func (h *hSyncMessenger) GetDataUsedForSlot(_ phase0.Slot) (synccommitteemessenger.SlotData, bool) {
	return synccommitteemessenger.SlotData{}, false
}
func (h *hSyncMessenger) RemoveHistoricDataUsedForSlotVerification(_ phase0.Slot) {}

// VerifC15_Window: the prepare jobs cover exactly the slots from the one before
// the (fork-clamped) period's first slot, or from now if later, to the one
// before the period's last slot.
func VerifC15_Window() {
	spes := []uint64{2, 4}
	spe := spes[vnd.Choose("spe", len(spes))]
	vstub.SPEChoices = []uint64{spe}
	e := newCtlEnv()
	epps := []uint64{1, 2}
	forks := []uint64{0, 1, 3}
	e.s.epochsPerSyncCommitteePeriod = epps[vnd.Choose("epp", len(epps))]
	e.s.altairForkEpoch = phase0.Epoch(forks[vnd.Choose("fork", len(forks))])
	e.s.handlingAltair = true
	h := &hSyncDuties{duties: []*apiv1.SyncCommitteeDuty{{ValidatorIndex: 7, ValidatorSyncCommitteeIndices: []phase0.CommitteeIndex{3}}}}
	sub := &hSyncSubscriber{}
	msgr := &hSyncMessenger{}
	e.s.syncCommitteeDutiesProvider = h
	e.s.syncCommitteesSubscriber = sub
	e.s.syncCommitteeMessenger = msgr
	epp := e.s.epochsPerSyncCommitteePeriod
	fork := uint64(e.s.altairForkEpoch)

	epoch := uint64(vnd.IntRange("epoch", 0, 3))
	cur := uint64(e.ct.Cur)
	vnd.Assume(cur < 4*4+1)
	notCurrent := vnd.Bool("notCurrentSlot")
	e.s.scheduleSyncCommitteeMessages(context.Background(), phase0.Epoch(epoch), []phase0.ValidatorIndex{7}, notCurrent)
	vnd.Quiesce()

	curEpoch := cur / spe
	if curEpoch < fork {
		vnd.Assert(len(e.sched.Jobs) == 0, "C15.window.nothing-before-altair")
		return
	}
	period := epoch / epp
	firstEpoch := period * epp
	if firstEpoch < fork {
		firstEpoch = fork
	}
	if firstEpoch < curEpoch {
		firstEpoch = curEpoch
	}
	// the slot before the period's first slot, if there is one
	first := firstEpoch * spe
	if first > 0 {
		first--
	}
	if first < cur {
		first = cur
	}
	lastEpoch := (period + 1) * epp
	if lastEpoch < fork {
		lastEpoch = fork
	}
	lastEpoch-- // last epoch of the period
	last := (lastEpoch+1)*spe - 2

	jobs := uint64(0)
	for s := uint64(0); s < 5*4+1; s++ {
		name := fmt.Sprintf("Prepare sync committee messages for slot %d", s)
		want := vnd.And(vnd.And(s >= first, s <= last), vnd.Not(vnd.And(s == cur, notCurrent)))
		jobs += vnd.IteU64(want, 1, 0)
		vnd.Assert(uint64(e.sched.Count(name)) == vnd.IteU64(want, 1, 0), "C15.window.exactly-the-slots-of-the-window-have-a-job")
	}
	if jobs > 0 {
		vnd.Cover("C15.window.slot-in-window")
	}
	vnd.Assert(uint64(len(e.sched.Jobs)) == jobs, "C15.window.no-other-jobs")
	if curEpoch == 0 && period == 0 && jobs > 0 {
		vnd.Cover("C15.window.first-period-of-the-chain")
	}
	for k, j := range e.sched.Jobs {
		// each job prepares the messages of its own slot, 1.5 slots ahead of it
		j.Fn(context.Background())
		vnd.Assert(len(msgr.prepared) == k+1, "C15.window.job-prepares")
		d := msgr.prepared[k]
		vnd.Assert(j.Name == fmt.Sprintf("Prepare sync committee messages for slot %d", d.Slot()), "C15.window.job-named-after-its-slot")
		vnd.Assert(j.Time.Equal(e.ct.StartOfSlot(d.Slot()).Add(-e.s.slotDuration*6/4)), "C15.window.job-one-and-a-half-slots-ahead")
		// the prepare job, once it has run, has set up the message job of its slot: at the slot's start
		// plus the delay configured for sync committee messages (not that of another kind of job)
		mname := fmt.Sprintf("Sync committee messages for slot %d", d.Slot())
		vnd.Assert(e.sched.Count(mname) == 1, "C03.syncmessage.prepare-job-sets-up-one-message-job-for-its-slot")
		if mj := e.sched.Find(mname); mj != nil {
			vnd.Assert(mj.Time.Equal(e.ct.StartOfSlot(d.Slot()).Add(e.s.maxSyncCommitteeMessageDelay)), "C03.syncmessage.job-time-is-slot-start-plus-the-sync-message-delay")
			before := len(msgr.messaged)
			mj.Fn(context.Background())
			vnd.Assert(len(msgr.messaged) == before+1 && msgr.messaged[before] == d, "C03.syncmessage.job-messages-for-the-prepared-duty")
		}
	}
	if jobs > 0 {
		// each job's duty names the member and carries its account
		d := msgr.prepared[0]
		vnd.Assert(len(d.ValidatorIndices()) == 1 && d.ValidatorIndices()[0] == 7, "C15.window.duty-names-members")
		vnd.Assert(d.Account(7) != nil, "C15.window.duty-carries-account")
		vnd.Assert(len(sub.epochs) == 1 && uint64(sub.epochs[0]) == lastEpoch+1, "C15.window.subscription-until-period-end")
	}
	_ = time.Second
}

type hSpec struct {
	spec map[string]any
	fail bool
}

func (h *hSpec) Spec(_ context.Context, _ *api.SpecOpts) (*api.Response[map[string]any], error) {
	if h.fail {
		return nil, errors.New("mock spec failure")
	}
	return &api.Response[map[string]any]{Data: h.spec, Metadata: map[string]any{}}, nil
}

type hSyncAgg struct{}

// VerifC15_AltairDetails: the fork epoch used for clamping sync committee
// periods is the one the chain specification states.
func VerifC15_AltairDetails() {
	fork := vnd.U64("altair.fork.epoch")
	sp := &hSpec{spec: map[string]any{"ALTAIR_FORK_EPOCH": fork}}
	sp.fail = vnd.Bool("spec.fail")
	handling, epoch := altairDetails(context.Background(), zerologDummy(), sp, &hSyncAggSvc{}, 256)
	if sp.fail {
		vnd.Assert(!handling, "C15.altair.not-handling-without-spec")
		return
	}
	vnd.Cover("C15.altair.spec-read")
	vnd.Assert(handling, "C15.altair.handling")
	vnd.Assert(uint64(epoch) == fork, "C15.altair.fork-epoch-from-spec")
}

// VerifC15_MessageAndAggregate: the per-slot message job: the messenger is asked
// to message for the duty; afterwards an aggregation job for that slot exists
// exactly when some member was selected as aggregator, at slot start + the
// aggregation delay, and running it hands the aggregator exactly the selected
// members with their subcommittees, proofs and accounts. A failure to message
// sets up no aggregation.
func VerifC15_MessageAndAggregate() {
	vstub.SPEChoices = []uint64{4}
	e := newCtlEnv()
	msgr := &hSyncMessenger{failMessage: vnd.Bool("message.fail")}
	agg := &hSyncAggRec{}
	e.s.syncCommitteeMessenger = msgr
	e.s.syncCommitteeAggregator = agg
	e.s.syncCommitteeAggregationDelay = time.Duration(vnd.I64("delay.sync-aggregation"))
	vnd.Assume(e.s.syncCommitteeAggregationDelay >= 0 && e.s.syncCommitteeAggregationDelay < time.Hour)
	slot := phase0.Slot(vnd.U64("slot"))
	vnd.Assume(uint64(slot) < 1<<40)
	m := vnd.IntRange("members", 1, 2)
	indices := map[phase0.ValidatorIndex][]phase0.CommitteeIndex{}
	for i := 0; i < m; i++ {
		indices[phase0.ValidatorIndex(40+i)] = []phase0.CommitteeIndex{phase0.CommitteeIndex(i)}
	}
	duty := synccommitteemessenger.NewDuty(slot, indices)
	selected := make([]bool, m)
	proofs := make([]phase0.BLSSignature, m)
	anySelected := false
	for i := 0; i < m; i++ {
		v := phase0.ValidatorIndex(40 + i)
		duty.SetAccount(v, &vstub.Account{VIndex: uint64(v), Nm: "acc"})
		selected[i] = vnd.Bool("selected-as-aggregator")
		if selected[i] {
			anySelected = true
			proofs[i] = phase0.BLSSignature(vnd.Sig("selection-proof"))
			duty.SetAggregatorSubcommittees(v, uint64(i), proofs[i])
		}
	}
	e.s.messageSyncCommittee(context.Background(), duty)
	vnd.Assert(len(msgr.messaged) == 1 && msgr.messaged[0] == duty, "C15.message.messenger-asked-for-the-duty")
	name := fmt.Sprintf("Sync committee aggregation for slot %d", slot)
	if msgr.failMessage || !anySelected {
		vnd.Assert(len(e.sched.Jobs) == 0, "C15.message.no-aggregation-job-without-messages-or-aggregators")
		return
	}
	vnd.Cover("C15.message.aggregation-job")
	vnd.Assert(len(e.sched.Jobs) == 1 && e.sched.Count(name) == 1, "C15.message.one-aggregation-job-for-the-slot")
	j := e.sched.Find(name)
	if j == nil {
		return
	}
	vnd.Assert(j.Time.Equal(e.ct.StartOfSlot(slot).Add(e.s.syncCommitteeAggregationDelay)), "C15.message.aggregation-job-at-slot-start-plus-delay")
	j.Fn(context.Background())
	vnd.Assert(len(agg.duties) == 1, "C15.message.job-aggregates-once")
	d := agg.duties[0]
	vnd.Assert(d.Slot == slot, "C15.message.aggregation-duty-slot")
	nsel := 0
	for i := 0; i < m; i++ {
		v := phase0.ValidatorIndex(40 + i)
		listed := false
		for _, x := range d.ValidatorIndices {
			if x == v {
				listed = true
			}
		}
		vnd.Assert(listed == selected[i], "C15.message.exactly-the-selected-members-aggregate")
		if selected[i] {
			nsel++
			p, ok := d.SelectionProofs[v][uint64(i)]
			vnd.Assert(ok && p == proofs[i] && len(d.SelectionProofs[v]) == 1, "C15.message.their-subcommittees-and-proofs")
			vnd.Assert(d.Accounts[v] != nil, "C15.message.their-accounts")
		}
	}
	vnd.Assert(len(d.ValidatorIndices) == nsel, "C15.message.nobody-else")
}

type hBlocks struct {
	fail  bool
	block *spec.VersionedSignedBeaconBlock
}

func (b *hBlocks) SignedBeaconBlock(_ context.Context, _ *api.SignedBeaconBlockOpts) (*api.Response[*spec.VersionedSignedBeaconBlock], error) {
	if b.fail {
		return nil, errors.New("mock block failure")
	}
	return &api.Response[*spec.VersionedSignedBeaconBlock]{Data: b.block, Metadata: map[string]any{}}, nil
}

type hSyncData struct {
	hSyncMessenger
	data  synccommitteemessenger.SlotData
	found bool
	asked []phase0.Slot
}

func (h *hSyncData) GetDataUsedForSlot(slot phase0.Slot) (synccommitteemessenger.SlotData, bool) {
	h.asked = append(h.asked, slot)
	return h.data, h.found
}

// VerifC16_VerifySyncInclusion: the inclusion check run on every head event:
// any head block a node can deliver (pre-Altair without sync aggregate, Altair
// or Capella with an aggregate; parent equal to or different from the root the
// messages were signed over; fetch failing) and any recorded positions (also
// beyond the committee size) end without a crash, asking for the data of the
// slot before the head's.
func VerifC16_VerifySyncInclusion() {
	vstub.SPEChoices = []uint64{4}
	e := newCtlEnv()
	slot := phase0.Slot(vnd.U64("head.slot"))
	vnd.Assume(uint64(slot) >= 1 && uint64(slot) < 1<<40)
	root := phase0.Root(vnd.Root("messaged-root"))
	data := &hSyncData{found: vnd.Bool("data-recorded"), data: synccommitteemessenger.SlotData{Root: root,
		ValidatorToCommitteeIndex: map[phase0.ValidatorIndex][]phase0.CommitteeIndex{7: {phase0.CommitteeIndex(vnd.U64("position"))}, 8: {}}}}
	e.s.syncCommitteeMessenger = data
	parent := root
	if vnd.Bool("head-built-on-another-block") {
		parent = phase0.Root{0xdd}
	}
	bits := bitfield.NewBitvector512()
	bits.SetBitAt(uint64(vnd.Choose("bit", 3)), true)
	agg := &altair.SyncAggregate{SyncCommitteeBits: bits}
	blocks := &hBlocks{fail: vnd.Bool("block.fail")}
	switch vnd.Choose("block.version", 3) {
	case 0:
		blocks.block = &spec.VersionedSignedBeaconBlock{Version: spec.DataVersionPhase0, Phase0: &phase0.SignedBeaconBlock{Message: &phase0.BeaconBlock{Slot: slot, ParentRoot: parent, Body: &phase0.BeaconBlockBody{}}}}
	case 1:
		blocks.block = &spec.VersionedSignedBeaconBlock{Version: spec.DataVersionAltair, Altair: &altair.SignedBeaconBlock{Message: &altair.BeaconBlock{Slot: slot, ParentRoot: parent, Body: &altair.BeaconBlockBody{SyncAggregate: agg}}}}
	case 2:
		blocks.block = &spec.VersionedSignedBeaconBlock{Version: spec.DataVersionCapella, Capella: &capella.SignedBeaconBlock{Message: &capella.BeaconBlock{Slot: slot, ParentRoot: parent, Body: &capella.BeaconBlockBody{SyncAggregate: agg}}}}
	}
	e.s.signedBeaconBlockProvider = blocks
	e.s.VerifySyncCommitteeMessages(context.Background(), &apiv1.HeadEvent{Slot: slot, Block: phase0.Root{0xbb}})
	vnd.Assert(len(data.asked) == 1 && data.asked[0] == slot-1, "C16.syncverify.data-of-the-slot-before-the-heads")
	// something that is not a head event is ignored
	e.s.VerifySyncCommitteeMessages(context.Background(), "not a head event")
	vnd.Assert(len(data.asked) == 1, "C16.syncverify.other-data-ignored")
	vnd.Cover("C16.syncverify.survived")
}
