//go:build verif

package standard

import (
	"context"
	"errors"
	"fmt"
	"time"

	"github.com/attestantio/go-eth2-client/api"
	apiv1 "github.com/attestantio/go-eth2-client/api/v1"
	"github.com/attestantio/go-eth2-client/spec/phase0"
	"github.com/attestantio/vouch/internal/vnd"
	"github.com/attestantio/vouch/internal/vstub"
	"github.com/attestantio/vouch/services/attestationaggregator"
	"github.com/attestantio/vouch/services/attester"
	"github.com/attestantio/vouch/services/beaconblockproposer"
	"github.com/attestantio/vouch/services/beaconcommitteesubscriber"
	"github.com/attestantio/vouch/services/synccommitteeaggregator"
	"github.com/rs/zerolog"
	e2wtypes "github.com/wealdtech/go-eth2-wallet-types/v2"
)

// ---- stubs ------------------------------------------------------------------

type hAttDuties struct {
	fail   bool
	duties []*apiv1.AttesterDuty
	asked  []*api.AttesterDutiesOpts
	// onAsk, when set, runs while the request is in flight (the beacon node takes its time: the chain
	// moves on meanwhile)
	onAsk func()
}

func (h *hAttDuties) AttesterDuties(_ context.Context, opts *api.AttesterDutiesOpts) (*api.Response[[]*apiv1.AttesterDuty], error) {
	h.asked = append(h.asked, opts)
	if h.onAsk != nil {
		h.onAsk()
	}
	if h.fail {
		return nil, errors.New("mock duties failure")
	}
	return &api.Response[[]*apiv1.AttesterDuty]{Data: h.duties, Metadata: map[string]any{}}, nil
}

type hPropDuties struct {
	fail   bool
	duties []*apiv1.ProposerDuty
	onAsk  func() // as for hAttDuties
}

func (h *hPropDuties) ProposerDuties(_ context.Context, _ *api.ProposerDutiesOpts) (*api.Response[[]*apiv1.ProposerDuty], error) {
	if h.onAsk != nil {
		h.onAsk()
	}
	if h.fail {
		return nil, errors.New("mock duties failure")
	}
	return &api.Response[[]*apiv1.ProposerDuty]{Data: h.duties, Metadata: map[string]any{}}, nil
}

type hAttester struct {
	duties   []*attester.Duty
	fail     bool
	result   []*phase0.Attestation
	onAttest func() // something that happens while the attestation is being made
}

func (h *hAttester) Attest(_ context.Context, duty *attester.Duty) ([]*phase0.Attestation, error) {
	h.duties = append(h.duties, duty)
	if h.onAttest != nil {
		h.onAttest()
	}
	if h.fail {
		return nil, errors.New("mock attest failure")
	}
	return h.result, nil
}

type hProposer struct {
	prepared []*beaconblockproposer.Duty
	proposed []*beaconblockproposer.Duty
	failPrep bool
}

func (h *hProposer) Prepare(_ context.Context, duty *beaconblockproposer.Duty) error {
	h.prepared = append(h.prepared, duty)
	if h.failPrep {
		return errors.New("mock prepare failure")
	}
	return nil
}

func (h *hProposer) Propose(_ context.Context, duty *beaconblockproposer.Duty) {
	h.proposed = append(h.proposed, duty)
}

type hAggregator struct {
	calls  int
	duties []*attestationaggregator.Duty
}

func (h *hAggregator) Aggregate(_ context.Context, d *attestationaggregator.Duty) {
	h.calls++
	h.duties = append(h.duties, d)
}

func (h *hAggregator) AggregatorsAndSignatures(_ context.Context, _ []e2wtypes.Account, _ phase0.Slot, _ []uint64) ([]phase0.BLSSignature, []bool, error) {
	return nil, nil, errors.New("not used")
}

type hCtlAccounts struct {
	fail  bool
	empty bool
	asked [][]phase0.ValidatorIndex
}

func (h *hCtlAccounts) ValidatingAccountsForEpoch(_ context.Context, _ phase0.Epoch) (map[phase0.ValidatorIndex]e2wtypes.Account, error) {
	return nil, errors.New("not used")
}

func (h *hCtlAccounts) ValidatingAccountsForEpochByIndex(_ context.Context, _ phase0.Epoch, indices []phase0.ValidatorIndex) (map[phase0.ValidatorIndex]e2wtypes.Account, error) {
	h.asked = append(h.asked, indices)
	if h.fail {
		return nil, errors.New("mock accounts failure")
	}
	res := map[phase0.ValidatorIndex]e2wtypes.Account{}
	if h.empty {
		return res, nil
	}
	for _, i := range indices {
		res[i] = &vstub.Account{VIndex: uint64(i), Nm: "acc"}
	}
	return res, nil
}

func (h *hCtlAccounts) SyncCommitteeAccountsForEpoch(_ context.Context, _ phase0.Epoch) (map[phase0.ValidatorIndex]e2wtypes.Account, error) {
	return nil, errors.New("not used")
}

func (h *hCtlAccounts) SyncCommitteeAccountsForEpochByIndex(ctx context.Context, e phase0.Epoch, indices []phase0.ValidatorIndex) (map[phase0.ValidatorIndex]e2wtypes.Account, error) {
	return h.ValidatingAccountsForEpochByIndex(ctx, e, indices)
}

type ctlEnv struct {
	s     *Service
	ct    *vstub.ChainTime
	sched *vstub.Scheduler
	att   *hAttester
	prop  *hProposer
	accts *hCtlAccounts
}

func newCtlEnv() *ctlEnv {
	e := &ctlEnv{ct: vstub.NewChainTime(0), sched: &vstub.Scheduler{}, att: &hAttester{}, prop: &hProposer{}, accts: &hCtlAccounts{}}
	e.s = &Service{
		slotDuration:                 12 * time.Second,
		slotsPerEpoch:                e.ct.SPE,
		epochsPerSyncCommitteePeriod: 2,
		chainTimeService:             e.ct,
		scheduler:                    e.sched,
		attester:                     e.att,
		beaconBlockProposer:          e.prop,
		validatingAccountsProvider:   e.accts,
		subscriptionInfos:            map[phase0.Epoch]map[phase0.Slot]map[phase0.CommitteeIndex]*beaconcommitteesubscriber.Subscription{},
		pendingAttestations:          map[phase0.Slot]bool{},
		maxAttestationDelay:          time.Duration(vnd.I64("delay.attestation")),
		maxProposalDelay:             time.Duration(vnd.I64("delay.proposal")),
		attestationAggregationDelay:  time.Duration(vnd.I64("delay.aggregation")),
		// each kind of job has its own configured delay: all different unless the solver says otherwise
		maxSyncCommitteeMessageDelay: time.Duration(vnd.I64("delay.sync-message")),
	}
	vnd.Assume(e.s.maxSyncCommitteeMessageDelay >= 0 && e.s.maxSyncCommitteeMessageDelay < time.Hour)
	vnd.Assume(e.s.maxAttestationDelay >= 0 && e.s.maxAttestationDelay < time.Hour)
	vnd.Assume(e.s.maxProposalDelay >= 0 && e.s.maxProposalDelay < time.Hour)
	vnd.Assume(e.s.attestationAggregationDelay >= 0 && e.s.attestationAggregationDelay < time.Hour)
	return e
}

// ---- C03: attestation jobs ---------------------------------------------------

// VerifC03_AttestJobs: one job per distinct eligible duty slot, at slot start +
// delay, covering exactly the validators with that slot.
func VerifC03_AttestJobs() {
	vstub.SPEChoices = []uint64{4}
	e := newCtlEnv()
	m := vnd.IntRange("m", 1, 2)
	c03AttestJobs(e, m)
}

func VerifC03_AttestJobs3() {
	vstub.SPEChoices = []uint64{4}
	e := newCtlEnv()
	c03AttestJobs(e, 3)
}

func c03AttestJobs(e *ctlEnv, m int) {
	epoch := phase0.Epoch(vnd.U64("epoch"))
	vnd.Assume(uint64(epoch) < 1<<30)
	notCurrent := vnd.Bool("notCurrentSlot")
	h := &hAttDuties{}
	e.s.attesterDutiesProvider = h
	slots := make([]phase0.Slot, m)
	vals := make([]phase0.ValidatorIndex, m)
	for i := 0; i < m; i++ {
		slots[i] = phase0.Slot(vnd.U64("duty.slot"))
		vals[i] = phase0.ValidatorIndex(vnd.U64("duty.validator"))
		h.duties = append(h.duties, &apiv1.AttesterDuty{
			Slot: slots[i], ValidatorIndex: vals[i], CommitteeIndex: phase0.CommitteeIndex(i), CommitteeLength: 8,
			CommitteesAtSlot: 4, ValidatorCommitteeIndex: uint64(i),
		})
	}
	// pending from the moment the job is set up: when the scheduler comes to
	// hold the job (it may run at once if already due) the mark is there
	e.sched.OnSchedule = func(name string) {
		for i := 0; i < m; i++ {
			if name == fmt.Sprintf("Attestations for slot %d", slots[i]) {
				_, pend := e.s.pendingAttestations[slots[i]]
				vnd.Assert(pend, "C20.pending.marked-by-the-time-the-job-exists")
			}
		}
	}
	// the duties request may be in flight across a slot boundary: what counts as passed (and as the
	// current slot) is the chain's time when the jobs are set up, not when the duties were asked for
	if vnd.Bool("slot-boundary-crossed-while-duties-in-flight") {
		h.onAsk = func() {
			if len(h.asked) == 1 {
				e.ct.Cur++
			}
		}
		vnd.Cover("C03.attest.slot-boundary-during-fetch")
	}
	e.s.scheduleAttestations(context.Background(), epoch, []phase0.ValidatorIndex{1, 2, 3}, notCurrent)
	vnd.Quiesce()
	e.sched.OnSchedule = nil
	// the same epoch may be scheduled again while the jobs of the first time are still there
	// (start-up schedules the next epoch, and so does the half-epoch preparation; a reorg refresh
	// can race with either): the scheduler refuses the duplicates, and the jobs and marks of the
	// first time stay as they are
	if vnd.Bool("epoch-scheduled-a-second-time") {
		e.s.scheduleAttestations(context.Background(), epoch, []phase0.ValidatorIndex{1, 2, 3}, notCurrent)
		vnd.Quiesce()
		vnd.Cover("C03.attest.scheduled-twice")
	}

	first := uint64(epoch) * e.ct.SPE
	last := first + e.ct.SPE - 1
	cur := uint64(e.ct.Cur)
	eligible := func(s phase0.Slot) bool {
		x := uint64(s)
		return vnd.And(vnd.And(x >= first, x <= last), vnd.Or(x > cur, vnd.And(x == cur, !notCurrent)))
	}
	for i := 0; i < m; i++ {
		_, pend := e.s.pendingAttestations[slots[i]]
		vnd.Assert(pend == eligible(slots[i]), "C20.pending.set-iff-job-requested")
	}
	expectedJobs := 0
	for i := 0; i < m; i++ {
		name := fmt.Sprintf("Attestations for slot %d", slots[i])
		dup := false
		for j := 0; j < i; j++ {
			if slots[j] == slots[i] {
				dup = true
			}
		}
		if eligible(slots[i]) {
			vnd.Cover("C03.attest.eligible-duty")
			vnd.Assert(e.sched.Count(name) == 1, "C03.attest.exactly-one-job-per-eligible-slot")
			job := e.sched.Find(name)
			vnd.Assert(job.Time.Equal(e.ct.StartOfSlot(slots[i]).Add(e.s.maxAttestationDelay)), "C03.attest.job-time-is-slot-start-plus-delay")
			if !dup {
				expectedJobs++
				// run the job: the attester receives exactly the validators of that slot
				before := len(e.att.duties)
				job.Fn(context.Background())
				vnd.Assert(len(e.att.duties) == before+1, "C03.attest.job-attests-once")
				d := e.att.duties[len(e.att.duties)-1]
				vnd.Assert(d.Slot() == slots[i], "C03.attest.duty-slot")
				want := 0
				for k := 0; k < m; k++ {
					if slots[k] == slots[i] {
						want++
						found := false
						for x, v := range d.ValidatorIndices() {
							if v == vals[k] && d.CommitteeIndices()[x] == phase0.CommitteeIndex(k) && d.ValidatorCommitteeIndices()[x] == uint64(k) {
								found = true
							}
						}
						vnd.Assert(found, "C03.attest.duty-covers-every-validator-of-the-slot")
					}
				}
				vnd.Assert(len(d.ValidatorIndices()) == want, "C03.attest.duty-covers-only-validators-of-the-slot")
				vnd.Assert(!e.s.pendingAttestations[slots[i]], "C20.pending.cleared-when-job-finished")
			}
		} else {
			vnd.Cover("C03.attest.ineligible-duty")
			vnd.Assert(e.sched.Count(name) == 0, "C03.attest.no-job-for-past-or-foreign-slot")
		}
	}
	vnd.Assert(len(e.sched.Jobs) == expectedJobs, "C03.attest.no-other-jobs")
}

// ---- C03: proposal jobs -------------------------------------------------------

func VerifC03_ProposalJobs() {
	vstub.SPEChoices = []uint64{4}
	e := newCtlEnv()
	m := vnd.IntRange("m", 1, 2)
	epoch := phase0.Epoch(vnd.U64("epoch"))
	vnd.Assume(uint64(epoch) < 1<<30)
	notCurrent := vnd.Bool("notCurrentSlot")
	h := &hPropDuties{}
	e.s.proposerDutiesProvider = h
	e.prop.failPrep = vnd.Bool("prepare.fail")
	slots := make([]phase0.Slot, m)
	vals := make([]phase0.ValidatorIndex, m)
	for i := 0; i < m; i++ {
		slots[i] = phase0.Slot(vnd.U64("duty.slot"))
		vals[i] = phase0.ValidatorIndex(vnd.U64("duty.validator"))
		for j := 0; j < i; j++ {
			vnd.Assume(slots[j] != slots[i]) // one proposer per slot
		}
		h.duties = append(h.duties, &apiv1.ProposerDuty{Slot: slots[i], ValidatorIndex: vals[i]})
	}
	if vnd.Bool("slot-boundary-crossed-while-duties-in-flight") {
		h.onAsk = func() { e.ct.Cur++ }
		vnd.Cover("C03.proposal.slot-boundary-during-fetch")
	}
	e.s.scheduleProposals(context.Background(), epoch, []phase0.ValidatorIndex{1, 2}, notCurrent)
	vnd.Quiesce()

	first := uint64(epoch) * e.ct.SPE
	last := first + e.ct.SPE - 1
	cur := uint64(e.ct.Cur)
	expected := 0
	for i := 0; i < m; i++ {
		x := uint64(slots[i])
		ok := vnd.And(vnd.And(x >= first, x <= last), vnd.Or(x > cur, vnd.And(x == cur, !notCurrent)))
		name := fmt.Sprintf("Beacon block proposal for slot %d", slots[i])
		early := fmt.Sprintf("Early beacon block proposal for slot %d", slots[i])
		if ok && !e.prop.failPrep {
			vnd.Cover("C03.proposal.eligible-duty")
			expected++
			vnd.Assert(e.sched.Count(name) == 1, "C03.proposal.exactly-one-job-per-eligible-slot")
			job := e.sched.Find(name)
			vnd.Assert(job.Time.Equal(e.ct.StartOfSlot(slots[i]).Add(e.s.maxProposalDelay)), "C03.proposal.job-time-is-slot-start-plus-delay")
			if e.s.maxProposalDelay > 0 {
				expected++
				vnd.Assert(e.sched.Count(early) == 1, "C03.proposal.early-job-when-delay")
				vnd.Assert(e.sched.Find(early).Time.Equal(e.ct.StartOfSlot(slots[i])), "C03.proposal.early-job-at-slot-start")
			} else {
				vnd.Assert(e.sched.Count(early) == 0, "C03.proposal.no-early-job-without-delay")
			}
			before := len(e.prop.proposed)
			job.Fn(context.Background())
			vnd.Assert(len(e.prop.proposed) == before+1, "C03.proposal.job-proposes-once")
			d := e.prop.proposed[len(e.prop.proposed)-1]
			vnd.Assert(d.Slot() == slots[i] && d.ValidatorIndex() == vals[i], "C03.proposal.duty-is-the-slots-proposer")
		} else {
			vnd.Cover("C03.proposal.ineligible-duty")
			vnd.Assert(e.sched.Count(name) == 0 && e.sched.Count(early) == 0, "C03.proposal.no-job-for-past-or-foreign-slot")
		}
	}
	vnd.Assert(len(e.sched.Jobs) == expected, "C03.proposal.no-other-jobs")
}

// ---- C14: aggregation jobs after attesting --------------------------------------

// VerifC14_Aggregate: after attesting, an aggregation job is set up for every
// committee of the slot whose stored subscription says aggregator.
func VerifC14_Aggregate() {
	vstub.SPEChoices = []uint64{4}
	e := newCtlEnv()
	nc := vnd.IntRange("committees", 1, 3)
	slot := phase0.Slot(vnd.U64("slot"))
	vnd.Assume(uint64(slot) < 1<<40 && uint64(slot) >= uint64(e.ct.Cur))
	epoch := phase0.Epoch(uint64(slot) / e.ct.SPE)
	infos := map[phase0.CommitteeIndex]*beaconcommitteesubscriber.Subscription{}
	isAgg := make([]bool, nc)
	var atts []*phase0.Attestation
	vals := make([]phase0.ValidatorIndex, nc)
	for c := 0; c < nc; c++ {
		isAgg[c] = vnd.Bool("is-aggregator")
		vals[c] = phase0.ValidatorIndex(100 + c)
		infos[phase0.CommitteeIndex(c)] = &beaconcommitteesubscriber.Subscription{
			Duty:         &apiv1.AttesterDuty{Slot: slot, ValidatorIndex: vals[c], CommitteeIndex: phase0.CommitteeIndex(c)},
			IsAggregator: isAgg[c],
			Signature:    phase0.BLSSignature(vnd.Sig("slotsig")),
		}
		atts = append(atts, &phase0.Attestation{Data: &phase0.AttestationData{Slot: slot, Index: phase0.CommitteeIndex(c),
			Source: &phase0.Checkpoint{}, Target: &phase0.Checkpoint{}}})
	}
	// the subscription information of the epoch is stored before the attestation job
	// starts, or while it is attesting (start-up, half-epoch preparation and reorg
	// refresh store it from their own goroutines), possibly replacing older information
	// (stored the way the controller stores it: by subscribing, through subscribeToBeaconCommittees)
	full := map[phase0.Slot]map[phase0.CommitteeIndex]*beaconcommitteesubscriber.Subscription{slot: infos}
	subs := &hSubscriber{}
	e.s.beaconCommitteeSubscriber = subs
	store := func(info map[phase0.Slot]map[phase0.CommitteeIndex]*beaconcommitteesubscriber.Subscription) {
		subs.next = info
		e.s.subscribeToBeaconCommittees(context.Background(), epoch, nil)
	}
	switch vnd.Choose("info-stored", 3) {
	case 0:
		store(full)
	case 1:
		e.att.onAttest = func() { store(full) }
	case 2:
		stale := map[phase0.CommitteeIndex]*beaconcommitteesubscriber.Subscription{}
		for c, si := range infos {
			cp := *si
			cp.IsAggregator = false
			stale[c] = &cp
		}
		store(map[phase0.Slot]map[phase0.CommitteeIndex]*beaconcommitteesubscriber.Subscription{slot: stale})
		// a re-subscription of the same epoch (reorg refresh) before or while the job attests
		if vnd.Bool("resubscribed-before-the-job-starts") {
			store(full)
		} else {
			e.att.onAttest = func() { store(full) }
		}
	}
	e.att.result = atts
	aggRec := &hAggregator{}
	e.s.attestationAggregator = aggRec
	e.s.pendingAttestations[slot] = true
	duty, _ := attester.NewDuty(context.Background(), slot, 4, vals, nil, nil, nil)
	e.s.AttestAndScheduleAggregate(context.Background(), duty)
	for c := 0; c < nc; c++ {
		name := fmt.Sprintf("Beacon block attestation aggregation for slot %d committee %d", slot, c)
		if isAgg[c] {
			vnd.Cover("C14.aggregator-committee")
			vnd.Assert(e.sched.Count(name) == 1, "C14.aggregation-job-for-every-aggregator-committee")
			if j := e.sched.Find(name); j != nil {
				vnd.Assert(j.Time.Equal(e.ct.StartOfSlot(slot).Add(e.s.attestationAggregationDelay)), "C14.aggregation-job-time")
				// the job aggregates for that committee's validator, with its slot signature, over the data attested
				before := len(aggRec.duties)
				j.Fn(context.Background())
				vnd.Assert(len(aggRec.duties) == before+1, "C14.aggregation-job-aggregates-once")
				if len(aggRec.duties) == before+1 {
					d := aggRec.duties[before]
					want, _ := atts[c].Data.HashTreeRoot()
					vnd.Assert(d.Slot == slot && d.ValidatorIndex == vals[c] && d.SlotSignature == infos[phase0.CommitteeIndex(c)].Signature && d.AttestationDataRoot == phase0.Root(want), "C14.aggregation-job-is-for-that-committees-aggregator-and-attestation")
				}
			}
		} else {
			vnd.Assert(e.sched.Count(name) == 0, "C14.no-aggregation-job-for-non-aggregator")
		}
	}
	_, pend := e.s.pendingAttestations[slot]
	vnd.Assert(!pend, "C20.pending.cleared-after-attest-and-aggregate")
}

func zerologDummy() zerolog.Logger { return zerolog.Logger{} }

type hSyncAggSvc struct{}

func (h *hSyncAggSvc) SetBeaconBlockRoot(_ phase0.Slot, _ phase0.Root)              {}
func (h *hSyncAggSvc) Aggregate(_ context.Context, _ *synccommitteeaggregator.Duty) {}
