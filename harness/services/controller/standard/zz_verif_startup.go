//go:build verif

package standard

import (
	"context"
	"fmt"
	"sync"
	"time"

	"github.com/attestantio/go-eth2-client/api"
	apiv1 "github.com/attestantio/go-eth2-client/api/v1"
	"github.com/attestantio/go-eth2-client/spec/phase0"
	"github.com/attestantio/vouch/internal/vnd"
	"github.com/attestantio/vouch/internal/vstub"
	"github.com/attestantio/vouch/mock"
	mockaccountmanager "github.com/attestantio/vouch/services/accountmanager/mock"
	mockattestationaggregator "github.com/attestantio/vouch/services/attestationaggregator/mock"
	mockattester "github.com/attestantio/vouch/services/attester/mock"
	mockbeaconblockproposer "github.com/attestantio/vouch/services/beaconblockproposer/mock"
	"github.com/attestantio/vouch/services/beaconcommitteesubscriber"
	"github.com/attestantio/vouch/services/cache"
	mockcache "github.com/attestantio/vouch/services/cache/mock"
	nullmetrics "github.com/attestantio/vouch/services/metrics/null"
	mockproposalpreparer "github.com/attestantio/vouch/services/proposalpreparer/mock"
	mocksynccommitteeaggregator "github.com/attestantio/vouch/services/synccommitteeaggregator/mock"
	e2wtypes "github.com/wealdtech/go-eth2-wallet-types/v2"
)

// one validator (index 7) that is in every sync committee; optionally a second
// one (index 8) whose validator becomes active at the start of a given epoch
type hStartAccounts struct {
	late     bool
	lateFrom phase0.Epoch
}

func (hStartAccounts) one() map[phase0.ValidatorIndex]e2wtypes.Account {
	return map[phase0.ValidatorIndex]e2wtypes.Account{7: &vstub.Account{VIndex: 7, Nm: "acc"}}
}
func (h hStartAccounts) at(epoch phase0.Epoch) map[phase0.ValidatorIndex]e2wtypes.Account {
	res := h.one()
	if h.late && epoch >= h.lateFrom {
		res[8] = &vstub.Account{VIndex: 8, Nm: "acc"}
	}
	return res
}
func (h hStartAccounts) ValidatingAccountsForEpoch(_ context.Context, epoch phase0.Epoch) (map[phase0.ValidatorIndex]e2wtypes.Account, error) {
	return h.at(epoch), nil
}
func (h hStartAccounts) ValidatingAccountsForEpochByIndex(_ context.Context, epoch phase0.Epoch, _ []phase0.ValidatorIndex) (map[phase0.ValidatorIndex]e2wtypes.Account, error) {
	return h.at(epoch), nil
}
func (h hStartAccounts) SyncCommitteeAccountsForEpoch(_ context.Context, _ phase0.Epoch) (map[phase0.ValidatorIndex]e2wtypes.Account, error) {
	return h.one(), nil
}
func (h hStartAccounts) SyncCommitteeAccountsForEpochByIndex(_ context.Context, _ phase0.Epoch, _ []phase0.ValidatorIndex) (map[phase0.ValidatorIndex]e2wtypes.Account, error) {
	return h.one(), nil
}

// hRecSubscriber records for which epoch and which validators beacon committee subscriptions
// were asked (the controller subscribes from goroutines of its own: the record is locked).
type hRecSubscriber struct {
	mu     sync.Mutex
	epochs []phase0.Epoch
	with8  []bool
}

func (h *hRecSubscriber) Subscribe(_ context.Context, epoch phase0.Epoch, accounts map[phase0.ValidatorIndex]e2wtypes.Account) (map[phase0.Slot]map[phase0.CommitteeIndex]*beaconcommitteesubscriber.Subscription, error) {
	_, has := accounts[8]
	h.mu.Lock()
	h.epochs = append(h.epochs, epoch)
	h.with8 = append(h.with8, has)
	h.mu.Unlock()
	return map[phase0.Slot]map[phase0.CommitteeIndex]*beaconcommitteesubscriber.Subscription{}, nil
}

// one attester duty per epoch asked for: validator 7 in the epoch's last slot
type hLastSlotAttDuties struct{ spe uint64 }

func (h hLastSlotAttDuties) AttesterDuties(_ context.Context, opts *api.AttesterDutiesOpts) (*api.Response[[]*apiv1.AttesterDuty], error) {
	d := &apiv1.AttesterDuty{Slot: phase0.Slot((uint64(opts.Epoch)+1)*h.spe - 1), ValidatorIndex: 7, CommitteeIndex: 1, CommitteeLength: 8, CommitteesAtSlot: 4, ValidatorCommitteeIndex: 2}
	return &api.Response[[]*apiv1.AttesterDuty]{Data: []*apiv1.AttesterDuty{d}, Metadata: map[string]any{}}, nil
}

// VerifC15_StartupCoverage: Vouch is started at any slot of any epoch of a sync
// committee period and then runs to the end of that period (the epoch ticker
// firing at the start of every later epoch). By then every slot of the next
// period's window - from the slot before its first slot to the slot before its
// last - has a message job, whichever of start-up and the epoch ticker set it
// up. Minimal preset: 8 epochs per period; 2 slots per epoch.
func VerifC15_StartupCoverage() {
	c15Startup([]uint64{0, 1, 1000003}[vnd.Choose("period", 3)])
}

// VerifC15_StartupCoverageAnyPeriod: the same with a symbolic period number.
func VerifC15_StartupCoverageAnyPeriod() {
	period := vnd.U64("period")
	vnd.Assume(period < 1<<24)
	c15Startup(period)
}

func c15Startup(period uint64) {
	const spe, epp = 2, 8
	vstub.SPEChoices = []uint64{spe}
	ct := vstub.NewChainTime(0)
	startEpoch := period*epp + uint64(vnd.Choose("epoch-in-period", epp))
	startSlot := startEpoch*spe + uint64(vnd.Choose("slot-in-epoch", spe))
	ct.Cur = phase0.Slot(startSlot)
	sched := &vstub.Scheduler{}
	msgr := &hSyncMessenger{}
	spec := &hSpec{spec: map[string]any{
		"SECONDS_PER_SLOT": 12 * time.Second, "SLOTS_PER_EPOCH": uint64(spe), "EPOCHS_PER_SYNC_COMMITTEE_PERIOD": uint64(epp),
		"ALTAIR_FORK_EPOCH": uint64(0), "BELLATRIX_FORK_EPOCH": uint64(0), "CAPELLA_FORK_EPOCH": uint64(0),
	}}
	// a second validator may become active with the epoch after the one Vouch is started in
	accts := hStartAccounts{late: vnd.Bool("a-validator-activates-next-epoch"), lateFrom: phase0.Epoch(startEpoch + 1)}
	subs := &hRecSubscriber{}
	s, err := New(context.Background(),
		WithLogLevel(vnd.LogLevel()),
		WithMonitor(nullmetrics.New()),
		WithSpecProvider(spec),
		WithChainTimeService(ct),
		WithProposerDutiesProvider(&hPropDuties{}),
		WithAttesterDutiesProvider(hLastSlotAttDuties{spe: spe}),
		WithSyncCommitteeDutiesProvider(&hSyncDuties{duties: []*apiv1.SyncCommitteeDuty{{ValidatorIndex: 7, ValidatorSyncCommitteeIndices: []phase0.CommitteeIndex{3}}}}),
		WithEventsProvider(mock.NewEventsProvider()),
		WithValidatingAccountsProvider(accts),
		WithProposalsPreparer(mockproposalpreparer.New()),
		WithScheduler(sched),
		WithAttester(mockattester.New()),
		WithSyncCommitteeMessenger(msgr),
		WithSyncCommitteeAggregator(mocksynccommitteeaggregator.New()),
		WithSyncCommitteeSubscriber(&hSyncSubscriber{}),
		WithBeaconBlockProposer(mockbeaconblockproposer.New()),
		WithBeaconCommitteeSubscriber(subs),
		WithAttestationAggregator(mockattestationaggregator.New()),
		WithAccountsRefresher(mockaccountmanager.NewRefresher()),
		WithBlockToSlotSetter(mockcache.New(map[phase0.Root]phase0.Slot{}).(cache.BlockRootToSlotSetter)),
		WithBeaconBlockHeadersProvider(mock.NewBeaconBlockHeadersProvider()),
		WithSignedBeaconBlockProvider(mock.NewSignedBeaconBlockProvider()),
	)
	vnd.Assert(err == nil && s != nil, "C15.startup.controller-starts")
	if err != nil {
		return
	}
	vnd.Quiesce()
	// start-up sets up the attestation jobs of the rest of this epoch and of the
	// next one (C03): the duty of the last slot of each, unless that is the slot
	// Vouch was started in
	for _, e := range []uint64{startEpoch, startEpoch + 1} {
		last := (e+1)*spe - 1
		want := 1
		if last <= startSlot {
			want = 0
		}
		vnd.Assert(sched.Count(fmt.Sprintf("Attestations for slot %d", last)) == want, "C03.startup.attestation-jobs-for-the-future-duties-of-this-and-the-next-epoch")
	}
	// (C14) start-up subscribes this epoch and the next, each with the validators validating in it
	for i, e := range subs.epochs {
		vnd.Assert(subs.with8[i] == (accts.late && e >= accts.lateFrom), "C14.startup.epoch-subscribed-with-the-accounts-validating-in-it")
	}
	seen := map[phase0.Epoch]bool{}
	for _, e := range subs.epochs {
		seen[e] = true
	}
	vnd.Assert(seen[phase0.Epoch(startEpoch)] && seen[phase0.Epoch(startEpoch+1)], "C14.startup.this-epoch-and-the-next-are-subscribed")
	var tick func(context.Context)
	for _, j := range sched.Periodic {
		if j.Name == "Epoch ticker" {
			tick = j.Fn
		}
	}
	vnd.Assert(tick != nil, "C15.startup.epoch-ticker-registered")
	if tick == nil {
		return
	}
	// run to the end of the period: the ticker fires at the start of every later epoch
	next := (period + 1) * epp
	for e := startEpoch + 1; e < next; e++ {
		ct.Cur = phase0.Slot(e * spe)
		tick(context.Background())
		vnd.Quiesce()
	}
	// every slot of the next period's window has its job (a start during the
	// slot before the period's first slot begins with the slot after: Vouch
	// never sets up work for the slot it is started in)
	for slot := next*spe - 1; slot <= (next+epp)*spe-2; slot++ {
		if slot == startSlot {
			continue
		}
		vnd.Assert(sched.Count(fmt.Sprintf("Prepare sync committee messages for slot %d", slot)) == 1, "C15.startup.every-slot-of-the-next-period-has-a-message-job-before-it-begins")
	}
	// and so has the rest of the period Vouch was started in
	for slot := startSlot + 1; slot <= next*spe-2; slot++ {
		vnd.Assert(sched.Count(fmt.Sprintf("Prepare sync committee messages for slot %d", slot)) == 1, "C15.startup.every-later-slot-of-the-current-period-has-a-message-job")
	}
	vnd.Cover("C15.startup.ran-to-period-end")
}
