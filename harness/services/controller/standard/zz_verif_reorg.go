//go:build verif

package standard

import (
	"context"
	"errors"
	"fmt"
	"github.com/attestantio/go-eth2-client/api"
	"github.com/attestantio/vouch/services/beaconblockproposer"
	"time"

	apiv1 "github.com/attestantio/go-eth2-client/api/v1"
	"github.com/attestantio/go-eth2-client/spec/phase0"
	"github.com/attestantio/vouch/internal/vnd"
	"github.com/attestantio/vouch/internal/vstub"
	"github.com/attestantio/vouch/services/beaconcommitteesubscriber"
	e2wtypes "github.com/wealdtech/go-eth2-wallet-types/v2"
)

type hSubscriber struct {
	calls  int
	epochs []phase0.Epoch // the epoch of each subscription asked for
	// next, when set, is what the next subscription returns
	next map[phase0.Slot]map[phase0.CommitteeIndex]*beaconcommitteesubscriber.Subscription
}

func (h *hSubscriber) Subscribe(_ context.Context, epoch phase0.Epoch, _ map[phase0.ValidatorIndex]e2wtypes.Account) (map[phase0.Slot]map[phase0.CommitteeIndex]*beaconcommitteesubscriber.Subscription, error) {
	h.calls++
	h.epochs = append(h.epochs, epoch)
	if h.next != nil {
		return h.next, nil
	}
	return map[phase0.Slot]map[phase0.CommitteeIndex]*beaconcommitteesubscriber.Subscription{}, nil
}

type hValidating struct {
	hCtlAccounts
	failAll bool // the account lookup fails
	none    bool // no validating accounts
}

func (h *hValidating) ValidatingAccountsForEpoch(_ context.Context, _ phase0.Epoch) (map[phase0.ValidatorIndex]e2wtypes.Account, error) {
	if h.failAll {
		return nil, errors.New("mock accounts failure")
	}
	if h.none {
		return map[phase0.ValidatorIndex]e2wtypes.Account{}, nil
	}
	return map[phase0.ValidatorIndex]e2wtypes.Account{1: &vstub.Account{VIndex: 1, Nm: "acc"}}, nil
}

// VerifC03_ReorgDetection: one head event from an arbitrary stored state: which
// duty refreshes fire and how the stored roots are updated.
func VerifC03_ReorgDetection() {
	vstub.SPEChoices = []uint64{4}
	e := newCtlEnv()
	e.s.validatingAccountsProvider = &hValidating{}
	e.s.attesterDutiesProvider = &hAttDuties{fail: true}
	e.s.proposerDutiesProvider = &hPropDuties{fail: true}
	e.s.beaconCommitteeSubscriber = &hSubscriber{}
	e.s.epochsPerSyncCommitteePeriod = 256
	cur := uint64(e.ct.Cur)
	vnd.Assume(cur >= 8 && cur < 1<<30)
	curEpoch := cur / e.ct.SPE
	// stored state
	storedEpoch := vnd.U64("stored.epoch")
	vnd.Assume(storedEpoch <= curEpoch)
	storedPrev, storedCur := phase0.Root(vnd.Root("stored.previous")), phase0.Root(vnd.Root("stored.current"))
	e.s.lastBlockEpoch = phase0.Epoch(storedEpoch)
	e.s.previousDutyDependentRoot, e.s.currentDutyDependentRoot = storedPrev, storedCur
	// the event (for the current slot)
	evPrev, evCur := phase0.Root(vnd.Root("event.previous")), phase0.Root(vnd.Root("event.current"))
	e.s.checkEventForReorg(context.Background(), phase0.Epoch(curEpoch), phase0.Slot(cur), evPrev, evCur)
	vnd.Quiesce()

	zero := phase0.Root{}
	prevFired := e.sched.Asked(fmt.Sprintf("Prepare for epoch %d", curEpoch))
	curFired := e.sched.Asked(fmt.Sprintf("Prepare for epoch %d", curEpoch+1))
	wantPrev, wantCur := false, false
	if storedEpoch != 0 {
		if curEpoch > storedEpoch {
			wantPrev = storedPrev != zero && storedCur != evPrev
		} else {
			wantPrev = storedPrev != zero && storedPrev != evPrev
			wantCur = storedCur != zero && storedCur != evCur
		}
	}
	if wantPrev {
		vnd.Cover("C03.reorg.previous-root-changed")
	}
	if wantCur {
		vnd.Cover("C03.reorg.current-root-changed")
	}
	vnd.Assert(prevFired == wantPrev, "C03.reorg.attester-duties-of-current-epoch-refreshed-iff-previous-root-changed")
	vnd.Assert(curFired == wantCur, "C03.reorg.proposer-and-next-epoch-duties-refreshed-iff-current-root-changed")
	vnd.Assert(uint64(e.s.lastBlockEpoch) == curEpoch && e.s.previousDutyDependentRoot == evPrev && e.s.currentDutyDependentRoot == evCur, "C03.reorg.stored-roots-updated")
}

// VerifC03_RefreshAttester: a refresh cancels every not-yet-run attestation job
// of the epoch and sets up jobs for the duties then obtained: strictly future
// slots always, the current slot only if its job had not run yet, never a slot
// whose job already ran; pending marks follow the jobs.
func VerifC03_RefreshAttester() {
	vstub.SPEChoices = []uint64{2}
	e := newCtlEnv()
	// the validating accounts are available, cannot be obtained, or there are none
	accounts := &hValidating{}
	switch vnd.Choose("accounts", 3) {
	case 1:
		accounts.failAll = true
	case 2:
		accounts.none = true
	}
	e.s.validatingAccountsProvider = accounts
	sub := &hSubscriber{}
	e.s.beaconCommitteeSubscriber = sub
	cur := uint64(e.ct.Cur)
	vnd.Assume(cur >= 4 && cur < 1<<30)
	epoch := cur / 2
	first := epoch * 2
	// jobs still scheduled (not yet run) per slot of the epoch, with their pending marks
	had := make([]bool, 2)
	for k := 0; k < 2; k++ {
		slot := first + uint64(k)
		had[k] = vnd.Bool("job-still-scheduled")
		if had[k] {
			e.sched.Existing = append(e.sched.Existing, fmt.Sprintf("Attestations for slot %d", slot))
			e.s.pendingAttestations[phase0.Slot(slot)] = true
		}
	}
	// the duties obtained after the reorg
	h := &hAttDuties{}
	e.s.attesterDutiesProvider = h
	m := vnd.IntRange("m", 0, 2)
	dslots := make([]uint64, m)
	for i := 0; i < m; i++ {
		dslots[i] = first + uint64(vnd.Choose("duty.offset", 2))
		h.duties = append(h.duties, &apiv1.AttesterDuty{Slot: phase0.Slot(dslots[i]), ValidatorIndex: phase0.ValidatorIndex(10 + i),
			CommitteeIndex: phase0.CommitteeIndex(i), CommitteeLength: 8, CommitteesAtSlot: 4, ValidatorCommitteeIndex: uint64(i)})
	}
	e.s.refreshAttesterDutiesForEpoch(context.Background(), phase0.Epoch(epoch))
	vnd.Quiesce()
	// the committees of the reshuffled duties are subscribed to for the epoch that was refreshed (here the
	// current one: its previous duty dependent root changed), not for another
	for _, se := range sub.epochs {
		vnd.Assert(uint64(se) == epoch, "C14.refresh.beacon-committee-subscription-is-for-the-epoch-refreshed")
	}
	if !accounts.failAll && !accounts.none {
		vnd.Assert(len(sub.epochs) == 1, "C14.refresh.reshuffled-duties-are-subscribed-for-once")
	}
	for k := 0; k < 2; k++ {
		slot := first + uint64(k)
		name := fmt.Sprintf("Attestations for slot %d", slot)
		hasDuty := false
		for i := 0; i < m; i++ {
			if dslots[i] == slot {
				hasDuty = true
			}
		}
		want := false
		switch {
		case accounts.failAll || accounts.none:
			// nothing can be set up; the withdrawn jobs stay withdrawn
			vnd.Cover("C03.refresh.accounts-unavailable")
		case slot > cur:
			want = hasDuty
		case slot == cur:
			want = hasDuty && had[k] // only if its previous job had not run
		}
		vnd.Assert((e.sched.Count(name) == 1) == want, "C03.refresh.jobs-equal-the-duties-obtained-for-slots-not-yet-attested")
		if had[k] {
			found := false
			for _, c := range e.sched.Cancelled {
				if c == name {
					found = true
				}
			}
			vnd.Assert(found, "C03.refresh.not-yet-run-jobs-of-the-epoch-are-cancelled")
		}
		if want {
			vnd.Cover("C03.refresh.rescheduled")
		}
		if had[k] && !want {
			vnd.Cover("C20.pending.duty-withdrawn-by-reorg")
		}
		_, pend := e.s.pendingAttestations[phase0.Slot(slot)]
		vnd.Assert(pend == want, "C20.pending.mark-follows-the-job-across-a-reorg")
	}
}

// VerifC03_EpochTicker: the per-epoch job runs at most once per epoch.
func VerifC03_EpochTicker() {
	vstub.SPEChoices = []uint64{4}
	e := newCtlEnv()
	// (no validator of Vouch's may be active in the epoch that begins: one may be in the next)
	e.s.validatingAccountsProvider = &hValidating{none: vnd.Bool("no-validator-active-in-the-current-epoch")}
	pd := &hPropDuties{}
	e.s.proposerDutiesProvider = pd
	cur := uint64(e.ct.Cur)
	vnd.Assume(cur < 1<<30)
	curEpoch := int64(cur / 4)
	data := &epochTickerData{latestEpochRan: vnd.I64("latest-epoch-ran")}
	vnd.Assume(data.latestEpochRan >= -1 && data.latestEpochRan < 1<<30)
	before := data.latestEpochRan
	e.s.epochTicker(context.Background(), data)
	vnd.Quiesce()
	prepName := fmt.Sprintf("Prepare for epoch %d", curEpoch+1)
	if before >= curEpoch {
		vnd.Cover("C03.ticker.already-ran")
		vnd.Assert(len(e.sched.Jobs) == 0 && data.latestEpochRan == before, "C03.ticker.never-twice-for-an-epoch")
	} else {
		vnd.Cover("C03.ticker.runs")
		vnd.Assert(data.latestEpochRan == curEpoch, "C03.ticker.epoch-recorded-before-scheduling")
		vnd.Assert(e.sched.Count(prepName) == 1, "C03.ticker.next-epoch-preparation-scheduled")
	}
}

// VerifC20_SubscriptionInfosBounded: after a head event in epoch e the stored
// subscription information covers nothing older than e-1, whatever it held before.
func VerifC20_SubscriptionInfosBounded() {
	vstub.SPEChoices = []uint64{4}
	e := newCtlEnv()
	cur := uint64(e.ct.Cur)
	vnd.Assume(cur < 1<<30) // any slot, the first epochs of a chain included
	epoch := phase0.Epoch(cur / 4)
	present := map[phase0.Epoch]bool{}
	for back := 0; back <= 5; back++ {
		if uint64(epoch)+1 < uint64(back) {
			continue // before genesis
		}
		if vnd.Bool("epoch-present") {
			k := epoch + 1 - phase0.Epoch(back)
			present[k] = true
			e.s.subscriptionInfos[k] = map[phase0.Slot]map[phase0.CommitteeIndex]*beaconcommitteesubscriber.Subscription{}
		}
	}
	e.s.HandleHeadEvent(&apiv1.Event{Data: &apiv1.HeadEvent{Slot: phase0.Slot(cur), Block: phase0.Root{1}}})
	vnd.Quiesce()
	for k := range e.s.subscriptionInfos {
		vnd.Assert(k+1 >= epoch, "C20.subscriptions.nothing-older-than-previous-epoch-after-a-head-event")
	}
	// what the attestation jobs of this epoch and the next will look up is still there
	for _, k := range []phase0.Epoch{epoch, epoch + 1} {
		if present[k] {
			_, still := e.s.subscriptionInfos[k]
			vnd.Assert(still, "C14.subscriptions.current-and-next-epoch-kept-by-a-head-event")
		}
	}
	if epoch == 0 {
		vnd.Cover("C20.subscriptions.first-epoch-of-the-chain")
	}
	vnd.Cover("C20.subscriptions.checked")
}

// VerifC03_HeadEventFastTrack: a head event for the current slot with fast
// tracking of attestations on (vouch's default), the slot's attestation job
// still waiting, a positive grace period. If the event shows that the attester
// duties of the current epoch changed (previous duty dependent root), the job
// from before the change is withdrawn before anything is started early: what is
// fast-tracked is never the stale job. Without such a change the waiting job is
// started early.
func VerifC03_HeadEventFastTrack() {
	vstub.SPEChoices = []uint64{4}
	e := newCtlEnv()
	e.s.validatingAccountsProvider = &hValidating{}
	e.s.proposerDutiesProvider = &hPropDuties{fail: true}
	e.s.beaconCommitteeSubscriber = &hSubscriber{}
	e.s.epochsPerSyncCommitteePeriod = 256
	e.s.fastTrackAttestations = true
	e.s.fastTrackGrace = time.Duration(vnd.I64("fast-track.grace"))
	vnd.Assume(e.s.fastTrackGrace > 0 && e.s.fastTrackGrace < time.Second)
	cur := uint64(e.ct.Cur)
	vnd.Assume(cur >= 8 && cur < 1<<30)
	curEpoch := cur / e.ct.SPE
	// what the controller remembers from the last head event of this epoch
	storedPrev, storedCur := phase0.Root(vnd.Root("stored.previous")), phase0.Root(vnd.Root("stored.current"))
	zero := phase0.Root{}
	vnd.Assume(storedPrev != zero && storedCur != zero)
	e.s.lastBlockEpoch = phase0.Epoch(curEpoch)
	e.s.previousDutyDependentRoot, e.s.currentDutyDependentRoot = storedPrev, storedCur
	// the current slot's attestation job, set up from the duties known so far, is waiting
	jobName := fmt.Sprintf("Attestations for slot %d", cur)
	e.sched.Existing = append(e.sched.Existing, jobName)
	e.s.pendingAttestations[phase0.Slot(cur)] = true
	// the duties the beacon node gives after the change: another validator in the current slot, or none there
	h := &hAttDuties{}
	if vnd.Bool("refreshed-duties-include-the-current-slot") {
		h.duties = []*apiv1.AttesterDuty{{Slot: phase0.Slot(cur), ValidatorIndex: 2, CommitteeIndex: 0, CommitteeLength: 8, CommitteesAtSlot: 4}}
	}
	e.s.attesterDutiesProvider = h
	evPrev := storedPrev
	changed := vnd.Bool("previous-duty-dependent-root-changed")
	if changed {
		evPrev = phase0.Root(vnd.Root("event.previous"))
		vnd.Assume(evPrev != storedPrev)
	}
	startedEarly, startedStale := 0, false
	e.sched.OnRun = func(name string) {
		if name == jobName {
			startedEarly++
			withdrawn := false
			for _, c := range e.sched.Cancelled {
				withdrawn = withdrawn || c == jobName
			}
			startedStale = startedStale || !withdrawn
		}
	}
	e.s.HandleHeadEvent(&apiv1.Event{Data: &apiv1.HeadEvent{Slot: phase0.Slot(cur), Block: phase0.Root{1}, PreviousDutyDependentRoot: evPrev, CurrentDutyDependentRoot: storedCur}})
	vnd.Quiesce()
	if changed {
		vnd.Cover("C03.fasttrack.duties-changed")
		vnd.Assert(!startedStale, "C03.fasttrack.job-from-before-the-change-is-withdrawn-not-started-early")
	} else {
		vnd.Cover("C03.fasttrack.no-change")
		vnd.Assert(startedEarly == 1 && startedStale, "C03.fasttrack.waiting-job-started-early")
	}
}

type hHeaders struct {
	fail bool
	slot phase0.Slot
}

func (h *hHeaders) BeaconBlockHeader(_ context.Context, _ *api.BeaconBlockHeaderOpts) (*api.Response[*apiv1.BeaconBlockHeader], error) {
	if h.fail {
		return nil, errors.New("mock header failure")
	}
	return &api.Response[*apiv1.BeaconBlockHeader]{Data: &apiv1.BeaconBlockHeader{Header: &phase0.SignedBeaconBlockHeader{Message: &phase0.BeaconBlockHeader{Slot: h.slot}}}, Metadata: map[string]any{}}, nil
}

// VerifC03_ProposeEarly: the early-proposal job asks the scheduler to run the
// slot's proposal job now exactly when the chain head is the block of the slot
// before the duty's; a failure to obtain the head starts nothing; the proposal
// job itself is never run twice by it.
func VerifC03_ProposeEarly() {
	vstub.SPEChoices = []uint64{4}
	e := newCtlEnv()
	h := &hHeaders{fail: vnd.Bool("head.fail"), slot: phase0.Slot(vnd.U64("head.slot"))}
	e.s.beaconBlockHeadersProvider = h
	slot := phase0.Slot(vnd.U64("duty.slot"))
	vnd.Assume(uint64(slot) >= 1 && uint64(slot) < 1<<40)
	name := fmt.Sprintf("Beacon block proposal for slot %d", slot)
	if vnd.Bool("proposal-job-still-scheduled") {
		e.sched.Existing = append(e.sched.Existing, name)
	}
	duty := beaconblockproposer.NewDuty(slot, 9)
	e.s.proposeEarly(context.Background(), duty)
	upToDate := !h.fail && h.slot == slot-1
	ran := 0
	for _, r := range e.sched.RunNow {
		vnd.Assert(r == name, "C03.early.only-the-slots-own-proposal-job")
		ran++
	}
	if upToDate {
		vnd.Cover("C03.early.head-up-to-date")
	}
	wantRan := 0
	if upToDate && len(e.sched.Existing) == 1 {
		wantRan = 1
	}
	vnd.Assert(ran == wantRan, "C03.early.proposal-started-now-iff-head-is-the-previous-slots-block")
}

// VerifC03_PrepareForEpoch: the mid-epoch preparation sets up the attestation
// jobs of the next epoch from the duties then obtained (C03.attest rules) and
// asks for the beacon committee subscriptions of that epoch; without accounts it
// sets up nothing.
func VerifC03_PrepareForEpoch() {
	vstub.SPEChoices = []uint64{4}
	e := newCtlEnv()
	accounts := &hValidating{}
	switch vnd.Choose("accounts", 3) {
	case 1:
		accounts.failAll = true
	case 2:
		accounts.none = true
	}
	e.s.validatingAccountsProvider = accounts
	subs := &hSubscriber{}
	e.s.beaconCommitteeSubscriber = subs
	cur := uint64(e.ct.Cur)
	vnd.Assume(cur < 1<<30)
	next := cur/4 + 1
	h := &hAttDuties{}
	e.s.attesterDutiesProvider = h
	dslot := next*4 + uint64(vnd.Choose("duty.offset", 4))
	h.duties = []*apiv1.AttesterDuty{{Slot: phase0.Slot(dslot), ValidatorIndex: 1, CommitteeIndex: 2, CommitteeLength: 8, CommitteesAtSlot: 4, ValidatorCommitteeIndex: 3}}
	e.s.prepareForEpoch(context.Background(), &prepareForEpochData{epoch: phase0.Epoch(next)})
	vnd.Quiesce()
	name := fmt.Sprintf("Attestations for slot %d", dslot)
	if accounts.failAll || accounts.none {
		vnd.Cover("C03.prepare.no-accounts")
		vnd.Assert(len(e.sched.Jobs) == 0 && subs.calls == 0, "C03.prepare.nothing-without-validating-accounts")
		return
	}
	vnd.Cover("C03.prepare.prepared")
	vnd.Assert(len(h.asked) == 1 && uint64(h.asked[0].Epoch) == next, "C03.prepare.duties-of-the-next-epoch-asked")
	vnd.Assert(e.sched.Count(name) == 1 && len(e.sched.Jobs) == 1, "C03.prepare.attestation-job-for-the-next-epochs-duty")
	vnd.Assert(subs.calls == 1, "C03.prepare.subscriptions-of-the-next-epoch-asked")
	vnd.Assert(e.s.HasPendingAttestations(context.Background(), phase0.Slot(dslot)) && !e.s.HasPendingAttestations(context.Background(), phase0.Slot(dslot+1)), "C20.pending.reported-for-the-slots-with-a-job-only")
}
