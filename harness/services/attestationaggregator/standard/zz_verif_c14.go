//go:build verif

package standard

import (
	"context"
	"crypto/sha256"
	"encoding/binary"
	"errors"

	"github.com/attestantio/go-eth2-client/spec/phase0"
	"github.com/attestantio/vouch/internal/vnd"
	"github.com/attestantio/vouch/internal/vstub"
	e2wtypes "github.com/wealdtech/go-eth2-wallet-types/v2"
)

type c14SlotSigner struct {
	fail bool
	sigs []phase0.BLSSignature
	slot phase0.Slot
	accs []e2wtypes.Account
}

func (h *c14SlotSigner) SignSlotSelection(_ context.Context, _ e2wtypes.Account, _ phase0.Slot) (phase0.BLSSignature, error) {
	return phase0.BLSSignature{}, errors.New("not used")
}

func (h *c14SlotSigner) SignSlotSelections(_ context.Context, accounts []e2wtypes.Account, slot phase0.Slot) ([]phase0.BLSSignature, error) {
	h.slot, h.accs = slot, accounts
	if h.fail {
		return nil, errors.New("mock signer failure")
	}
	return h.sigs, nil
}

// VerifC14_IsAggregator: a validator is marked aggregator exactly when the
// consensus rule says so: LE64(sha256(slot signature)[0:8]) mod max(1, size / target) == 0.
func VerifC14_IsAggregator() {
	n := vnd.IntRange("n", 1, 2)
	targets := []uint64{1, 16}
	signer := &c14SlotSigner{fail: vnd.Bool("signer.fail")}
	s := &Service{targetAggregatorsPerCommittee: targets[vnd.Choose("target", len(targets))], slotSelectionSigner: signer}
	accounts := make([]e2wtypes.Account, n)
	sizes := make([]uint64, n)
	for i := 0; i < n; i++ {
		accounts[i] = &vstub.Account{VIndex: uint64(i)}
		sizes[i] = vnd.U64("committee.size")
		vnd.Assume(sizes[i] < 1<<16)
		signer.sigs = append(signer.sigs, phase0.BLSSignature(vnd.Sig("slotsig")))
	}
	slot := phase0.Slot(vnd.U64("slot"))
	sigs, aggs, err := s.AggregatorsAndSignatures(context.Background(), accounts, slot, sizes)
	if signer.fail {
		vnd.Assert(err != nil, "C14.isaggregator.signer-error-propagates")
		return
	}
	vnd.Assert(err == nil, "C14.isaggregator.no-error")
	vnd.Assert(signer.slot == slot && len(signer.accs) == n, "C14.isaggregator.signs-for-the-slot")
	vnd.Assert(len(sigs) == n && len(aggs) == n, "C14.isaggregator.lengths")
	for i := 0; i < n; i++ {
		vnd.Assert(sigs[i] == signer.sigs[i], "C14.isaggregator.signature-passed-through")
		modulo := sizes[i] / s.targetAggregatorsPerCommittee
		if modulo == 0 {
			modulo = 1
		}
		h := sha256.Sum256(signer.sigs[i][:])
		want := binary.LittleEndian.Uint64(h[:8])%modulo == 0
		vnd.Assert(aggs[i] == want, "C14.isaggregator.spec-selection-rule")
	}
	vnd.Cover("C14.isaggregator.checked")
}
