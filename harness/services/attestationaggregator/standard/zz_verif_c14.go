//go:build verif

package standard

import (
	"context"
	"crypto/sha256"
	"encoding/binary"
	"errors"

	"github.com/attestantio/go-eth2-client/api"
	"github.com/attestantio/go-eth2-client/spec/phase0"
	"github.com/attestantio/vouch/internal/vnd"
	"github.com/attestantio/vouch/internal/vstub"
	"github.com/attestantio/vouch/services/attestationaggregator"
	nullmetrics "github.com/attestantio/vouch/services/metrics/null"
	"github.com/prysmaticlabs/go-bitfield"
	e2wtypes "github.com/wealdtech/go-eth2-wallet-types/v2"
)

type c14SlotSigner struct {
	fail bool
	sigs []phase0.BLSSignature
	slot phase0.Slot
	accs []e2wtypes.Account
}

func (h *c14SlotSigner) SignSlotSelection(_ context.Context, _ e2wtypes.Account, _ phase0.Slot) (phase0.BLSSignature, error) {
	return phase0.BLSSignature{}, errors.New("not used")
}

func (h *c14SlotSigner) SignSlotSelections(_ context.Context, accounts []e2wtypes.Account, slot phase0.Slot) ([]phase0.BLSSignature, error) {
	h.slot, h.accs = slot, accounts
	if h.fail {
		return nil, errors.New("mock signer failure")
	}
	return h.sigs, nil
}

// c14Spec is the chain specification New reads SLOTS_PER_EPOCH and
// TARGET_AGGREGATORS_PER_COMMITTEE from.
type c14Spec struct {
	spec map[string]any
}

func (h *c14Spec) Spec(_ context.Context, _ *api.SpecOpts) (*api.Response[map[string]any], error) {
	return &api.Response[map[string]any]{Data: h.spec, Metadata: map[string]any{}}, nil
}

// c14New builds the aggregator the way main does: through New, the slots per
// epoch and the target number of aggregators coming from the chain specification.
func c14New(ct *vstub.ChainTime, target uint64, accs *c14Accounts, prov *c14AggProvider, sub *c14AggSubmitter, slotSigner *c14SlotSigner, sgn *c14APSigner) *Service {
	s, err := New(context.Background(),
		WithLogLevel(vnd.LogLevel()),
		WithMonitor(&nullmetrics.Service{}),
		WithSpecProvider(&c14Spec{spec: map[string]any{"SLOTS_PER_EPOCH": ct.SPE, "TARGET_AGGREGATORS_PER_COMMITTEE": target}}),
		WithChainTime(ct),
		WithValidatingAccountsProvider(accs),
		WithAggregateAttestationProvider(prov),
		WithAggregateAttestationsSubmitter(sub),
		WithSlotSelectionSigner(slotSigner),
		WithAggregateAndProofSigner(sgn),
	)
	vnd.Assert(err == nil && s != nil, "C14.new.accepted")
	return s
}

// VerifC14_IsAggregator: a validator is marked aggregator exactly when the
// consensus rule says so: LE64(sha256(slot signature)[0:8]) mod max(1, size / target) == 0.
func VerifC14_IsAggregator() {
	n := vnd.IntRange("n", 1, 2)
	targets := []uint64{1, 16}
	signer := &c14SlotSigner{fail: vnd.Bool("signer.fail")}
	// only the selection rule is exercised: the rest of the configuration is inert
	s := c14New(&vstub.ChainTime{SPE: 32, SlotNs: 1 << 33}, targets[vnd.Choose("target", len(targets))], &c14Accounts{}, &c14AggProvider{}, &c14AggSubmitter{}, signer, &c14APSigner{})
	accounts := make([]e2wtypes.Account, n)
	sizes := make([]uint64, n)
	for i := 0; i < n; i++ {
		accounts[i] = &vstub.Account{VIndex: uint64(i)}
		sizes[i] = vnd.U64("committee.size")
		vnd.Assume(sizes[i] < 1<<16)
		signer.sigs = append(signer.sigs, phase0.BLSSignature(vnd.Sig("slotsig")))
	}
	slot := phase0.Slot(vnd.U64("slot"))
	sigs, aggs, err := s.AggregatorsAndSignatures(context.Background(), accounts, slot, sizes)
	if signer.fail {
		vnd.Assert(err != nil, "C14.isaggregator.signer-error-propagates")
		return
	}
	vnd.Assert(err == nil, "C14.isaggregator.no-error")
	vnd.Assert(signer.slot == slot && len(signer.accs) == n, "C14.isaggregator.signs-for-the-slot")
	vnd.Assert(len(sigs) == n && len(aggs) == n, "C14.isaggregator.lengths")
	for i := 0; i < n; i++ {
		vnd.Assert(sigs[i] == signer.sigs[i], "C14.isaggregator.signature-passed-through")
		modulo := sizes[i] / s.targetAggregatorsPerCommittee
		if modulo == 0 {
			modulo = 1
		}
		h := sha256.Sum256(signer.sigs[i][:])
		want := binary.LittleEndian.Uint64(h[:8])%modulo == 0
		vnd.Assert(aggs[i] == want, "C14.isaggregator.spec-selection-rule")
	}
	vnd.Cover("C14.isaggregator.checked")
}

// VerifC14_IsAggregatorValues: the same rule on concrete slot signatures (any 2 - thorough: 3 - out of a catalogue
// of three, in any order, repeats allowed) and committee sizes (modulo 1, 2 and 4 with the target of
// 16, larger with the target of 1): the hashes are then the real SHA-256 values, computed natively
// inside the encoding, so that a selection that depends on anything but that validator's own
// signature (its position in the call, the signatures before it) gives a counterexample that
// replays as it stands.
func VerifC14_IsAggregatorValues() { c14IsAggregatorValues(2) }

// VerifC14_IsAggregatorValues3: three validators in the slot (thorough).
func VerifC14_IsAggregatorValues3() { c14IsAggregatorValues(3) }

func c14IsAggregatorValues(n int) {
	targets := []uint64{1, 16}
	signer := &c14SlotSigner{}
	s := c14New(&vstub.ChainTime{SPE: 32, SlotNs: 1 << 33}, targets[vnd.Choose("target", len(targets))], &c14Accounts{}, &c14AggProvider{}, &c14AggSubmitter{}, signer, &c14APSigner{})
	accounts := make([]e2wtypes.Account, n)
	sizes := make([]uint64, n)
	for i := 0; i < n; i++ {
		accounts[i] = &vstub.Account{VIndex: uint64(i)}
		sizes[i] = []uint64{16, 32, 64}[vnd.Choose("committee.size", 3)]
		var sig phase0.BLSSignature
		fill := []byte{0x11, 0x5a, 0xc3}[vnd.Choose("slotsig", 3)]
		for k := range sig {
			sig[k] = fill + byte(k)
		}
		signer.sigs = append(signer.sigs, sig)
	}
	sigs, aggs, err := s.AggregatorsAndSignatures(context.Background(), accounts, 77, sizes)
	vnd.Assert(err == nil && len(sigs) == n && len(aggs) == n, "C14.isaggregator-values.answered")
	for i := 0; i < n; i++ {
		modulo := sizes[i] / s.targetAggregatorsPerCommittee
		if modulo == 0 {
			modulo = 1
		}
		h := sha256.Sum256(signer.sigs[i][:])
		want := binary.LittleEndian.Uint64(h[:8])%modulo == 0
		vnd.Assert(aggs[i] == want, "C14.isaggregator-values.spec-selection-rule")
		if want {
			vnd.Cover("C14.isaggregator-values.selected")
		} else {
			vnd.Cover("C14.isaggregator-values.not-selected")
		}
	}
}

type c14AggProvider struct {
	fail  bool
	agg   *phase0.Attestation
	asked []*api.AggregateAttestationOpts
}

func (p *c14AggProvider) AggregateAttestation(_ context.Context, opts *api.AggregateAttestationOpts) (*api.Response[*phase0.Attestation], error) {
	p.asked = append(p.asked, opts)
	if p.fail {
		return nil, errors.New("mock aggregate failure")
	}
	return &api.Response[*phase0.Attestation]{Data: p.agg, Metadata: map[string]any{}}, nil
}

type c14Accounts struct {
	mode  int // 0 account found, 1 none, 2 error
	asked []phase0.Epoch
}

func (a *c14Accounts) ValidatingAccountsForEpoch(_ context.Context, _ phase0.Epoch) (map[phase0.ValidatorIndex]e2wtypes.Account, error) {
	return nil, errors.New("not used")
}
func (a *c14Accounts) ValidatingAccountsForEpochByIndex(_ context.Context, epoch phase0.Epoch, indices []phase0.ValidatorIndex) (map[phase0.ValidatorIndex]e2wtypes.Account, error) {
	a.asked = append(a.asked, epoch)
	switch a.mode {
	case 1:
		return map[phase0.ValidatorIndex]e2wtypes.Account{}, nil
	case 2:
		return nil, errors.New("mock accounts failure")
	}
	res := map[phase0.ValidatorIndex]e2wtypes.Account{}
	for _, i := range indices {
		res[i] = &vstub.Account{VIndex: uint64(i), Nm: "acc"}
	}
	return res, nil
}
func (a *c14Accounts) SyncCommitteeAccountsForEpoch(_ context.Context, _ phase0.Epoch) (map[phase0.ValidatorIndex]e2wtypes.Account, error) {
	return nil, errors.New("not used")
}
func (a *c14Accounts) SyncCommitteeAccountsForEpochByIndex(_ context.Context, _ phase0.Epoch, _ []phase0.ValidatorIndex) (map[phase0.ValidatorIndex]e2wtypes.Account, error) {
	return nil, errors.New("not used")
}

type c14APSigner struct {
	fail  bool
	calls int
	acc   e2wtypes.Account
	slot  phase0.Slot
	root  phase0.Root
}

func (g *c14APSigner) SignAggregateAndProof(_ context.Context, account e2wtypes.Account, slot phase0.Slot, root phase0.Root) (phase0.BLSSignature, error) {
	g.calls++
	g.acc, g.slot, g.root = account, slot, root
	if g.fail {
		return phase0.BLSSignature{}, errors.New("mock sign failure")
	}
	var sig phase0.BLSSignature
	sig[0] = byte(account.(*vstub.Account).VIndex)
	copy(sig[1:5], root[0:4])
	return sig, nil
}

type c14AggSubmitter struct {
	fail  bool
	calls [][]*phase0.SignedAggregateAndProof
}

func (s *c14AggSubmitter) SubmitAggregateAttestations(_ context.Context, aggs []*phase0.SignedAggregateAndProof) error {
	s.calls = append(s.calls, aggs)
	if s.fail {
		return errors.New("mock submit failure")
	}
	return nil
}

// VerifC14_AggregateJob: the aggregation job of a committee: the aggregate is
// asked for the duty's slot and attestation data root; what is submitted is one
// aggregate-and-proof naming the duty's validator, carrying the aggregate
// obtained and the duty's slot signature as selection proof, signed by that
// validator's account for the duty's slot over the root of that very message;
// nothing is submitted when a step fails.
func VerifC14_AggregateJob() {
	ct := vstub.NewChainTime(0)
	slot := phase0.Slot(vnd.U64("slot"))
	vnd.Assume(uint64(slot) < 1<<40)
	bits := bitfield.NewBitlist(8)
	bits.SetBitAt(3, true)
	agg := &phase0.Attestation{AggregationBits: bits, Data: &phase0.AttestationData{Slot: slot, Index: 2, BeaconBlockRoot: phase0.Root(vnd.Root("head")), Source: &phase0.Checkpoint{}, Target: &phase0.Checkpoint{}}}
	prov := &c14AggProvider{fail: vnd.Bool("aggregate.fail"), agg: agg}
	accs := &c14Accounts{mode: vnd.Choose("accounts", 3)}
	sgn := &c14APSigner{fail: vnd.Bool("sign.fail")}
	sub := &c14AggSubmitter{fail: vnd.Bool("submit.fail")}
	// the job does not compute selections: the target is the mainnet value, the slot selection signer unused
	s := c14New(ct, 16, accs, prov, sub, &c14SlotSigner{}, sgn)
	duty := &attestationaggregator.Duty{Slot: slot, AttestationDataRoot: phase0.Root(vnd.Root("data-root")), ValidatorIndex: phase0.ValidatorIndex(vnd.U64("validator")), SlotSignature: phase0.BLSSignature(vnd.Sig("slot-signature"))}
	s.Aggregate(context.Background(), duty)
	vnd.Assert(len(prov.asked) == 1 && prov.asked[0].Slot == slot && prov.asked[0].AttestationDataRoot == duty.AttestationDataRoot, "C14.aggjob.aggregate-asked-for-the-dutys-slot-and-data")
	if prov.fail || accs.mode != 0 || sgn.fail {
		vnd.Cover("C14.aggjob.step-failed")
		vnd.Assert(len(sub.calls) == 0, "C14.aggjob.nothing-submitted-when-a-step-fails")
		return
	}
	vnd.Cover("C14.aggjob.submitted")
	vnd.Assert(uint64(accs.asked[0]) == uint64(slot)/ct.SPE, "C14.aggjob.account-of-the-slots-epoch")
	vnd.Assert(len(sub.calls) == 1 && len(sub.calls[0]) == 1, "C14.aggjob.one-aggregate-and-proof-submitted")
	if len(sub.calls) != 1 || len(sub.calls[0]) != 1 {
		return
	}
	m := sub.calls[0][0].Message
	vnd.Assert(m.AggregatorIndex == duty.ValidatorIndex && m.Aggregate == agg && m.SelectionProof == duty.SlotSignature, "C14.aggjob.names-the-aggregator-carries-the-aggregate-and-its-selection-proof")
	root, _ := m.HashTreeRoot()
	vnd.Assert(sgn.calls == 1 && sgn.slot == slot && sgn.root == phase0.Root(root) && sgn.acc.(*vstub.Account).VIndex == uint64(duty.ValidatorIndex), "C14.aggjob.signed-by-that-validator-for-the-slot-over-that-message")
	var want phase0.BLSSignature
	want[0] = byte(duty.ValidatorIndex)
	copy(want[1:5], root[0:4])
	vnd.Assert(sub.calls[0][0].Signature == want, "C14.aggjob.signature-submitted-is-the-one-obtained")
}
