//go:build verif

package attester

import (
	"context"

	api "github.com/attestantio/go-eth2-client/api/v1"
	"github.com/attestantio/go-eth2-client/spec/phase0"
	"github.com/attestantio/vouch/internal/vnd"
)

// VerifC04_MergeDuties: the beacon node's per-validator attester duties of one epoch (2..3 validators,
// spread in any way over two slots and two committee indices, any committee lengths and positions;
// a committee of one slot has one length, committees of different slots are unrelated) are merged
// into per-slot duties. Every validator has to come out of its own slot's duty with the committee
// index, the position and the committee size the beacon node assigned to that very validator.
func VerifC04_MergeDuties() { c04Merge(vnd.IntRange("n", 2, 3)) }

// VerifC04_MergeDuties4: four validators (thorough).
func VerifC04_MergeDuties4() { c04Merge(4) }

type c04Assigned struct {
	slot      phase0.Slot
	validator phase0.ValidatorIndex
	committee phase0.CommitteeIndex
	position  uint64
	length    uint64
	atSlot    uint64
}

func c04Merge(n int) {
	given := make([]*api.AttesterDuty, n)
	// the record of what was assigned is kept apart from what is handed over (the callee sorts its input)
	assigned := make([]c04Assigned, n)
	for i := range given {
		a := c04Assigned{
			slot:      phase0.Slot(64 + vnd.Choose("slot", 2)),
			validator: phase0.ValidatorIndex(100 + i),
			committee: phase0.CommitteeIndex(vnd.Choose("committee", 2)),
			position:  vnd.U64("position"),
			length:    vnd.U64("length"),
			atSlot:    vnd.U64("committees-at-slot"),
		}
		vnd.Assume(a.length >= 1 && a.length <= 1<<20 && a.position < a.length)
		vnd.Assume(a.atSlot >= 2 && a.atSlot <= 64)
		for j := 0; j < i; j++ {
			b := assigned[j]
			if b.slot == a.slot {
				// what a beacon node says of one slot is consistent
				vnd.Assume(b.atSlot == a.atSlot)
				if b.committee == a.committee {
					vnd.Assume(b.length == a.length && b.position != a.position)
				}
			}
		}
		assigned[i] = a
		given[i] = &api.AttesterDuty{Slot: a.slot, ValidatorIndex: a.validator, CommitteeIndex: a.committee,
			ValidatorCommitteeIndex: a.position, CommitteeLength: a.length, CommitteesAtSlot: a.atSlot}
	}
	// the beacon node's order is its own
	if vnd.Bool("reversed") {
		for i, j := 0, n-1; i < j; i, j = i+1, j-1 {
			given[i], given[j] = given[j], given[i]
		}
	}
	duties, err := MergeDuties(context.Background(), given)
	vnd.Assert(err == nil, "C04.merge.accepted")
	slots := map[phase0.Slot]bool{}
	for _, a := range assigned {
		slots[a.slot] = true
	}
	vnd.Assert(len(duties) == len(slots), "C04.merge.one-duty-per-slot-with-validators")
	for i := 1; i < len(duties); i++ {
		vnd.Assert(duties[i-1].Slot() < duties[i].Slot(), "C04.merge.duties-in-slot-order-one-per-slot")
	}
	for _, a := range assigned {
		var d *Duty
		for _, c := range duties {
			if c.Slot() == a.slot {
				d = c
			}
		}
		vnd.Assert(d != nil, "C04.merge.validator-slot-has-a-duty")
		found := 0
		for k, v := range d.ValidatorIndices() {
			if v != a.validator {
				continue
			}
			found++
			vnd.Assert(d.CommitteeIndices()[k] == a.committee, "C04.merge.validator-keeps-its-committee-index")
			vnd.Assert(d.ValidatorCommitteeIndices()[k] == a.position, "C04.merge.validator-keeps-its-position")
		}
		vnd.Assert(found == 1, "C04.merge.validator-appears-once-in-its-slot")
		vnd.Assert(d.CommitteeSize(a.committee) == a.length, "C04.merge.committee-size-is-that-of-the-validators-own-slot")
		vnd.Assert(d.CommitteesAtSlot() == a.atSlot, "C04.merge.committees-at-slot-kept")
		for _, c := range duties {
			if c.Slot() != a.slot {
				for _, v := range c.ValidatorIndices() {
					vnd.Assert(v != a.validator, "C04.merge.validator-only-in-its-own-slot")
				}
			}
		}
	}
	if len(duties) == 2 {
		vnd.Cover("C04.merge.two-slots")
	}
}

// VerifC04_MergeDutiesLarge: an operator-sized answer (32 or 40 duties, so that the function's
// capacity guess - one thirty-second of the number of duties - is not zero): 1..3 slots with a
// single validator each, in any place among the slots, and one slot with all the others; symbolic
// positions. Every validator leaves with its own position, committee index and committee size,
// and every slot's duty holds exactly its own validators.
func VerifC04_MergeDutiesLarge() {
	total := 32 + 8*vnd.Choose("extra-duties", 2)
	singles := vnd.IntRange("single-validator-slots", 1, 3)
	bigSlotAt := vnd.Choose("place-of-the-full-slot", singles+1) // before, between or after the single-validator slots
	given := make([]*api.AttesterDuty, total)
	assigned := make([]c04Assigned, total)
	slotOf := func(i int) phase0.Slot {
		// the first `singles` validators have a slot of their own, the rest share one
		k := singles
		if i < singles {
			k = i
		}
		// slots 64.. in order, the full slot inserted at bigSlotAt
		switch {
		case i >= singles:
			return phase0.Slot(64 + bigSlotAt)
		case k < bigSlotAt:
			return phase0.Slot(64 + k)
		default:
			return phase0.Slot(64 + k + 1)
		}
	}
	for i := range given {
		a := c04Assigned{slot: slotOf(i), validator: phase0.ValidatorIndex(1000 + i), committee: phase0.CommitteeIndex(i % 4),
			position: vnd.U64("position"), length: uint64(100 + i%4), atSlot: 4}
		vnd.Assume(a.position < a.length)
		assigned[i] = a
		given[i] = &api.AttesterDuty{Slot: a.slot, ValidatorIndex: a.validator, CommitteeIndex: a.committee,
			ValidatorCommitteeIndex: a.position, CommitteeLength: a.length, CommitteesAtSlot: a.atSlot}
	}
	duties, err := MergeDuties(context.Background(), given)
	vnd.Assert(err == nil && len(duties) == singles+1, "C04.mergelarge.one-duty-per-slot")
	for _, a := range assigned {
		var d *Duty
		for _, c := range duties {
			if c.Slot() == a.slot {
				d = c
			}
		}
		vnd.Assert(d != nil, "C04.mergelarge.validator-slot-has-a-duty")
		want := total - singles
		if a.slot != phase0.Slot(64+bigSlotAt) {
			want = 1
		}
		vnd.Assert(len(d.ValidatorIndices()) == want && len(d.CommitteeIndices()) == want && len(d.ValidatorCommitteeIndices()) == want, "C04.mergelarge.slot-holds-exactly-its-validators")
		found := 0
		for k, v := range d.ValidatorIndices() {
			if v != a.validator {
				continue
			}
			found++
			vnd.Assert(d.CommitteeIndices()[k] == a.committee, "C04.mergelarge.validator-keeps-its-committee-index")
			vnd.Assert(d.ValidatorCommitteeIndices()[k] == a.position, "C04.mergelarge.validator-keeps-its-position")
		}
		vnd.Assert(found == 1, "C04.mergelarge.validator-appears-once-in-its-slot")
		vnd.Assert(d.CommitteeSize(a.committee) == a.length, "C04.mergelarge.committee-size-kept")
	}
	vnd.Cover("C04.mergelarge.checked")
}
