//go:build verif

package attester

import (
	"context"

	api "github.com/attestantio/go-eth2-client/api/v1"
	"github.com/attestantio/go-eth2-client/spec/phase0"
	"github.com/attestantio/vouch/internal/vnd"
)

// VerifC04_MergeDuties: the beacon node's per-validator attester duties of one epoch (2..3 validators,
// spread in any way over two slots and two committee indices, any committee lengths and positions;
// a committee of one slot has one length, committees of different slots are unrelated) are merged
// into per-slot duties. Every validator has to come out of its own slot's duty with the committee
// index, the position and the committee size the beacon node assigned to that very validator.
func VerifC04_MergeDuties() { c04Merge(vnd.IntRange("n", 2, 3)) }

// VerifC04_MergeDuties4: four validators (thorough).
func VerifC04_MergeDuties4() { c04Merge(4) }

type c04Assigned struct {
	slot      phase0.Slot
	validator phase0.ValidatorIndex
	committee phase0.CommitteeIndex
	position  uint64
	length    uint64
	atSlot    uint64
}

func c04Merge(n int) {
	given := make([]*api.AttesterDuty, n)
	// the record of what was assigned is kept apart from what is handed over (the callee sorts its input)
	assigned := make([]c04Assigned, n)
	for i := range given {
		a := c04Assigned{
			slot:      phase0.Slot(64 + vnd.Choose("slot", 2)),
			validator: phase0.ValidatorIndex(100 + i),
			committee: phase0.CommitteeIndex(vnd.Choose("committee", 2)),
			position:  vnd.U64("position"),
			length:    vnd.U64("length"),
			atSlot:    vnd.U64("committees-at-slot"),
		}
		vnd.Assume(a.length >= 1 && a.length <= 1<<20 && a.position < a.length)
		vnd.Assume(a.atSlot >= 2 && a.atSlot <= 64)
		for j := 0; j < i; j++ {
			b := assigned[j]
			if b.slot == a.slot {
				// what a beacon node says of one slot is consistent
				vnd.Assume(b.atSlot == a.atSlot)
				if b.committee == a.committee {
					vnd.Assume(b.length == a.length && b.position != a.position)
				}
			}
		}
		assigned[i] = a
		given[i] = &api.AttesterDuty{Slot: a.slot, ValidatorIndex: a.validator, CommitteeIndex: a.committee,
			ValidatorCommitteeIndex: a.position, CommitteeLength: a.length, CommitteesAtSlot: a.atSlot}
	}
	// the beacon node's order is its own
	if vnd.Bool("reversed") {
		for i, j := 0, n-1; i < j; i, j = i+1, j-1 {
			given[i], given[j] = given[j], given[i]
		}
	}
	duties, err := MergeDuties(context.Background(), given)
	vnd.Assert(err == nil, "C04.merge.accepted")
	slots := map[phase0.Slot]bool{}
	for _, a := range assigned {
		slots[a.slot] = true
	}
	vnd.Assert(len(duties) == len(slots), "C04.merge.one-duty-per-slot-with-validators")
	for i := 1; i < len(duties); i++ {
		vnd.Assert(duties[i-1].Slot() < duties[i].Slot(), "C04.merge.duties-in-slot-order-one-per-slot")
	}
	for _, a := range assigned {
		var d *Duty
		for _, c := range duties {
			if c.Slot() == a.slot {
				d = c
			}
		}
		vnd.Assert(d != nil, "C04.merge.validator-slot-has-a-duty")
		found := 0
		for k, v := range d.ValidatorIndices() {
			if v != a.validator {
				continue
			}
			found++
			vnd.Assert(d.CommitteeIndices()[k] == a.committee, "C04.merge.validator-keeps-its-committee-index")
			vnd.Assert(d.ValidatorCommitteeIndices()[k] == a.position, "C04.merge.validator-keeps-its-position")
		}
		vnd.Assert(found == 1, "C04.merge.validator-appears-once-in-its-slot")
		vnd.Assert(d.CommitteeSize(a.committee) == a.length, "C04.merge.committee-size-is-that-of-the-validators-own-slot")
		vnd.Assert(d.CommitteesAtSlot() == a.atSlot, "C04.merge.committees-at-slot-kept")
		for _, c := range duties {
			if c.Slot() != a.slot {
				for _, v := range c.ValidatorIndices() {
					vnd.Assert(v != a.validator, "C04.merge.validator-only-in-its-own-slot")
				}
			}
		}
	}
	if len(duties) == 2 {
		vnd.Cover("C04.merge.two-slots")
	}
}
