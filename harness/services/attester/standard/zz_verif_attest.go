//go:build verif

package standard

import (
	"context"
	"errors"

	"github.com/attestantio/go-eth2-client/api"
	"github.com/attestantio/go-eth2-client/spec/phase0"
	"github.com/attestantio/vouch/internal/vnd"
	"github.com/attestantio/vouch/internal/vstub"
	"github.com/attestantio/vouch/services/attester"
	nullmetrics "github.com/attestantio/vouch/services/metrics/null"
	e2wtypes "github.com/wealdtech/go-eth2-wallet-types/v2"
)

// ---- environment stubs -----------------------------------------------------

type hData struct {
	fail  bool
	data  *phase0.AttestationData
	calls int
	opts  []*api.AttestationDataOpts
}

func (h *hData) AttestationData(_ context.Context, opts *api.AttestationDataOpts) (*api.Response[*phase0.AttestationData], error) {
	h.calls++
	h.opts = append(h.opts, opts)
	if h.fail {
		return nil, errors.New("mock data failure")
	}
	return &api.Response[*phase0.AttestationData]{Data: h.data, Metadata: map[string]any{}}, nil
}

func ndAttestationData(prefix string) *phase0.AttestationData {
	return &phase0.AttestationData{
		Slot:            phase0.Slot(vnd.U64(prefix + ".slot")),
		Index:           phase0.CommitteeIndex(vnd.U64(prefix + ".index")),
		BeaconBlockRoot: phase0.Root(vnd.Root(prefix + ".root")),
		Source:          &phase0.Checkpoint{Epoch: phase0.Epoch(vnd.U64(prefix + ".source.epoch")), Root: phase0.Root(vnd.Root(prefix + ".source.root"))},
		Target:          &phase0.Checkpoint{Epoch: phase0.Epoch(vnd.U64(prefix + ".target.epoch")), Root: phase0.Root(vnd.Root(prefix + ".target.root"))},
	}
}

type hAccounts struct {
	fail    bool
	missing map[phase0.ValidatorIndex]bool // validators without an account
	calls   int
	epochs  []phase0.Epoch
	asked   [][]phase0.ValidatorIndex
	tags    uint64
}

func (h *hAccounts) ValidatingAccountsForEpochByIndex(_ context.Context, epoch phase0.Epoch, indices []phase0.ValidatorIndex) (map[phase0.ValidatorIndex]e2wtypes.Account, error) {
	h.calls++
	h.epochs = append(h.epochs, epoch)
	h.asked = append(h.asked, indices)
	if h.fail {
		return nil, errors.New("mock accounts failure")
	}
	res := make(map[phase0.ValidatorIndex]e2wtypes.Account)
	for _, idx := range indices {
		if h.missing[idx] {
			continue
		}
		h.tags++
		res[idx] = &vstub.Account{Tag: h.tags, VIndex: uint64(idx), Nm: "acc"}
	}
	return res, nil
}

func (h *hAccounts) ValidatingAccountsForEpoch(_ context.Context, _ phase0.Epoch) (map[phase0.ValidatorIndex]e2wtypes.Account, error) {
	return nil, errors.New("not used")
}

func (h *hAccounts) SyncCommitteeAccountsForEpoch(_ context.Context, _ phase0.Epoch) (map[phase0.ValidatorIndex]e2wtypes.Account, error) {
	return nil, errors.New("not used")
}

func (h *hAccounts) SyncCommitteeAccountsForEpochByIndex(_ context.Context, _ phase0.Epoch, _ []phase0.ValidatorIndex) (map[phase0.ValidatorIndex]e2wtypes.Account, error) {
	return nil, errors.New("not used")
}

type signCall struct {
	accounts         []e2wtypes.Account
	slot             phase0.Slot
	committeeIndices []phase0.CommitteeIndex
	blockRoot        phase0.Root
	sourceEpoch      phase0.Epoch
	sourceRoot       phase0.Root
	targetEpoch      phase0.Epoch
	targetRoot       phase0.Root
	sigs             []phase0.BLSSignature
}

type hSigner struct {
	fail  bool
	calls []*signCall
}

func (h *hSigner) SignBeaconAttestations(_ context.Context, accounts []e2wtypes.Account, slot phase0.Slot, committeeIndices []phase0.CommitteeIndex,
	blockRoot phase0.Root, sourceEpoch phase0.Epoch, sourceRoot phase0.Root, targetEpoch phase0.Epoch, targetRoot phase0.Root,
) ([]phase0.BLSSignature, error) {
	c := &signCall{accounts: accounts, slot: slot, committeeIndices: committeeIndices, blockRoot: blockRoot, sourceEpoch: sourceEpoch, sourceRoot: sourceRoot, targetEpoch: targetEpoch, targetRoot: targetRoot}
	h.calls = append(h.calls, c)
	if h.fail {
		return nil, errors.New("mock signer failure")
	}
	c.sigs = make([]phase0.BLSSignature, len(accounts))
	for i := range accounts {
		if !optNoZeroSig && vnd.Bool("sig.zero") {
			continue // zero signature: signer refused / failed for this account
		}
		// distinct non-zero signatures: byte 0 tags the position, byte 1 is free
		c.sigs[i][0] = byte(i + 1)
		c.sigs[i][1] = vnd.U8("sig.b1")
	}
	return c.sigs, nil
}

func (h *hSigner) SignBeaconAttestation(_ context.Context, _ e2wtypes.Account, _ phase0.Slot, _ phase0.CommitteeIndex, _ phase0.Root, _ phase0.Epoch, _ phase0.Root, _ phase0.Epoch, _ phase0.Root) (phase0.BLSSignature, error) {
	return phase0.BLSSignature{}, errors.New("not used")
}

type hSubmitter struct {
	fail  bool
	calls [][]*phase0.Attestation
}

func (h *hSubmitter) SubmitAttestations(_ context.Context, atts []*phase0.Attestation) error {
	h.calls = append(h.calls, atts)
	if h.fail {
		return errors.New("mock submit failure")
	}
	return nil
}

// hSpec is the chain specification New reads SLOTS_PER_EPOCH from.
type hSpec struct {
	spec map[string]any
}

func (h *hSpec) Spec(_ context.Context, _ *api.SpecOpts) (*api.Response[map[string]any], error) {
	return &api.Response[map[string]any]{Data: h.spec, Metadata: map[string]any{}}, nil
}

// ---- duty and service construction ------------------------------------------

// attNew builds the attester the way main does: through New, the slots per
// epoch coming from the chain specification.
func attNew(e *attEnv) *Service {
	s, err := New(context.Background(),
		WithLogLevel(vnd.LogLevel()),
		WithMonitor(&nullmetrics.Service{}),
		WithProcessConcurrency(2),
		WithSpecProvider(&hSpec{spec: map[string]any{"SLOTS_PER_EPOCH": e.ct.SPE}}),
		WithChainTime(e.ct),
		WithValidatingAccountsProvider(e.accts),
		WithAttestationDataProvider(e.data),
		WithAttestationsSubmitter(e.sub),
		WithBeaconAttestationsSigner(e.signer),
	)
	vnd.Assert(err == nil && s != nil, optProperty+".new.accepted")
	return s
}

type ndDutyInfo struct {
	duty  *attester.Duty
	vals  []phase0.ValidatorIndex
	comms []phase0.CommitteeIndex
	pos   []uint64
	sizes map[phase0.CommitteeIndex]uint64
	slot  phase0.Slot
}

var committeeSizeChoices = []uint64{1, 9}

// harness dimension switches (each harness makes symbolic only what its
// obligations depend on; the rest is fixed to keep the path count bounded)
var (
	optSimpleCommittees bool // every validator in committee 0 of size 9, position = its rank
	optValidData        bool // attestation data valid for the duty by construction
	optNoMissing        bool // every validator has an account
	optNoZeroSig        bool // the signer signs for every account
	optEpochPresent     bool // attested[epoch] exists in the pre-state

	optProperty = "C01" // the property the running harness belongs to (label of the New obligation)
)

// ndDuty builds a duty of n validators with symbolic indices, committees and
// positions; committee sizes are chosen from {1,8,9} per distinct committee.
func ndDuty(n int) *ndDutyInfo {
	d := &ndDutyInfo{sizes: map[phase0.CommitteeIndex]uint64{}}
	d.slot = phase0.Slot(vnd.U64("duty.slot"))
	vnd.Assume(uint64(d.slot) < 1<<40)
	for i := 0; i < n; i++ {
		v := phase0.ValidatorIndex(vnd.U64("duty.validator"))
		var c phase0.CommitteeIndex
		var p uint64
		if optSimpleCommittees {
			c, p = 0, uint64(i)
			d.sizes[c] = 9
		} else {
			c = phase0.CommitteeIndex(vnd.U64("duty.committee"))
			vnd.Assume(uint64(c) < 64)
			if _, ok := d.sizes[c]; !ok {
				d.sizes[c] = committeeSizeChoices[vnd.Choose("duty.csize", len(committeeSizeChoices))]
			}
			p = vnd.U64("duty.position")
			vnd.Assume(p < d.sizes[c])
		}
		d.vals = append(d.vals, v)
		d.comms = append(d.comms, c)
		d.pos = append(d.pos, p)
	}
	// the duty gets lists of its own: the oracle's record of what was assigned (d.vals, d.comms,
	// d.pos) must not change when the code under test writes to the duty it is handed
	sizes := map[phase0.CommitteeIndex]uint64{}
	for k, v := range d.sizes {
		sizes[k] = v
	}
	duty, err := attester.NewDuty(context.Background(), d.slot, 64, append([]phase0.ValidatorIndex(nil), d.vals...),
		append([]phase0.CommitteeIndex(nil), d.comms...), append([]uint64(nil), d.pos...), sizes)
	vnd.Assume(err == nil)
	d.duty = duty
	return d
}

// unchanged reports whether the duty still says what it was built with.
func (d *ndDutyInfo) unchanged() bool {
	vs, cs, ps := d.duty.ValidatorIndices(), d.duty.CommitteeIndices(), d.duty.ValidatorCommitteeIndices()
	if len(vs) != len(d.vals) || len(cs) != len(d.comms) || len(ps) != len(d.pos) {
		return false
	}
	same := true
	for i := range d.vals {
		same = vnd.And(same, vnd.And(vs[i] == d.vals[i], vnd.And(cs[i] == d.comms[i], ps[i] == d.pos[i])))
	}
	return same
}

// assigned reports whether the duty assigns committee c to validator v.
func (d *ndDutyInfo) assigned(v phase0.ValidatorIndex, c phase0.CommitteeIndex) bool {
	r := false
	for i := range d.vals {
		r = vnd.Or(r, vnd.And(d.vals[i] == v, d.comms[i] == c))
	}
	return r
}

// firstOccurrence returns the duty position at which validator v first appears.
func (d *ndDutyInfo) firstOccurrence(v phase0.ValidatorIndex) int {
	for i := range d.vals {
		if d.vals[i] == v {
			return i
		}
	}
	return -1
}

type attEnv struct {
	s      *Service
	ct     *vstub.ChainTime
	data   *hData
	accts  *hAccounts
	signer *hSigner
	sub    *hSubmitter
	pre    map[phase0.ValidatorIndex]bool // attested before the run (duty epoch)
}

func newAttEnv(d *ndDutyInfo, withFailures bool) *attEnv {
	e := &attEnv{ct: vstub.NewChainTime(64), pre: map[phase0.ValidatorIndex]bool{}}
	e.data = &hData{data: ndAttestationData("data")}
	if optValidData {
		e.data.data.Slot = d.slot
		e.data.data.Target.Epoch = phase0.Epoch(uint64(d.slot) / e.ct.SPE)
		vnd.Assume(e.data.data.Source.Epoch <= e.data.data.Target.Epoch)
	}
	e.accts = &hAccounts{missing: map[phase0.ValidatorIndex]bool{}}
	e.signer = &hSigner{}
	e.sub = &hSubmitter{}
	if withFailures {
		// at most one step fails (an earlier failure ends the run before the
		// later steps, so combinations add nothing)
		switch vnd.Choose("failpoint", 5) {
		case 1:
			e.data.fail = true
		case 2:
			e.accts.fail = true
		case 3:
			e.signer.fail = true
		case 4:
			e.sub.fail = true
		}
	}
	e.s = attNew(e)
	// New leaves the attested set empty; its arbitrary pre-state is filled in
	// below and by the harnesses
	epoch := phase0.Epoch(uint64(d.slot) / e.ct.SPE)
	// arbitrary pre-state of the attested set for the duty epoch
	if optEpochPresent || vnd.Bool("pre.epoch-present") {
		e.s.attested[epoch] = map[phase0.ValidatorIndex]struct{}{}
		for i, v := range d.vals {
			if d.firstOccurrence(v) != i {
				continue
			}
			if vnd.Bool("pre.attested") {
				e.s.attested[epoch][v] = struct{}{}
				e.pre[v] = true
			}
		}
	}
	for i, v := range d.vals {
		if d.firstOccurrence(v) != i {
			continue
		}
		if !optNoMissing && vnd.Bool("acct.missing") {
			e.accts.missing[v] = true
		}
	}
	return e
}

// ---- C04 --------------------------------------------------------------------

// VerifC04_Attest: every signing request entry and every submitted attestation
// carries the assignment of its own validator and the obtained data.
func VerifC04_Attest() {
	optProperty = "C04"
	optValidData, optEpochPresent = true, true
	c04Attest(vnd.IntRange("n", 1, 2))
}

// VerifC04_Attest3: three validators (thorough tier), one committee size.
func VerifC04_Attest3() {
	optProperty = "C04"
	committeeSizeChoices = []uint64{9}
	optValidData, optEpochPresent = true, true
	c04Attest(3)
}

func c04Attest(n int) {
	d := ndDuty(n)
	e := newAttEnv(d, false)
	atts, err := e.s.Attest(context.Background(), d.duty)
	_ = err
	vnd.Assert(d.unchanged(), "C04.duty-handed-in-is-left-as-it-was")

	skipped := false
	for i, v := range d.vals {
		if d.firstOccurrence(v) == i && (e.pre[v] || e.accts.missing[v]) {
			skipped = true
		}
	}
	vnd.Assert(len(e.signer.calls) <= 1, "C04.single-sign-call")
	if len(e.signer.calls) == 0 {
		vnd.Assert(len(e.sub.calls) == 0, "C04.no-submit-without-signing")
		return
	}
	call := e.signer.calls[0]
	vnd.Assert(len(call.accounts) == len(call.committeeIndices), "C04.sign.lengths")
	// data handed to the signer is the obtained data
	vnd.Assert(call.slot == d.slot, "C04.sign.slot")
	vnd.Assert(call.blockRoot == e.data.data.BeaconBlockRoot, "C04.sign.block-root")
	vnd.Assert(call.sourceEpoch == e.data.data.Source.Epoch && call.sourceRoot == e.data.data.Source.Root, "C04.sign.source")
	vnd.Assert(call.targetEpoch == e.data.data.Target.Epoch && call.targetRoot == e.data.data.Target.Root, "C04.sign.target")
	expected := 0
	for i, acc := range call.accounts {
		a := acc.(*vstub.Account)
		v := phase0.ValidatorIndex(a.VIndex)
		k := d.firstOccurrence(v)
		vnd.Assert(k >= 0, "C04.sign.validator-in-duty")
		vnd.Assert(!e.pre[v] && !e.accts.missing[v], "C04.sign.only-eligible")
		vnd.Assert(d.assigned(v, call.committeeIndices[i]), "C04.sign.committee-of-own-validator")
		if !call.sigs[i].IsZero() {
			expected++
		}
	}
	if skipped && len(call.accounts) > 0 {
		vnd.Cover("C04.some-validator-skipped-and-one-attests")
	}
	// submitted attestations
	var submitted []*phase0.Attestation
	if len(e.sub.calls) > 0 {
		vnd.Assert(len(e.sub.calls) == 1, "C04.single-submit-call")
		submitted = e.sub.calls[0]
	}
	vnd.Assert(len(submitted) == expected, "C04.one-attestation-per-signature")
	if err == nil {
		vnd.Assert(len(atts) == len(submitted), "C04.returned-equals-submitted")
	}
	for _, a := range submitted {
		// identify the validator through the signature tag
		i := int(a.Signature[0]) - 1
		vnd.Assert(i >= 0 && i < len(call.accounts), "C04.att.signature-known")
		vnd.Assert(a.Signature == call.sigs[i], "C04.att.signature-of-own-account")
		acc := call.accounts[i].(*vstub.Account)
		// the assignment is that of some occurrence k of the validator in the duty
		// (the same k for committee, size and position); with a duplicated
		// validator either occurrence is accepted.
		v := phase0.ValidatorIndex(acc.VIndex)
		vnd.Assert(a.Data.Index == call.committeeIndices[i], "C04.att.committee-index-as-signed")
		okAssignment := false
		blen := a.AggregationBits.Len()
		for k := range d.vals {
			size := d.sizes[d.comms[k]]
			if blen != size {
				continue
			}
			m := vnd.And(d.vals[k] == v, d.comms[k] == a.Data.Index)
			for j := uint64(0); j < size; j++ {
				m = vnd.And(m, a.AggregationBits.BitAt(j) == (j == d.pos[k]))
			}
			okAssignment = vnd.Or(okAssignment, m)
		}
		vnd.Assert(okAssignment, "C04.att.assignment-of-own-validator")
		vnd.Assert(a.Data.Slot == d.slot, "C04.att.slot")
		vnd.Assert(a.Data.BeaconBlockRoot == e.data.data.BeaconBlockRoot, "C04.att.block-root")
		vnd.Assert(a.Data.Source.Epoch == e.data.data.Source.Epoch && a.Data.Source.Root == e.data.data.Source.Root, "C04.att.source")
		vnd.Assert(a.Data.Target.Epoch == e.data.data.Target.Epoch && a.Data.Target.Root == e.data.data.Target.Root, "C04.att.target")
		vnd.Cover("C04.attestation-checked")
	}
}

// ---- C01 --------------------------------------------------------------------

// VerifC01_Step: one Attest run from an arbitrary attested pre-state with any
// failure in between (inductive step of "at most one signature per validator
// and epoch").
func VerifC01_Step() {
	optSimpleCommittees, optNoMissing, optNoZeroSig = true, true, true
	c01Step(vnd.IntRange("n", 1, 2))
}

// VerifC01_Step3 is the thorough-tier variant with up to three validators.
func VerifC01_Step3() {
	optSimpleCommittees, optNoMissing, optNoZeroSig = true, true, true
	c01Step(3)
}

// VerifC01_StepSkips: the inductive step with missing accounts and refused
// signatures (data valid).
func VerifC01_StepSkips() {
	optSimpleCommittees, optValidData = true, true
	c01Step(vnd.IntRange("n", 1, 2))
}

func c01Step(n int) {
	d := ndDuty(n)
	e := newAttEnv(d, true)
	epoch := phase0.Epoch(uint64(d.slot) / e.ct.SPE)
	// the previous epoch in the pre-state, with a marker validator
	const marker = phase0.ValidatorIndex(1 << 62)
	if epoch >= 1 {
		e.s.attested[epoch-1] = map[phase0.ValidatorIndex]struct{}{marker: {}}
	}
	// a newer epoch in the pre-state (a round of a later epoch marked its
	// validators before this, older, round finishes): any distance ahead
	ahead := phase0.Epoch(vnd.U64("ahead"))
	vnd.Assume(ahead >= 1 && ahead < 1<<20)
	e.s.attested[epoch+ahead] = map[phase0.ValidatorIndex]struct{}{marker: {}}
	_, err := e.s.Attest(context.Background(), d.duty)

	vnd.Assert(len(e.signer.calls) <= 1, "C01.step.single-sign-call")
	if len(e.signer.calls) == 1 {
		vnd.Cover("C01.step.signed")
		call := e.signer.calls[0]
		for i, acc := range call.accounts {
			v := phase0.ValidatorIndex(acc.(*vstub.Account).VIndex)
			vnd.Assert(!e.pre[v], "C01.step.never-sign-already-attested")
			vnd.Assert(d.firstOccurrence(v) >= 0, "C01.step.sign-only-duty-validators")
			for j := 0; j < i; j++ {
				vnd.Assert(call.accounts[j].(*vstub.Account).VIndex != uint64(v), "C01.step.validator-once-per-call")
			}
		}
		// the data signed satisfies the duty's constraints
		dt := e.data.data
		vnd.Assert(dt.Slot == d.slot, "C01.data.slot-is-duty-slot")
		vnd.Assert(uint64(dt.Target.Epoch) == uint64(d.slot)/e.ct.SPE, "C01.data.target-epoch-is-duty-epoch")
		vnd.Assert(dt.Source.Epoch <= dt.Target.Epoch, "C01.data.source-not-above-target")
		vnd.Assert(call.slot == d.slot && call.targetEpoch == dt.Target.Epoch && call.sourceEpoch == dt.Source.Epoch, "C01.data.signed-values-are-the-data")
	} else {
		dt := e.data.data
		bad := dt.Slot != d.slot || uint64(dt.Target.Epoch) != uint64(d.slot)/e.ct.SPE || dt.Source.Epoch > dt.Target.Epoch
		if !e.data.fail && !e.accts.fail && bad {
			vnd.Cover("C01.data.refused")
			vnd.Assert(err != nil, "C01.data.refusal-is-an-error")
		}
	}
	if e.data.fail || e.accts.fail || e.signer.fail || e.sub.fail {
		vnd.Cover("C01.step.failure-in-between")
	}
	// marked-before-signed and marks survive every outcome
	ep, ok := e.s.attested[epoch]
	vnd.Assert(ok, "C01.step.epoch-entry-exists")
	for _, v := range d.vals {
		_, marked := ep[v]
		vnd.Assert(marked, "C01.step.every-duty-validator-marked-after-any-outcome")
	}
	// housekeeping never touches the previous epoch
	if epoch >= 1 {
		prev, ok := e.s.attested[epoch-1]
		_, m := prev[marker]
		vnd.Assert(ok && m, "C01.step.previous-epoch-kept")
	}
	// ... nor any newer epoch
	later, ok := e.s.attested[epoch+ahead]
	_, m := later[marker]
	vnd.Assert(ok && m, "C01.step.newer-epoch-marks-kept")
	vnd.Assert(vnd.HeldLocks() == 0, "C01.step.locks-released")
}

// VerifC01_Twice: two runs for the same epoch (re-delivery after a reorg, a
// retry after a failure, or a second duty naming the same validators).
func VerifC01_Twice() {
	optSimpleCommittees, optNoMissing, optNoZeroSig, optValidData = true, true, true, true
	n := vnd.IntRange("n", 1, 2)
	d1 := ndDuty(n)
	e := newAttEnv(d1, true)
	_, _ = e.s.Attest(context.Background(), d1.duty)
	// second duty: same epoch, any slot of it, any validators
	d2 := ndDuty(vnd.IntRange("n2", 1, 2))
	vnd.Assume(uint64(d2.slot)/e.ct.SPE == uint64(d1.slot)/e.ct.SPE)
	e.data.data.Slot = d2.slot
	// failures of the second run are independent
	e.data.fail, e.accts.fail, e.signer.fail, e.sub.fail = false, false, false, false
	switch vnd.Choose("failpoint2", 3) {
	case 1:
		e.data.fail = true
	case 2:
		e.signer.fail = true
	}
	_, _ = e.s.Attest(context.Background(), d2.duty)
	signed := map[uint64]int{}
	for _, call := range e.signer.calls {
		for _, acc := range call.accounts {
			signed[acc.(*vstub.Account).VIndex]++
		}
	}
	for _, c := range signed {
		vnd.Assert(c <= 1, "C01.twice.at-most-one-signature-request-per-validator-and-epoch")
	}
	if len(e.signer.calls) == 2 {
		vnd.Cover("C01.twice.both-runs-signed")
	}
}

// VerifC01_Housekeep: housekeeping after a successful run removes only the
// entry two epochs back.
func VerifC01_Housekeep() {
	optSimpleCommittees, optNoMissing, optNoZeroSig, optValidData, optEpochPresent = true, true, true, true, true
	d := ndDuty(1)
	e := newAttEnv(d, false)
	epoch := phase0.Epoch(uint64(d.slot) / e.ct.SPE)
	vnd.Assume(epoch >= 3)
	const marker = phase0.ValidatorIndex(1 << 62)
	for back := phase0.Epoch(1); back <= 3; back++ {
		e.s.attested[epoch-back] = map[phase0.ValidatorIndex]struct{}{marker: {}}
	}
	_, err := e.s.Attest(context.Background(), d.duty)
	if err == nil {
		vnd.Cover("C01.housekeep.success")
		_, ok1 := e.s.attested[epoch-1]
		_, ok2 := e.s.attested[epoch-2]
		vnd.Assert(ok1, "C01.housekeep.previous-epoch-kept")
		vnd.Assert(!ok2, "C01.housekeep.two-epochs-back-dropped")
		_, ok0 := e.s.attested[epoch]
		vnd.Assert(ok0, "C01.housekeep.current-epoch-kept")
	}
}

// VerifC16_AttestOddDuties: duties with a position outside the committee, an
// empty committee or duplicated validators never crash attesting.
func VerifC16_AttestOddDuties() {
	optProperty = "C16"
	optValidData, optEpochPresent, optNoMissing = true, true, true
	n := vnd.IntRange("n", 1, 2)
	d := &ndDutyInfo{sizes: map[phase0.CommitteeIndex]uint64{}}
	d.slot = phase0.Slot(vnd.U64("duty.slot"))
	vnd.Assume(uint64(d.slot) < 1<<40)
	sizes := []uint64{0, 1, 9}
	for i := 0; i < n; i++ {
		v := phase0.ValidatorIndex(vnd.U64("duty.validator"))
		c := phase0.CommitteeIndex(vnd.Choose("duty.committee", 2))
		if _, ok := d.sizes[c]; !ok {
			d.sizes[c] = sizes[vnd.Choose("duty.csize", len(sizes))]
		}
		p := vnd.U64("duty.position") // not constrained by the committee size
		vnd.Assume(p < 64)
		d.vals = append(d.vals, v)
		d.comms = append(d.comms, c)
		d.pos = append(d.pos, p)
	}
	duty, err := attester.NewDuty(context.Background(), d.slot, 64, d.vals, d.comms, d.pos, d.sizes)
	vnd.Assume(err == nil)
	d.duty = duty
	e := newAttEnv(d, false)
	_, _ = e.s.Attest(context.Background(), d.duty)
	vnd.Cover("C16.attest.survived")
}

// VerifC20_AttestedBounded: after a successful run for epoch e the attested
// bookkeeping holds nothing older than e-1, whatever older epochs it held
// before (skipped epochs, epochs whose attestations all failed).
func VerifC20_AttestedBounded() {
	optProperty = "C20"
	optSimpleCommittees, optNoMissing, optNoZeroSig, optValidData, optEpochPresent = true, true, true, true, true
	d := ndDuty(1)
	e := newAttEnv(d, false)
	epoch := phase0.Epoch(uint64(d.slot) / e.ct.SPE)
	vnd.Assume(epoch >= 6)
	const marker = phase0.ValidatorIndex(1 << 62)
	for back := phase0.Epoch(1); back <= 5; back++ {
		if vnd.Bool("older-epoch-present") {
			e.s.attested[epoch-back] = map[phase0.ValidatorIndex]struct{}{marker: {}}
		}
	}
	_, err := e.s.Attest(context.Background(), d.duty)
	vnd.Assume(err == nil)
	for k := range e.s.attested {
		vnd.Assert(k+1 >= epoch, "C20.attested.nothing-older-than-previous-epoch-after-a-successful-run")
	}
	vnd.Cover("C20.attested.checked")
}

// VerifC17_TwoAttests: two attestation runs overlapping (duties of the same
// epoch naming a common validator) have no unsynchronised conflicting accesses,
// and the common validator is signed for at most once (C01 under overlap).
func VerifC17_TwoAttests() {
	optProperty = "C17"
	// (the epoch may or may not have an attested set yet: the first rounds of an epoch overlap too)
	optSimpleCommittees, optNoMissing, optNoZeroSig, optValidData, optEpochPresent = true, true, true, true, false
	d1 := ndDuty(1)
	e := newAttEnv(d1, false)
	// second duty: another slot of the same epoch, possibly the same validator
	d2 := &ndDutyInfo{sizes: map[phase0.CommitteeIndex]uint64{0: 9}, slot: d1.slot}
	d2.vals = []phase0.ValidatorIndex{phase0.ValidatorIndex(vnd.U64("second.validator"))}
	d2.comms, d2.pos = []phase0.CommitteeIndex{0}, []uint64{1}
	d2.duty, _ = attester.NewDuty(context.Background(), d2.slot, 64, d2.vals, d2.comms, d2.pos, d2.sizes)
	go func() { _, _ = e.s.Attest(context.Background(), d1.duty) }()
	go func() { _, _ = e.s.Attest(context.Background(), d2.duty) }()
	left := vnd.Quiesce()
	vnd.Assert(left == 0, "C17.attest.everything-returns")
	signed := 0
	for _, c := range e.signer.calls {
		for _, a := range c.accounts {
			if a.(*vstub.Account).VIndex == uint64(d1.vals[0]) {
				signed++
			}
		}
	}
	vnd.Assert(signed <= 1, "C01.overlap.common-validator-signed-at-most-once")
	vnd.Cover("C17.attest.overlap-explored")
}
