//go:build verif

package standard

import (
	"context"
	"encoding/binary"
	"errors"
	"github.com/prysmaticlabs/go-bitfield"

	"github.com/attestantio/go-builder-client/api"
	apiv1 "github.com/attestantio/go-builder-client/api/v1"
	"github.com/attestantio/go-builder-client/spec"
	clientapi "github.com/attestantio/go-eth2-client/api"
	"github.com/attestantio/go-eth2-client/spec/altair"
	"github.com/attestantio/go-eth2-client/spec/bellatrix"
	"github.com/attestantio/go-eth2-client/spec/phase0"
	"github.com/attestantio/vouch/internal/vnd"
	"github.com/attestantio/vouch/internal/vstub"
	"github.com/google/uuid"
	e2types "github.com/wealdtech/go-eth2-types/v2"
	e2wtypes "github.com/wealdtech/go-eth2-wallet-types/v2"
)

// ---- signature and account stubs ---------------------------------------------
// A stub signature is a digest of (who signed, what kind of request, the bytes
// signed, the domain): equal digests <=> the same signing request.

type vSig struct{ b [96]byte }

func (s *vSig) Verify(_ []byte, _ e2types.PublicKey) bool                  { return true }
func (s *vSig) VerifyAggregate(_ [][]byte, _ []e2types.PublicKey) bool     { return true }
func (s *vSig) VerifyAggregateCommon(_ []byte, _ []e2types.PublicKey) bool { return true }
func (s *vSig) Marshal() []byte                                            { return s.b[:] }

type vKey struct{}

func (k *vKey) Marshal() []byte               { return make([]byte, 48) }
func (k *vKey) Aggregate(_ e2types.PublicKey) {}
func (k *vKey) Copy() e2types.PublicKey       { return k }

const (
	kindPlain   = 2
	kindGeneric = 1
	kindAtt     = 3
	kindBlock   = 4
)

func digest(tag byte, kind byte, data []byte, domain []byte) *vSig {
	s := &vSig{}
	s.b[0], s.b[1] = tag, kind
	copy(s.b[2:6], data[0:4])
	s.b[6] = data[31]
	if domain != nil {
		copy(s.b[8:20], domain[0:12])
	}
	return s
}

// c06AttAsked counts, per account tag, the attestation signatures the signer service asked the account
// (or the remote signer on its behalf) for during the run.
var c06AttAsked [8]int

// accBase: identity only.
type accBase struct {
	tag     byte
	signErr bool
}

func (a *accBase) ID() uuid.UUID                { return uuid.UUID{} }
func (a *accBase) Name() string                 { return "acc" }
func (a *accBase) PublicKey() e2types.PublicKey { return &vKey{} }

// accPlain: AccountSigner only.
type accPlain struct{ accBase }

func (a *accPlain) Sign(_ context.Context, data []byte) (e2types.Signature, error) {
	if a.signErr {
		return nil, errors.New("mock sign error")
	}
	c06AttAsked[a.tag&7]++
	return digest(a.tag, kindPlain, data, nil), nil
}

func attDigest(tag byte, slot, committee uint64, blockRoot []byte, sourceEpoch uint64, sourceRoot []byte, targetEpoch uint64, targetRoot []byte, domain []byte) *vSig {
	s := &vSig{}
	s.b[0], s.b[1] = tag, kindAtt
	binary.LittleEndian.PutUint64(s.b[20:28], slot)
	binary.LittleEndian.PutUint64(s.b[28:36], committee)
	copy(s.b[36:40], blockRoot[0:4])
	binary.LittleEndian.PutUint64(s.b[40:48], sourceEpoch)
	copy(s.b[48:52], sourceRoot[0:4])
	binary.LittleEndian.PutUint64(s.b[52:60], targetEpoch)
	copy(s.b[60:64], targetRoot[0:4])
	copy(s.b[8:20], domain[0:12])
	return s
}

// accMulti: protecting single and multi signer (remote signer style).
type accMulti struct {
	accBase
	nilSigFor map[byte]bool // accounts for which the multi-signer returns no signature
}

func tagOf(a e2wtypes.Account) byte {
	switch x := a.(type) {
	case *accPlain:
		return x.tag
	case *accMulti:
		return x.tag
	case *accDist:
		return x.tag
	}
	return 0xff
}

func (a *accMulti) SignGeneric(_ context.Context, data []byte, domain []byte) (e2types.Signature, error) {
	if a.signErr {
		return nil, errors.New("mock sign error")
	}
	return digest(a.tag, kindGeneric, data, domain), nil
}
func (a *accMulti) SignBeaconProposal(_ context.Context, slot uint64, proposerIndex uint64, parentRoot, stateRoot, bodyRoot, domain []byte) (e2types.Signature, error) {
	if a.signErr {
		return nil, errors.New("mock sign error")
	}
	s := &vSig{}
	s.b[0], s.b[1] = a.tag, kindBlock
	binary.LittleEndian.PutUint64(s.b[20:28], slot)
	binary.LittleEndian.PutUint64(s.b[28:36], proposerIndex)
	copy(s.b[36:40], parentRoot[0:4])
	copy(s.b[40:44], stateRoot[0:4])
	copy(s.b[44:48], bodyRoot[0:4])
	copy(s.b[8:20], domain[0:12])
	return s, nil
}
func (a *accMulti) SignBeaconAttestation(_ context.Context, slot, committee uint64, blockRoot []byte, sourceEpoch uint64, sourceRoot []byte, targetEpoch uint64, targetRoot []byte, domain []byte) (e2types.Signature, error) {
	if a.signErr {
		return nil, errors.New("mock sign error")
	}
	c06AttAsked[a.tag&7]++
	return attDigest(a.tag, slot, committee, blockRoot, sourceEpoch, sourceRoot, targetEpoch, targetRoot, domain), nil
}
func (a *accMulti) SignBeaconAttestations(_ context.Context, slot uint64, accounts []e2wtypes.Account, committees []uint64, blockRoot []byte, sourceEpoch uint64, sourceRoot []byte, targetEpoch uint64, targetRoot []byte, domain []byte) ([]e2types.Signature, error) {
	if a.signErr {
		return nil, errors.New("mock sign error")
	}
	res := make([]e2types.Signature, len(accounts))
	for i := range accounts {
		c06AttAsked[tagOf(accounts[i])&7]++
		if a.nilSigFor[tagOf(accounts[i])] {
			continue
		}
		res[i] = attDigest(tagOf(accounts[i]), slot, committees[i], blockRoot, sourceEpoch, sourceRoot, targetEpoch, targetRoot, domain)
	}
	return res, nil
}
func (a *accMulti) SignGenericMulti(_ context.Context, accounts []e2wtypes.Account, data [][]byte, domain []byte) ([]e2types.Signature, error) {
	if a.signErr {
		return nil, errors.New("mock sign error")
	}
	res := make([]e2types.Signature, len(accounts))
	for i := range accounts {
		if a.nilSigFor[tagOf(accounts[i])] {
			continue
		}
		res[i] = digest(tagOf(accounts[i]), kindGeneric, data[i], domain)
	}
	return res, nil
}

// accDist: distributed account (threshold signing), multi-signer.
type accDist struct{ accMulti }

func (a *accDist) CompositePublicKey() e2types.PublicKey { return &vKey{} }
func (a *accDist) SigningThreshold() uint32              { return 2 }
func (a *accDist) Participants() map[uint64]string       { return map[uint64]string{1: "a", 2: "b", 3: "c"} }

// ---- domain provider -----------------------------------------------------------

type domCall struct {
	typ     phase0.DomainType
	epoch   phase0.Epoch
	genesis bool
}

type vDomains struct {
	fail  bool
	calls []domCall
}

func mkDomain(t phase0.DomainType, epoch uint64, genesis bool) phase0.Domain {
	var d phase0.Domain
	copy(d[0:4], t[:])
	binary.LittleEndian.PutUint64(d[4:12], epoch)
	if genesis {
		d[31] = 0x77
	}
	return d
}

func (v *vDomains) Domain(_ context.Context, t phase0.DomainType, epoch phase0.Epoch) (phase0.Domain, error) {
	v.calls = append(v.calls, domCall{typ: t, epoch: epoch})
	if v.fail {
		return phase0.Domain{}, errors.New("mock domain failure")
	}
	return mkDomain(t, uint64(epoch), false), nil
}
func (v *vDomains) GenesisDomain(_ context.Context, t phase0.DomainType) (phase0.Domain, error) {
	v.calls = append(v.calls, domCall{typ: t, genesis: true})
	if v.fail {
		return phase0.Domain{}, errors.New("mock domain failure")
	}
	return mkDomain(t, 0, true), nil
}

// consensus / builder spec domain types
var (
	dtProposer     = phase0.DomainType{0, 0, 0, 0}
	dtAttester     = phase0.DomainType{1, 0, 0, 0}
	dtRandao       = phase0.DomainType{2, 0, 0, 0}
	dtSelection    = phase0.DomainType{5, 0, 0, 0}
	dtAggAndProof  = phase0.DomainType{6, 0, 0, 0}
	dtSyncComm     = phase0.DomainType{7, 0, 0, 0}
	dtSyncSel      = phase0.DomainType{8, 0, 0, 0}
	dtContribution = phase0.DomainType{9, 0, 0, 0}
	dtBuilder      = phase0.DomainType{0, 0, 0, 1}
)

const c06SPE = 32

// c06Spec answers the constructor's spec query with the consensus / builder
// spec values above.
type c06Spec struct{}

func (c06Spec) Spec(_ context.Context, _ *clientapi.SpecOpts) (*clientapi.Response[map[string]any], error) {
	return &clientapi.Response[map[string]any]{Data: map[string]any{
		"SLOTS_PER_EPOCH":                       uint64(c06SPE),
		"DOMAIN_BEACON_PROPOSER":                dtProposer,
		"DOMAIN_BEACON_ATTESTER":                dtAttester,
		"DOMAIN_RANDAO":                         dtRandao,
		"DOMAIN_SELECTION_PROOF":                dtSelection,
		"DOMAIN_AGGREGATE_AND_PROOF":            dtAggAndProof,
		"DOMAIN_SYNC_COMMITTEE":                 dtSyncComm,
		"DOMAIN_SYNC_COMMITTEE_SELECTION_PROOF": dtSyncSel,
		"DOMAIN_CONTRIBUTION_AND_PROOF":         dtContribution,
		"DOMAIN_APPLICATION_BUILDER":            dtBuilder,
	}, Metadata: map[string]any{}}, nil
}

// c06Service builds the service through its constructor, which fetches
// SLOTS_PER_EPOCH and the domain types from the spec provider.
func c06Service(d *vDomains) *Service {
	s, err := New(context.Background(), WithLogLevel(vnd.LogLevel()), WithMonitor(struct{}{}), WithClientMonitor(vstub.ClientMonitor{}),
		WithSpecProvider(c06Spec{}), WithDomainProvider(d))
	vnd.Assert(err == nil && s != nil, "C06.new.accepted")
	return s
}

// expectedSig is the reference: what the spec says account `tag` of the given
// kind must have been asked to sign for message root `root` under `domain`.
func expectedGeneric(tag byte, plain bool, root phase0.Root, domain phase0.Domain) phase0.BLSSignature {
	var out phase0.BLSSignature
	if plain {
		c := phase0.SigningData{ObjectRoot: root, Domain: domain}
		sr, _ := c.HashTreeRoot()
		copy(out[:], digest(tag, kindPlain, sr[:], nil).b[:])
	} else {
		copy(out[:], digest(tag, kindGeneric, root[:], domain[:]).b[:])
	}
	return out
}

// ndAccounts builds n accounts: each distributed or ordinary; ordinary accounts
// are all plain or all remote multi-signers.
// At most one of them (any position) is refused by the remote signer: its entry of the answer is nil
// (a slashing protection denial, a key that is not available); refused[i] says which.
func ndAccounts(n int) ([]e2wtypes.Account, []bool, bool, []bool) {
	ordinaryPlain := vnd.Bool("ordinary.plain")
	nilFor := map[byte]bool{}
	refused := make([]bool, n)
	if r := vnd.Choose("signer.refuses.account", n+1); r > 0 {
		nilFor[byte(r)] = true
		refused[r-1] = true
	}
	accs := make([]e2wtypes.Account, n)
	dist := make([]bool, n)
	for i := 0; i < n; i++ {
		tag := byte(i + 1)
		dist[i] = vnd.Bool("distributed")
		switch {
		case dist[i]:
			accs[i] = &accDist{accMulti{accBase: accBase{tag: tag}, nilSigFor: nilFor}}
		case ordinaryPlain:
			accs[i] = &accPlain{accBase{tag: tag}}
			refused[i] = false // a local account signs itself
		default:
			accs[i] = &accMulti{accBase: accBase{tag: tag}, nilSigFor: nilFor}
		}
	}
	return accs, dist, ordinaryPlain, refused
}

func le32(v uint64) phase0.Root {
	var r phase0.Root
	binary.LittleEndian.PutUint64(r[:8], v)
	return r
}

// VerifC06_Attestations: batch attestation signing, any mixture and order of kinds.
func VerifC06_Attestations() { c06Attestations(vnd.IntRange("n", 1, 2)) }

func VerifC06_Attestations3() { c06Attestations(3) }

func VerifC06_Attestations4() { c06Attestations(4) }

func c06Attestations(n int) {
	c06AttAsked = [8]int{}
	d := &vDomains{}
	s := c06Service(d)
	accs, dist, plain, refused := ndAccounts(n)
	slot := phase0.Slot(vnd.U64("slot"))
	comms := make([]phase0.CommitteeIndex, n)
	for i := range comms {
		comms[i] = phase0.CommitteeIndex(vnd.U64("committee"))
	}
	blockRoot, sourceRoot, targetRoot := phase0.Root(vnd.Root("block")), phase0.Root(vnd.Root("source")), phase0.Root(vnd.Root("target"))
	sourceEpoch, targetEpoch := phase0.Epoch(vnd.U64("source.epoch")), phase0.Epoch(vnd.U64("target.epoch"))
	// what was asked for, kept apart from the slices handed to the signer: the expectations below are
	// computed from this record (the i-th message is the i-th message of the request as it was made)
	asked := make([]phase0.CommitteeIndex, n)
	copy(asked, comms)
	askedAccs := make([]e2wtypes.Account, n)
	copy(askedAccs, accs)
	sigs, err := s.SignBeaconAttestations(context.Background(), accs, slot, comms, blockRoot, sourceEpoch, sourceRoot, targetEpoch, targetRoot)
	vnd.Assert(err == nil && len(sigs) == n, "C06.attestations.ok")
	for i := 0; i < n; i++ {
		// one request to sign an attestation per account and call (C01: at most one attestation signature
		// per validator and epoch - a second request for the same data is a second signature asked for)
		vnd.Assert(c06AttAsked[(i+1)&7] == 1, "C01.signer.one-attestation-signature-asked-per-account")
	}
	comms, accs = asked, askedAccs
	vnd.Assert(len(d.calls) >= 1, "C06.attestations.domain-fetched")
	for _, c := range d.calls {
		vnd.Assert(c.typ == dtAttester && uint64(c.epoch) == uint64(slot)/c06SPE && !c.genesis, "C06.attestations.attester-domain-of-slot-epoch")
	}
	domain := mkDomain(dtAttester, uint64(slot)/c06SPE, false)
	for i := 0; i < n; i++ {
		var want phase0.BLSSignature
		if !dist[i] && plain {
			ad := &phase0.AttestationData{Slot: slot, Index: comms[i], BeaconBlockRoot: blockRoot,
				Source: &phase0.Checkpoint{Epoch: sourceEpoch, Root: sourceRoot}, Target: &phase0.Checkpoint{Epoch: targetEpoch, Root: targetRoot}}
			root, _ := ad.HashTreeRoot()
			want = expectedGeneric(byte(i+1), true, root, domain)
		} else {
			copy(want[:], attDigest(byte(i+1), uint64(slot), uint64(comms[i]), blockRoot[:], uint64(sourceEpoch), sourceRoot[:], uint64(targetEpoch), targetRoot[:], domain[:]).b[:])
		}
		if refused[i] {
			// the signer produced nothing for this account: nothing may stand in its place
			vnd.Assert(sigs[i] == phase0.BLSSignature{}, "C06.attestations.no-signature-in-the-place-of-a-refused-account")
			continue
		}
		vnd.Assert(sigs[i] == want, "C06.attestations.ith-signature-is-ith-accounts-over-its-own-message")
	}
	vnd.Cover("C06.attestations.checked")
}

// VerifC06_Roots: the root-based batch signers (slot selection, sync committee
// root, sync committee selection, contribution and proof).
func VerifC06_Roots() { c06Roots(vnd.IntRange("n", 1, 2)) }

func VerifC06_Roots3() { c06Roots(3) }

func VerifC06_Roots4() { c06Roots(4) }

func c06Roots(n int) {
	d := &vDomains{}
	s := c06Service(d)
	accs, dist, plain, refused := ndAccounts(n)
	slot := phase0.Slot(vnd.U64("slot"))
	which := vnd.Choose("function", 4)
	var sigs []phase0.BLSSignature
	var err error
	roots := make([]phase0.Root, n)
	var dt phase0.DomainType
	epoch := uint64(slot) / c06SPE
	switch which {
	case 0: // slot selection proofs: uint64(slot) as 32-byte little endian
		sigs, err = s.SignSlotSelections(context.Background(), accs, slot)
		for i := range roots {
			roots[i] = le32(uint64(slot))
		}
		dt = dtSelection
	case 1: // sync committee message: the block root, domain of the given epoch
		e := phase0.Epoch(vnd.U64("epoch"))
		r := phase0.Root(vnd.Root("head"))
		sigs, err = s.SignSyncCommitteeRoots(context.Background(), accs, e, r)
		for i := range roots {
			roots[i] = r
		}
		dt, epoch = dtSyncComm, uint64(e)
	case 2: // sync committee selection proofs
		subs := make([]uint64, n)
		for i := range subs {
			subs[i] = vnd.U64("subcommittee")
			sd := &altair.SyncAggregatorSelectionData{Slot: slot, SubcommitteeIndex: subs[i]}
			roots[i], _ = sd.HashTreeRoot()
		}
		sigs, err = s.SignSyncCommitteeSelections(context.Background(), accs, slot, subs)
		dt = dtSyncSel
	case 3: // contribution and proof: domain of the contribution's slot
		caps := make([]*altair.ContributionAndProof, n)
		for i := range caps {
			caps[i] = &altair.ContributionAndProof{AggregatorIndex: phase0.ValidatorIndex(vnd.U64("aggregator")),
				Contribution: &altair.SyncCommitteeContribution{Slot: slot, BeaconBlockRoot: phase0.Root(vnd.Root("cbr")), AggregationBits: bitfield.NewBitvector128(), SubcommitteeIndex: uint64(vnd.Choose("contribution.subcommittee", 2))}} // several aggregators may share a subcommittee
			roots[i], _ = caps[i].HashTreeRoot()
		}
		sigs, err = s.SignContributionAndProofs(context.Background(), accs, caps)
		dt = dtContribution
	}
	vnd.Assert(err == nil && len(sigs) == n, "C06.roots.ok")
	vnd.Assert(len(d.calls) == 1 && d.calls[0].typ == dt && uint64(d.calls[0].epoch) == epoch && !d.calls[0].genesis, "C06.roots.domain-type-and-epoch-of-the-duty")
	domain := mkDomain(dt, epoch, false)
	for i := 0; i < n; i++ {
		want := expectedGeneric(byte(i+1), !dist[i] && plain, roots[i], domain)
		if refused[i] {
			vnd.Assert(sigs[i] == phase0.BLSSignature{}, "C06.roots.no-signature-in-the-place-of-a-refused-account")
			continue
		}
		vnd.Assert(sigs[i] == want, "C06.roots.ith-signature-is-ith-accounts-over-its-own-root")
	}
	vnd.Cover("C06.roots.checked")
}

// VerifC06_Singles: single-account signers.
func VerifC06_Singles() {
	d := &vDomains{}
	s := c06Service(d)
	plain := vnd.Bool("plain")
	var acc e2wtypes.Account
	if plain {
		acc = &accPlain{accBase{tag: 9}}
	} else {
		acc = &accMulti{accBase: accBase{tag: 9}}
	}
	slot := phase0.Slot(vnd.U64("slot"))
	epoch := uint64(slot) / c06SPE
	var sig, want phase0.BLSSignature
	var err error
	var dt phase0.DomainType
	genesis := false
	switch vnd.Choose("function", 5) {
	case 0: // RANDAO reveal: uint64(epoch) as 32-byte little endian
		sig, err = s.SignRANDAOReveal(context.Background(), acc, slot)
		dt = dtRandao
		want = expectedGeneric(9, plain, le32(epoch), mkDomain(dt, epoch, false))
	case 1: // block proposal
		vi := phase0.ValidatorIndex(vnd.U64("proposer"))
		pr, sr, br := phase0.Root(vnd.Root("parent")), phase0.Root(vnd.Root("state")), phase0.Root(vnd.Root("body"))
		sig, err = s.SignBeaconBlockProposal(context.Background(), acc, slot, vi, pr, sr, br)
		dt = dtProposer
		dom := mkDomain(dt, epoch, false)
		if plain {
			h := &phase0.BeaconBlockHeader{Slot: slot, ProposerIndex: vi, ParentRoot: pr, StateRoot: sr, BodyRoot: br}
			root, _ := h.HashTreeRoot()
			want = expectedGeneric(9, true, root, dom)
		} else {
			ref, _ := (&accMulti{accBase: accBase{tag: 9}}).SignBeaconProposal(context.Background(), uint64(slot), uint64(vi), pr[:], sr[:], br[:], dom[:])
			copy(want[:], ref.Marshal())
		}
	case 2: // aggregate and proof
		r := phase0.Root(vnd.Root("aggregate-and-proof"))
		sig, err = s.SignAggregateAndProof(context.Background(), acc, slot, r)
		dt = dtAggAndProof
		want = expectedGeneric(9, plain, r, mkDomain(dt, epoch, false))
	case 3: // single attestation
		ci := phase0.CommitteeIndex(vnd.U64("committee"))
		br, sr, tr := phase0.Root(vnd.Root("block")), phase0.Root(vnd.Root("source")), phase0.Root(vnd.Root("target"))
		se, te := phase0.Epoch(vnd.U64("source.epoch")), phase0.Epoch(vnd.U64("target.epoch"))
		sig, err = s.SignBeaconAttestation(context.Background(), acc, slot, ci, br, se, sr, te, tr)
		dt = dtAttester
		dom := mkDomain(dt, epoch, false)
		if plain {
			ad := &phase0.AttestationData{Slot: slot, Index: ci, BeaconBlockRoot: br, Source: &phase0.Checkpoint{Epoch: se, Root: sr}, Target: &phase0.Checkpoint{Epoch: te, Root: tr}}
			root, _ := ad.HashTreeRoot()
			want = expectedGeneric(9, true, root, dom)
		} else {
			copy(want[:], attDigest(9, uint64(slot), uint64(ci), br[:], uint64(se), sr[:], uint64(te), tr[:], dom[:]).b[:])
		}
	case 4: // validator registration: builder domain, genesis fork
		reg := &api.VersionedValidatorRegistration{Version: spec.BuilderVersionV1, V1: &apiv1.ValidatorRegistration{
			FeeRecipient: bellatrix.ExecutionAddress(vnd.Addr("fee-recipient")), GasLimit: vnd.U64("gas-limit"), Pubkey: phase0.BLSPubKey(vnd.PubKey("pubkey"))}}
		sig, err = s.SignValidatorRegistration(context.Background(), acc, reg)
		dt, genesis, epoch = dtBuilder, true, 0
		root, _ := reg.V1.HashTreeRoot()
		want = expectedGeneric(9, plain, root, mkDomain(dt, 0, true))
	}
	vnd.Assert(err == nil, "C06.single.ok")
	vnd.Assert(len(d.calls) == 1 && d.calls[0].typ == dt && d.calls[0].genesis == genesis && (genesis || uint64(d.calls[0].epoch) == epoch), "C06.single.domain-type-and-epoch-of-the-duty")
	vnd.Assert(sig == want, "C06.single.signature-over-the-spec-signing-root")
	vnd.Cover("C06.single.checked")
}
