//go:build verif

package standard

import (
	"context"
	"errors"
	"github.com/attestantio/go-eth2-client/spec"
	"github.com/attestantio/go-eth2-client/spec/capella"

	eth2client "github.com/attestantio/go-eth2-client"
	"github.com/attestantio/go-eth2-client/api"
	apiv1 "github.com/attestantio/go-eth2-client/api/v1"
	"github.com/attestantio/go-eth2-client/spec/phase0"
	"github.com/attestantio/vouch/internal/vnd"
	"github.com/attestantio/vouch/internal/vstub"
	"github.com/attestantio/vouch/services/chaintime"
	nullmetrics "github.com/attestantio/vouch/services/metrics/null"
)

type c18Headers struct {
	calls int
	fail  bool
	slot  phase0.Slot
	asked string
	// the fetched block's parent (any root) and the slot of that parent block (any earlier slot:
	// there may be empty slots in between)
	parent     phase0.Root
	parentSlot phase0.Slot
	// the rest of the environment the constructor was given
	blocks *c18Blocks
	events *c18Events
	sched  *vstub.Scheduler
}

// c18Events records the handlers the constructor subscribes.
type c18Events struct {
	topics   []string
	handlers []eth2client.EventHandlerFunc
}

func (e *c18Events) Events(_ context.Context, topics []string, handler eth2client.EventHandlerFunc) error {
	for _, t := range topics {
		e.topics = append(e.topics, t)
		e.handlers = append(e.handlers, handler)
	}
	return nil
}

// deliver hands an event to the handler subscribed for its topic.
func (e *c18Events) deliver(event *apiv1.Event) {
	delivered := 0
	for i, t := range e.topics {
		if t == event.Topic {
			delivered++
			e.handlers[i](event)
		}
	}
	vnd.Assert(delivered == 1, "C18.new.one-handler-per-topic")
}

// c18New builds the service through its constructor: at that moment the head
// block cannot be fetched (the chain is not ready), so that the service starts
// without an execution head as a directly built one did; the constructor
// subscribes to block and head events and registers the periodic cleaning job.
func c18New(ct chaintime.Service, h *c18Headers) *Service {
	h.blocks = &c18Blocks{fail: true}
	h.events = &c18Events{}
	h.sched = &vstub.Scheduler{}
	s, err := New(context.Background(), WithLogLevel(vnd.LogLevel()), WithMonitor(&nullmetrics.Service{}),
		WithChainTime(ct), WithSignedBeaconBlockProvider(h.blocks), WithBeaconBlockHeadersProvider(h),
		WithEventsProvider(h.events), WithScheduler(h.sched))
	vnd.Assert(err == nil && s != nil, "C18.new.accepted")
	return s
}

// clean fires the periodic cleaning job the constructor registered.
func (h *c18Headers) clean() {
	vnd.Assert(len(h.sched.Periodic) == 1, "C18.new.one-periodic-cleaning-job")
	h.sched.Periodic[0].Fn(context.Background())
}

var _ eth2client.BeaconBlockHeadersProvider = (*c18Headers)(nil)

func (h *c18Headers) BeaconBlockHeader(_ context.Context, opts *api.BeaconBlockHeaderOpts) (*api.Response[*apiv1.BeaconBlockHeader], error) {
	h.calls++
	h.asked = opts.Block
	if h.fail {
		return nil, errors.New("mock fetch failure")
	}
	return &api.Response[*apiv1.BeaconBlockHeader]{
		Data: &apiv1.BeaconBlockHeader{
			Header: &phase0.SignedBeaconBlockHeader{Message: &phase0.BeaconBlockHeader{Slot: h.slot, ParentRoot: h.parent}},
		},
		Metadata: map[string]any{},
	}, nil
}

// c18Cache builds a service with an arbitrary cache of n entries with pairwise
// distinct roots.
func c18Cache(n int) (*Service, []phase0.Root, []phase0.Slot, *c18Headers) {
	h := &c18Headers{fail: vnd.Bool("fetch.fail"), slot: phase0.Slot(vnd.U64("fetch.slot"))}
	h.parent, h.parentSlot = phase0.Root(vnd.Root("fetch.parent")), phase0.Slot(vnd.U64("fetch.parent-slot"))
	vnd.Assume(h.parentSlot < h.slot || h.slot == 0)
	s := c18New(vstub.NewChainTime(64), h)
	// an arbitrary pre-state of the cache
	roots := make([]phase0.Root, n)
	slots := make([]phase0.Slot, n)
	for i := 0; i < n; i++ {
		roots[i] = phase0.Root(vnd.Root("root"))
		slots[i] = phase0.Slot(vnd.U64("slot"))
		for j := 0; j < i; j++ {
			vnd.Assume(roots[i] != roots[j])
		}
		s.blockRootToSlot[roots[i]] = slots[i]
	}
	return s, roots, slots, h
}

// VerifC18_Lookup: one lookup from an arbitrary cache state (inductive step).
func VerifC18_Lookup() {
	n := vnd.IntRange("n", 0, 3)
	s, roots, slots, h := c18Cache(n)
	q := phase0.Root(vnd.Root("query"))
	hit := -1
	for i := range roots {
		if roots[i] == q {
			hit = i
		}
	}
	got, err := s.BlockRootToSlot(context.Background(), q)
	switch {
	case hit >= 0:
		vnd.Cover("C18.hit")
		vnd.Assert(err == nil, "C18.hit.noerror")
		vnd.Assert(got == slots[hit], "C18.hit.slot")
		vnd.Assert(h.calls == 0, "C18.hit.nofetch")
	case h.fail:
		vnd.Cover("C18.miss-fail")
		vnd.Assert(err != nil, "C18.missfail.error")
		vnd.Assert(h.calls == 1, "C18.missfail.fetched-once")
		_, stored := s.blockRootToSlot[q]
		vnd.Assert(!stored, "C18.missfail.nothing-stored")
	default:
		vnd.Cover("C18.miss-ok")
		vnd.Assert(err == nil, "C18.missok.noerror")
		vnd.Assert(got == h.slot, "C18.missok.returns-fetched-slot")
		st, stored := s.blockRootToSlot[q]
		vnd.Assert(stored && st == h.slot, "C18.missok.stored")
		vnd.Assert(h.asked == q.String(), "C18.missok.asked-for-root")
	}
	// whatever else the lookup put into the cache is right too: the fetched block's parent, if it
	// is there now and was not before, is there with the parent block's own slot
	known := h.parent == q
	for i := range roots {
		known = known || roots[i] == h.parent
	}
	if pst, stored := s.blockRootToSlot[h.parent]; stored && !known {
		vnd.Assert(pst == h.parentSlot, "C18.lookup.entries-added-are-right")
	}
	// other entries untouched
	for i := range roots {
		st, ok := s.blockRootToSlot[roots[i]]
		vnd.Assert(ok && st == slots[i], "C18.lookup.others-untouched")
	}
	vnd.Assert(vnd.HeldLocks() == 0, "C18.lookup.locks-released")
}

// VerifC18_Clean: one cleaning run from an arbitrary cache state.
func VerifC18_Clean() {
	n := vnd.IntRange("n", 0, 3)
	s, roots, slots, h := c18Cache(n)
	ct := s.chainTime.(*vstub.ChainTime)
	curEpoch := uint64(ct.Cur) / ct.SPE
	h.clean()
	for i := range roots {
		st, ok := s.blockRootToSlot[roots[i]]
		if curEpoch <= 64 {
			vnd.Assert(ok && st == slots[i], "C18.clean.nothing-before-epoch-64")
			continue
		}
		minSlot := (curEpoch - 64) * ct.SPE
		if uint64(slots[i]) < minSlot {
			vnd.Cover("C18.clean.removed")
			vnd.Assert(!ok, "C18.clean.old-removed")
		} else {
			vnd.Cover("C18.clean.kept")
			vnd.Assert(ok && st == slots[i], "C18.clean.recent-kept")
		}
	}
	vnd.Assert(len(s.blockRootToSlot) <= n, "C18.clean.no-new-entries")
	vnd.Assert(vnd.HeldLocks() == 0, "C18.clean.locks-released")
}

// VerifC18_Set: SetBlockRootToSlot (block event path) from an arbitrary state.
func VerifC18_Set() {
	n := vnd.IntRange("n", 0, 2)
	s, roots, slots, h := c18Cache(n)
	r := phase0.Root(vnd.Root("newroot"))
	sl := phase0.Slot(vnd.U64("newslot"))
	s.SetBlockRootToSlot(r, sl)
	got, err := s.BlockRootToSlot(context.Background(), r)
	vnd.Assert(err == nil && got == sl, "C18.set.then-lookup")
	vnd.Assert(h.calls == 0, "C18.set.no-fetch")
	for i := range roots {
		if roots[i] != r {
			st, ok := s.blockRootToSlot[roots[i]]
			vnd.Assert(ok && st == slots[i], "C18.set.others-untouched")
		}
	}
	vnd.Cover("C18.set")
}

// VerifC18_BlockEvent: a block event (any root, any slot, at any position of the
// local clock, earlier or later than the event's slot) from an arbitrary cache
// state; the next lookup of that root is answered from the cache with the
// event's slot. An event without data changes nothing.
func VerifC18_BlockEvent() {
	n := vnd.IntRange("n", 0, 2)
	s, roots, slots, h := c18Cache(n)
	if vnd.Bool("event.without-data") {
		h.events.deliver(&apiv1.Event{Topic: "block"})
		vnd.Assert(len(s.blockRootToSlot) == n, "C18.event.no-data-no-change")
		return
	}
	r := phase0.Root(vnd.Root("event.root"))
	sl := phase0.Slot(vnd.U64("event.slot"))
	h.events.deliver(&apiv1.Event{Topic: "block", Data: &apiv1.BlockEvent{Slot: sl, Block: r}})
	got, err := s.BlockRootToSlot(context.Background(), r)
	vnd.Assert(err == nil && got == sl, "C18.event.then-lookup-returns-the-events-slot")
	vnd.Assert(h.calls == 0, "C18.event.no-fetch")
	for i := range roots {
		if roots[i] != r {
			st, ok := s.blockRootToSlot[roots[i]]
			vnd.Assert(ok && st == slots[i], "C18.event.others-untouched")
		}
	}
	vnd.Cover("C18.event")
}

type c18Blocks struct {
	block *spec.VersionedSignedBeaconBlock
	fail  bool
}

func (b *c18Blocks) SignedBeaconBlock(_ context.Context, _ *api.SignedBeaconBlockOpts) (*api.Response[*spec.VersionedSignedBeaconBlock], error) {
	if b.fail {
		return nil, errors.New("mock block fetch failure")
	}
	return &api.Response[*spec.VersionedSignedBeaconBlock]{Data: b.block, Metadata: map[string]any{}}, nil
}

// VerifC18_HeadEvent: a head event (any slot; its block has any parent, with any
// number of empty slots in between; the block fetch may fail) leaves the
// root-to-slot entries right: a later lookup of the parent still returns the
// cached slot, or the parent block's own slot when it was not cached.
func VerifC18_HeadEvent() {
	n := vnd.IntRange("n", 0, 2)
	s, roots, slots, h := c18Cache(n)
	headSlot := phase0.Slot(vnd.U64("head.slot"))
	parent := phase0.Root(vnd.Root("head.parent"))
	// from now on the node answers block requests (or fails again)
	h.blocks.fail = vnd.Bool("block-fetch.fail")
	h.blocks.block = &spec.VersionedSignedBeaconBlock{Version: spec.DataVersionCapella,
		Capella: &capella.SignedBeaconBlock{Message: &capella.BeaconBlock{Slot: headSlot, ParentRoot: parent,
			Body: &capella.BeaconBlockBody{ExecutionPayload: &capella.ExecutionPayload{BlockNumber: vnd.U64("el.height"), StateRoot: [32]byte{1}}}}}}
	h.events.deliver(&apiv1.Event{Topic: "head", Data: &apiv1.HeadEvent{Slot: headSlot, Block: phase0.Root(vnd.Root("head.root"))}})
	for i := range roots {
		st, ok := s.blockRootToSlot[roots[i]]
		vnd.Assert(ok && st == slots[i], "C18.head.entries-untouched")
	}
	calls := h.calls
	got, err := s.BlockRootToSlot(context.Background(), parent)
	known := -1
	for i := range roots {
		if roots[i] == parent {
			known = i
		}
	}
	if known >= 0 {
		vnd.Cover("C18.head.parent-cached")
		vnd.Assert(err == nil && got == slots[known] && h.calls == calls, "C18.head.cached-parent-slot-still-served")
	} else if !h.fail {
		// whatever the handler chose to remember, the answer is the parent block's own slot
		vnd.Cover("C18.head.parent-not-cached-before")
		vnd.Assert(err == nil && got == h.slot, "C18.head.uncached-parent-gets-its-own-slot")
	}
}

// VerifC17_CacheOverlap: block events, lookups (hit and miss) and cleaning
// overlapping one another have no unsynchronised conflicting accesses.
func VerifC17_CacheOverlap() {
	s, roots, _, _ := c18Cache(2)
	ct := s.chainTime.(*vstub.ChainTime)
	_ = ct
	q := roots[0]
	if vnd.Bool("query-miss") {
		q = phase0.Root{0xee}
	}
	go s.SetBlockRootToSlot(phase0.Root{0xaa}, 5)
	go func() { _, _ = s.BlockRootToSlot(context.Background(), q) }()
	go s.cleanBlockRootToSlot(context.Background())
	left := vnd.Quiesce()
	vnd.Assert(left == 0, "C17.cache.everything-returns")
	vnd.Cover("C17.cache.overlap-explored")
}
