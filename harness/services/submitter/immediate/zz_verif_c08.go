//go:build verif

package immediate

import (
	"context"
	"errors"

	"github.com/attestantio/go-eth2-client/api"
	apiv1 "github.com/attestantio/go-eth2-client/api/v1"
	"github.com/attestantio/go-eth2-client/spec"
	"github.com/attestantio/go-eth2-client/spec/altair"
	"github.com/attestantio/go-eth2-client/spec/capella"
	"github.com/attestantio/go-eth2-client/spec/phase0"
	"github.com/attestantio/vouch/internal/vnd"
	"github.com/attestantio/vouch/internal/vstub"
)

// one node per submission kind, each recording what it is offered
type c08Node struct {
	kind    int
	reject  bool
	offered []any
}

func (n *c08Node) Name() string    { return "node" }
func (n *c08Node) Address() string { return "node" }
func (n *c08Node) IsActive() bool  { return true }
func (n *c08Node) IsSynced() bool  { return true }
func (n *c08Node) take(x any) error {
	n.offered = append(n.offered, x)
	if n.reject {
		return errors.New("mock node rejection")
	}
	return nil
}
func (n *c08Node) SubmitProposal(_ context.Context, o *api.SubmitProposalOpts) error {
	return n.take(o.Proposal)
}
func (n *c08Node) SubmitAttestations(_ context.Context, x []*phase0.Attestation) error {
	return n.take(x)
}
func (n *c08Node) SubmitBeaconCommitteeSubscriptions(_ context.Context, x []*apiv1.BeaconCommitteeSubscription) error {
	return n.take(x)
}
func (n *c08Node) SubmitAggregateAttestations(_ context.Context, x []*phase0.SignedAggregateAndProof) error {
	return n.take(x)
}
func (n *c08Node) SubmitProposalPreparations(_ context.Context, x []*apiv1.ProposalPreparation) error {
	return n.take(x)
}
func (n *c08Node) SubmitSyncCommitteeMessages(_ context.Context, x []*altair.SyncCommitteeMessage) error {
	return n.take(x)
}
func (n *c08Node) SubmitSyncCommitteeSubscriptions(_ context.Context, x []*apiv1.SyncCommitteeSubscription) error {
	return n.take(x)
}
func (n *c08Node) SubmitSyncCommitteeContributions(_ context.Context, x []*altair.SignedContributionAndProof) error {
	return n.take(x)
}

// VerifC08_Immediate: the single-node submitter, built by its constructor with
// one node per submission kind: a submission of kind k is offered, once and
// unchanged, to the node configured for kind k and to no other, and succeeds
// exactly when that node accepts; an empty submission is refused without
// bothering any node.
func VerifC08_Immediate() {
	nodes := make([]*c08Node, 8)
	for k := range nodes {
		nodes[k] = &c08Node{kind: k}
	}
	kind := vnd.Choose("kind", 8)
	nodes[kind].reject = vnd.Bool("node.rejects")
	s, err := New(context.Background(), WithLogLevel(vnd.LogLevel()), WithClientMonitor(vstub.ClientMonitor{}),
		WithProposalSubmitter(nodes[0]), WithAttestationsSubmitter(nodes[1]), WithBeaconCommitteeSubscriptionsSubmitter(nodes[2]),
		WithAggregateAttestationsSubmitter(nodes[3]), WithProposalPreparationsSubmitter(nodes[4]), WithSyncCommitteeMessagesSubmitter(nodes[5]),
		WithSyncCommitteeSubscriptionsSubmitter(nodes[6]), WithSyncCommitteeContributionsSubmitter(nodes[7]))
	vnd.Assert(err == nil && s != nil, "C08.immediate.constructed")
	if err != nil {
		return
	}
	empty := vnd.Bool("empty-submission")
	var payload any
	switch kind {
	case 0:
		var p *api.VersionedSignedProposal
		if !empty {
			p = &api.VersionedSignedProposal{Version: spec.DataVersionCapella, Capella: &capella.SignedBeaconBlock{Message: &capella.BeaconBlock{Slot: 7}}}
		}
		payload, err = p, s.SubmitProposal(context.Background(), p)
	case 1:
		var p []*phase0.Attestation
		if !empty {
			p = []*phase0.Attestation{{Data: &phase0.AttestationData{Slot: 7, Source: &phase0.Checkpoint{}, Target: &phase0.Checkpoint{}}}}
		}
		payload, err = p, s.SubmitAttestations(context.Background(), p)
	case 2:
		var p []*apiv1.BeaconCommitteeSubscription
		if !empty {
			p = []*apiv1.BeaconCommitteeSubscription{{Slot: 7}}
		}
		payload, err = p, s.SubmitBeaconCommitteeSubscriptions(context.Background(), p)
	case 3:
		var p []*phase0.SignedAggregateAndProof
		if !empty {
			p = []*phase0.SignedAggregateAndProof{{Message: &phase0.AggregateAndProof{Aggregate: &phase0.Attestation{Data: &phase0.AttestationData{Slot: 7}}}}}
		}
		payload, err = p, s.SubmitAggregateAttestations(context.Background(), p)
	case 4:
		var p []*apiv1.ProposalPreparation
		if !empty {
			p = []*apiv1.ProposalPreparation{{ValidatorIndex: 1}}
		}
		payload, err = p, s.SubmitProposalPreparations(context.Background(), p)
	case 5:
		var p []*altair.SyncCommitteeMessage
		if !empty {
			p = []*altair.SyncCommitteeMessage{{Slot: 7}}
		}
		payload, err = p, s.SubmitSyncCommitteeMessages(context.Background(), p)
	case 6:
		var p []*apiv1.SyncCommitteeSubscription
		if !empty {
			p = []*apiv1.SyncCommitteeSubscription{{ValidatorIndex: 1}}
		}
		payload, err = p, s.SubmitSyncCommitteeSubscriptions(context.Background(), p)
	case 7:
		var p []*altair.SignedContributionAndProof
		if !empty {
			p = []*altair.SignedContributionAndProof{{Message: &altair.ContributionAndProof{Contribution: &altair.SyncCommitteeContribution{Slot: 7}}}}
		}
		payload, err = p, s.SubmitSyncCommitteeContributions(context.Background(), p)
	}
	total := 0
	for _, n := range nodes {
		total += len(n.offered)
	}
	if empty {
		vnd.Cover("C08.immediate.empty")
		vnd.Assert(err != nil && total == 0, "C08.immediate.empty-submission-refused-without-a-node-call")
		return
	}
	vnd.Cover("C08.immediate.submitted")
	vnd.Assert(total == 1 && len(nodes[kind].offered) == 1, "C08.immediate.offered-once-to-the-node-of-its-kind-only")
	vnd.Assert((err != nil) == nodes[kind].reject, "C08.immediate.succeeds-exactly-when-the-node-accepts")
	_ = payload
}
