//go:build verif

package multinode

import (
	"context"
	"time"

	eth2client "github.com/attestantio/go-eth2-client"
	"github.com/attestantio/go-eth2-client/api"
	apiv1 "github.com/attestantio/go-eth2-client/api/v1"
	"github.com/attestantio/go-eth2-client/spec"
	"github.com/attestantio/go-eth2-client/spec/altair"
	"github.com/attestantio/go-eth2-client/spec/capella"
	"github.com/attestantio/go-eth2-client/spec/phase0"
	"github.com/attestantio/vouch/internal/vnd"
	"github.com/attestantio/vouch/internal/vstub"
)

// c08New builds the submitter the way main does: through New, every kind
// configured with the same nodes.
func c08New(timeout time.Duration, conc int64, nodes []*c08KNode) *Service {
	att := map[string]eth2client.AttestationsSubmitter{}
	agg := map[string]eth2client.AggregateAttestationsSubmitter{}
	prop := map[string]eth2client.ProposalSubmitter{}
	bsub := map[string]eth2client.BeaconCommitteeSubscriptionsSubmitter{}
	prep := map[string]eth2client.ProposalPreparationsSubmitter{}
	msg := map[string]eth2client.SyncCommitteeMessagesSubmitter{}
	contrib := map[string]eth2client.SyncCommitteeContributionsSubmitter{}
	ssub := map[string]eth2client.SyncCommitteeSubscriptionsSubmitter{}
	for _, nd := range nodes {
		att[nd.name], agg[nd.name], prop[nd.name], bsub[nd.name] = nd, nd, nd, nd
		prep[nd.name], msg[nd.name], contrib[nd.name], ssub[nd.name] = nd, nd, nd, nd
	}
	s, err := New(context.Background(), WithLogLevel(vnd.LogLevel()), WithClientMonitor(vstub.ClientMonitor{}),
		WithTimeout(timeout), WithProcessConcurrency(conc),
		WithAttestationsSubmitters(att), WithAggregateAttestationsSubmitters(agg), WithProposalSubmitters(prop),
		WithBeaconCommitteeSubscriptionsSubmitters(bsub), WithProposalPreparationsSubmitters(prep),
		WithSyncCommitteeMessagesSubmitters(msg), WithSyncCommitteeContributionsSubmitters(contrib),
		WithSyncCommitteeSubscriptionsSubmitters(ssub))
	vnd.Assert(err == nil && s != nil, "C08.new.accepts-a-complete-configuration")
	return s
}

const kAttestations = nKinds // the seventh kind of the repeated-submission harness

// VerifC08_Repeated: one submitter instance (built by New) is used for two
// submissions of the same kind, one after the other, as happens slot after
// slot. What a node did with the first submission - including never answering
// it - has no bearing on the second: each returns by the timeout and succeeds
// exactly when a node accepted it in time, with the process concurrency at its
// documented minimum (the number of nodes).
func VerifC08_Repeated() { c08Repeated(1) }

// VerifC08_Repeated2: the same with two nodes and a process concurrency of two.
func VerifC08_Repeated2() { c08Repeated(2) }

func c08Repeated(n int) {
	kind := vnd.Choose("kind", nKinds+1)
	timeout := time.Duration(vnd.I64("timeout"))
	vnd.Assume(timeout >= 2 && timeout <= 60000) // virtual nanoseconds
	nodes := make([]*c08KNode, n)
	for i := range nodes {
		nd := &c08KNode{}
		nd.name, nd.client, nd.errText = []string{"node-a", "node-b"}[i], "Lodestar/v1", "500: internal error"
		nodes[i] = nd
	}
	s := c08New(timeout, int64(n), nodes)
	for round := 0; round < 2; round++ {
		for _, nd := range nodes {
			nd.behave = []int{bAccept, bRejectOther, bHang}[vnd.Choose("behaviour", 3)]
			nd.latency, nd.cutOff, nd.versionFails = 0, false, false
			nd.client, nd.errText = "Lodestar/v1", "500: internal error"
			if kind == kAttestations && nd.behave == bRejectOther {
				// attestations: the rejection may be one Vouch tolerates from this client - provided the
				// node says which client it is when asked during this submission (it may not, this time)
				if vnd.Bool("rejection-is-a-tolerated-one") {
					nd.behave = bRejectTolerated
					nd.client, nd.errText = "Lighthouse/v5.1.0", "400: PriorAttestationKnown: already seen"
				}
				nd.versionFails = vnd.Bool("node-version.fails-this-time")
			}
			if nd.behave != bHang {
				nd.latency = time.Duration(vnd.I64("latency"))
				vnd.Assume(nd.latency >= 0 && nd.latency <= 120000)
			}
		}
		start := vnd.NowNs()
		var err error
		switch kind {
		case kAggregates:
			err = s.SubmitAggregateAttestations(context.Background(), []*phase0.SignedAggregateAndProof{{Message: &phase0.AggregateAndProof{Aggregate: &phase0.Attestation{Data: &phase0.AttestationData{Slot: 7}}}}})
		case kProposal:
			err = s.SubmitProposal(context.Background(), &api.VersionedSignedProposal{Version: spec.DataVersionCapella, Capella: &capella.SignedBeaconBlock{Message: &capella.BeaconBlock{Slot: 7}}})
		case kBeaconSubs:
			err = s.SubmitBeaconCommitteeSubscriptions(context.Background(), []*apiv1.BeaconCommitteeSubscription{{Slot: 7}})
		case kPreparations:
			err = s.SubmitProposalPreparations(context.Background(), []*apiv1.ProposalPreparation{{ValidatorIndex: 1}})
		case kContributions:
			err = s.SubmitSyncCommitteeContributions(context.Background(), []*altair.SignedContributionAndProof{{Message: &altair.ContributionAndProof{Contribution: &altair.SyncCommitteeContribution{Slot: 7}}}})
		case kSyncSubs:
			err = s.SubmitSyncCommitteeSubscriptions(context.Background(), []*apiv1.SyncCommitteeSubscription{{ValidatorIndex: 1}})
		case kAttestations:
			err = s.SubmitAttestations(context.Background(), []*phase0.Attestation{{Data: &phase0.AttestationData{Slot: 7, Source: &phase0.Checkpoint{}, Target: &phase0.Checkpoint{}}}})
		}
		elapsed := time.Duration(vnd.NowNs() - start)
		vnd.Assert(elapsed <= timeout, "C08.repeated.returns-within-timeout")
		// let the nodes that are going to answer do so before the next submission
		vnd.Quiesce()
		okInTime := false
		accepts := func(nd *c08KNode) bool {
			return nd.behave == bAccept || (nd.behave == bRejectTolerated && !nd.versionFails)
		}
		for _, nd := range nodes {
			if accepts(nd) {
				okInTime = vnd.Or(okInTime, nd.latency < timeout)
			}
		}
		if err == nil {
			vnd.Cover("C08.repeated.success")
			anyOk := false
			for _, nd := range nodes {
				if accepts(nd) {
					anyOk = vnd.Or(anyOk, nd.latency <= elapsed)
				}
			}
			vnd.Assert(anyOk, "C08.repeated.success-only-if-a-node-accepted")
		} else {
			vnd.Cover("C08.repeated.failure")
			vnd.Assert(!okInTime, "C08.repeated.failure-only-if-no-node-accepted-in-time")
		}
	}
}
