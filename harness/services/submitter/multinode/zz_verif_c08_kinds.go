//go:build verif

package multinode

import (
	"context"
	"time"

	"github.com/attestantio/go-eth2-client/api"
	apiv1 "github.com/attestantio/go-eth2-client/api/v1"
	"github.com/attestantio/go-eth2-client/spec"
	"github.com/attestantio/go-eth2-client/spec/altair"
	"github.com/attestantio/go-eth2-client/spec/capella"
	"github.com/attestantio/go-eth2-client/spec/phase0"
	"github.com/attestantio/vouch/internal/vnd"
)

// the submission kinds other than attestations and sync committee messages
const (
	kAggregates = iota
	kProposal
	kBeaconSubs
	kPreparations
	kContributions
	kSyncSubs
	nKinds
)

// c08KNode records what it is offered, per kind, then behaves like c08Node.
type c08KNode struct {
	c08Node
	offered []any // the payload objects handed to this node (one entry per call)
}

func (n *c08KNode) SubmitAggregateAttestations(ctx context.Context, x []*phase0.SignedAggregateAndProof) error {
	n.offered = append(n.offered, x)
	return n.actCtx(ctx)
}
func (n *c08KNode) SubmitProposal(ctx context.Context, o *api.SubmitProposalOpts) error {
	n.offered = append(n.offered, o.Proposal)
	return n.actCtx(ctx)
}
func (n *c08KNode) SubmitBeaconCommitteeSubscriptions(ctx context.Context, x []*apiv1.BeaconCommitteeSubscription) error {
	n.offered = append(n.offered, x)
	return n.actCtx(ctx)
}
func (n *c08KNode) SubmitProposalPreparations(ctx context.Context, x []*apiv1.ProposalPreparation) error {
	n.offered = append(n.offered, x)
	return n.actCtx(ctx)
}
func (n *c08KNode) SubmitSyncCommitteeContributions(ctx context.Context, x []*altair.SignedContributionAndProof) error {
	n.offered = append(n.offered, x)
	return n.actCtx(ctx)
}
func (n *c08KNode) SubmitSyncCommitteeSubscriptions(ctx context.Context, x []*apiv1.SyncCommitteeSubscription) error {
	n.offered = append(n.offered, x)
	return n.actCtx(ctx)
}

// VerifC08_Kinds: each of the six other submission kinds, two nodes: every
// node is offered exactly the payload, once; the submission succeeds exactly
// when a node accepted within the timeout, whatever the other node does
// (accept, reject, never answer), and returns by the timeout.
func VerifC08_Kinds() {
	kind := vnd.Choose("kind", nKinds)
	timeout := time.Duration(vnd.I64("timeout"))
	vnd.Assume(timeout >= 2 && timeout <= 60000) // virtual nanoseconds
	const n = 2
	nodes := make([]*c08KNode, n)
	conc := int64(vnd.IntRange("process-concurrency", n, 3))
	for i := 0; i < n; i++ {
		nd := &c08KNode{}
		nd.name, nd.client = []string{"node-a", "node-b"}[i], "Lodestar/v1"
		// accept, reject or never answer
		nd.behave = []int{bAccept, bRejectOther, bHang}[vnd.Choose("behaviour", 3)]
		nd.errText = "500: internal error"
		if nd.behave != bHang {
			nd.latency = time.Duration(vnd.I64("latency"))
			vnd.Assume(nd.latency >= 0 && nd.latency <= 120000)
		}
		nodes[i] = nd
	}
	s := c08New(timeout, conc, nodes)
	aggregates := []*phase0.SignedAggregateAndProof{{Message: &phase0.AggregateAndProof{Aggregate: &phase0.Attestation{Data: &phase0.AttestationData{Slot: 7}}}}, {Message: &phase0.AggregateAndProof{Aggregate: &phase0.Attestation{Data: &phase0.AttestationData{Slot: 7}}}}}
	proposal := &api.VersionedSignedProposal{Version: spec.DataVersionCapella, Capella: &capella.SignedBeaconBlock{Message: &capella.BeaconBlock{Slot: 7}}}
	beaconSubs := []*apiv1.BeaconCommitteeSubscription{{Slot: 7}, {Slot: 8}}
	preps := []*apiv1.ProposalPreparation{{ValidatorIndex: 1}, {ValidatorIndex: 2}}
	contribs := []*altair.SignedContributionAndProof{{Message: &altair.ContributionAndProof{Contribution: &altair.SyncCommitteeContribution{Slot: 7}}}, {Message: &altair.ContributionAndProof{Contribution: &altair.SyncCommitteeContribution{Slot: 7}}}}
	syncSubs := []*apiv1.SyncCommitteeSubscription{{ValidatorIndex: 1}, {ValidatorIndex: 2}}

	start := vnd.NowNs()
	var err error
	switch kind {
	case kAggregates:
		err = s.SubmitAggregateAttestations(context.Background(), aggregates)
	case kProposal:
		err = s.SubmitProposal(context.Background(), proposal)
	case kBeaconSubs:
		err = s.SubmitBeaconCommitteeSubscriptions(context.Background(), beaconSubs)
	case kPreparations:
		err = s.SubmitProposalPreparations(context.Background(), preps)
	case kContributions:
		err = s.SubmitSyncCommitteeContributions(context.Background(), contribs)
	case kSyncSubs:
		err = s.SubmitSyncCommitteeSubscriptions(context.Background(), syncSubs)
	}
	elapsed := time.Duration(vnd.NowNs() - start)
	vnd.Assert(elapsed <= timeout, "C08.kinds.returns-within-timeout")
	vnd.Quiesce()
	okInTime := false
	for _, nd := range nodes {
		vnd.Assert(len(nd.offered) == 1, "C08.kinds.every-node-offered-the-payload-once")
		if len(nd.offered) != 1 {
			continue
		}
		same := false
		switch kind {
		case kAggregates:
			x, ok := nd.offered[0].([]*phase0.SignedAggregateAndProof)
			same = ok && len(x) == 2 && x[0] == aggregates[0] && x[1] == aggregates[1]
		case kProposal:
			x, ok := nd.offered[0].(*api.VersionedSignedProposal)
			same = ok && x == proposal
		case kBeaconSubs:
			x, ok := nd.offered[0].([]*apiv1.BeaconCommitteeSubscription)
			same = ok && len(x) == 2 && x[0] == beaconSubs[0] && x[1] == beaconSubs[1]
		case kPreparations:
			x, ok := nd.offered[0].([]*apiv1.ProposalPreparation)
			same = ok && len(x) == 2 && x[0] == preps[0] && x[1] == preps[1]
		case kContributions:
			x, ok := nd.offered[0].([]*altair.SignedContributionAndProof)
			same = ok && len(x) == 2 && x[0] == contribs[0] && x[1] == contribs[1]
		case kSyncSubs:
			x, ok := nd.offered[0].([]*apiv1.SyncCommitteeSubscription)
			same = ok && len(x) == 2 && x[0] == syncSubs[0] && x[1] == syncSubs[1]
		}
		vnd.Assert(same, "C08.kinds.node-offered-exactly-the-payload")
		// a node that answers within the timeout is never cut off because another node was faster
		vnd.Assert(vnd.Implies(nd.latency < timeout, !nd.cutOff), "C08.kinds.delivery-to-a-slower-node-is-not-abandoned")
		if nd.behave == bAccept {
			okInTime = vnd.Or(okInTime, nd.latency < timeout)
		}
	}
	if err == nil {
		vnd.Cover("C08.kinds.success")
		anyOk := false
		for _, nd := range nodes {
			if nd.behave == bAccept {
				anyOk = vnd.Or(anyOk, nd.latency <= elapsed)
			}
		}
		vnd.Assert(anyOk, "C08.kinds.success-only-if-a-node-accepted")
	} else {
		vnd.Cover("C08.kinds.failure")
		vnd.Assert(!okInTime, "C08.kinds.failure-only-if-no-node-accepted-in-time")
	}
}
