//go:build verif

package multinode

import (
	"context"
	"errors"
	"time"

	eth2client "github.com/attestantio/go-eth2-client"
	"github.com/attestantio/go-eth2-client/api"
	"github.com/attestantio/go-eth2-client/spec/altair"
	"github.com/attestantio/go-eth2-client/spec/phase0"
	"github.com/attestantio/vouch/internal/vnd"
)

// node behaviours
const (
	bAccept = iota
	bRejectOther
	bRejectTolerated
	bHang
	nBehaviours
)

type c08Node struct {
	name     string
	client   string // node version string
	behave   int
	latency  time.Duration
	errText  string
	received [][]*phase0.Attestation
	msgs     [][]*altair.SyncCommitteeMessage
	cutOff   bool // the context it was called with was cancelled before it had answered
	// versionFails: the node does not answer the version request at the moment (restarting, unreachable)
	versionFails bool
	// versionLatency: how long the node takes over the version request (every time it is asked)
	versionLatency time.Duration
}

// answered: the instant, counted from the start of the submission, at which the node's answer has been
// received and classified: the version request made ahead of the submission, the submission, and for a
// rejection the version request made to classify it.
func (n *c08Node) answered() time.Duration {
	t := n.versionLatency + n.latency
	if n.behave == bRejectOther || n.behave == bRejectTolerated {
		t += n.versionLatency
	}
	return t
}

func (n *c08Node) Name() string    { return n.name }
func (n *c08Node) Address() string { return n.name }
func (n *c08Node) IsActive() bool  { return true }
func (n *c08Node) IsSynced() bool  { return true }
func (n *c08Node) NodeVersion(ctx context.Context, _ *api.NodeVersionOpts) (*api.Response[string], error) {
	if n.versionLatency > 0 {
		select {
		case <-ctx.Done():
			return nil, ctx.Err()
		case <-time.After(n.versionLatency):
		}
	}
	if n.versionFails {
		return nil, errors.New("mock node version failure")
	}
	return &api.Response[string]{Data: n.client, Metadata: map[string]any{}}, nil
}

func (n *c08Node) act() error {
	if n.behave == bHang {
		select {} // never answers
	}
	vnd.Sleep(n.latency)
	switch n.behave {
	case bRejectOther, bRejectTolerated:
		return errors.New(n.errText)
	}
	return nil
}

// actCtx behaves like act but, like a real HTTP client, gives up when its
// context is cancelled.
func (n *c08Node) actCtx(ctx context.Context) error {
	if n.behave == bHang {
		<-ctx.Done()
		return ctx.Err()
	}
	select {
	case <-ctx.Done():
		n.cutOff = true
		return ctx.Err()
	case <-time.After(n.latency):
	}
	switch n.behave {
	case bRejectOther, bRejectTolerated:
		return errors.New(n.errText)
	}
	return nil
}

func (n *c08Node) SubmitAttestations(ctx context.Context, atts []*phase0.Attestation) error {
	n.received = append(n.received, atts)
	return n.actCtx(ctx)
}

func (n *c08Node) SubmitSyncCommitteeMessages(_ context.Context, msgs []*altair.SyncCommitteeMessage) error {
	n.msgs = append(n.msgs, msgs)
	return n.act()
}

var _ eth2client.AttestationsSubmitter = (*c08Node)(nil)

// the rejections Vouch deliberately tolerates for attestations, per client
var c08Tolerated = []struct{ client, text string }{
	{"Lighthouse/v5.1.0", "400: PriorAttestationKnown: already seen"},
	{"Lighthouse/v5.1.0", "400: UnknownHeadBlock: 0x1234"},
	{"Nimbus/v24.2", "400: Attempt to send attestation for unknown target"},
}

// rejections that are real failures (including tolerated texts from another client)
var c08Real = []struct{ client, text string }{
	{"Lighthouse/v5.1.0", "500: internal error"},
	{"teku/v24.1", "400: PriorAttestationKnown: already seen"},
	{"Prysm/v5", "400: Attempt to send attestation for unknown target"},
	{"Nimbus/v24.2", "400: UnknownHeadBlock"},
}

func c08Nodes(n int, tolerated []struct{ client, text string }, real []struct{ client, text string }) []*c08KNode {
	nodes := make([]*c08KNode, n)
	for i := 0; i < n; i++ {
		nd := &c08KNode{c08Node: c08Node{name: []string{"node-a", "node-b", "node-c"}[i], client: "Lodestar/v1"}}
		nd.behave = vnd.Choose("behaviour", nBehaviours)
		if nd.behave != bHang {
			nd.latency = time.Duration(vnd.I64("latency"))
			vnd.Assume(nd.latency >= 0 && nd.latency <= 120000)
		}
		switch nd.behave {
		case bRejectTolerated:
			c := tolerated[vnd.Choose("tolerated", len(tolerated))]
			nd.client, nd.errText = c.client, c.text
		case bRejectOther:
			c := real[vnd.Choose("real", len(real))]
			nd.client, nd.errText = c.client, c.text
		}
		nodes[i] = nd
	}
	return nodes
}

// VerifC08_Attestations: attestations reach every node in full, and the
// submission succeeds iff a node accepted or tolerably rejected it in time.
func VerifC08_Attestations() {
	c08Attestations(vnd.IntRange("nodes", 1, 2), vnd.IntRange("payload", 1, 3), false)
}

// VerifC08_AttestationsSlowVersion: the same with a first node that takes its time over the version
// request (asked ahead of every submission and again to classify a rejection): the request's time is
// part of the node's answer time, whatever share of the timeout it takes.
func VerifC08_AttestationsSlowVersion() { c08Attestations(1, 1, true) }

// VerifC08_AttestationsSlowVersion2: one or two nodes (thorough).
func VerifC08_AttestationsSlowVersion2() { c08Attestations(vnd.IntRange("nodes", 1, 2), 1, true) }

func c08Attestations(n int, p int, slowVersion bool) {
	timeout := time.Duration(vnd.I64("timeout"))
	vnd.Assume(timeout >= 2 && timeout <= 60000) // virtual nanoseconds
	nodes := c08Nodes(n, c08Tolerated, c08Real)
	if slowVersion {
		// the version request is part of the node's answer time, whatever share of the timeout it takes
		nodes[0].versionLatency = time.Duration(vnd.I64("version-latency"))
		vnd.Assume(nodes[0].versionLatency > 0 && nodes[0].versionLatency <= 60000)
	}
	conc := int64(vnd.IntRange("process-concurrency", n, 3))
	s := c08New(timeout, conc, nodes)
	payload := make([]*phase0.Attestation, p)
	for i := range payload {
		payload[i] = &phase0.Attestation{Data: &phase0.AttestationData{Slot: 7, Index: phase0.CommitteeIndex(i), Source: &phase0.Checkpoint{}, Target: &phase0.Checkpoint{}}}
	}
	start := vnd.NowNs()
	err := s.SubmitAttestations(context.Background(), payload)
	elapsed := time.Duration(vnd.NowNs() - start)
	vnd.Assert(elapsed <= timeout, "C08.attestations.returns-within-timeout")
	vnd.Quiesce()
	okInTime := false
	for _, nd := range nodes {
		// every node was offered every attestation exactly once (across chunks)
		for _, a := range payload {
			c := 0
			for _, chunk := range nd.received {
				for _, x := range chunk {
					if x == a {
						c++
					}
				}
			}
			vnd.Assert(c == 1, "C08.attestations.every-node-offered-the-full-payload-once")
		}
		if nd.behave != bHang {
			vnd.Assert(vnd.Implies(nd.latency < timeout, !nd.cutOff), "C08.attestations.delivery-to-a-slower-node-is-not-abandoned")
		}
		if nd.behave == bAccept || nd.behave == bRejectTolerated {
			okInTime = vnd.Or(okInTime, nd.answered() < timeout)
		}
	}
	if err == nil {
		vnd.Cover("C08.attestations.success")
		anyOk := false
		for _, nd := range nodes {
			if nd.behave == bAccept || nd.behave == bRejectTolerated {
				// (the submission itself cannot have been answered before its latency was up; how the
				// version requests are scheduled around it is the implementation's business)
				anyOk = vnd.Or(anyOk, nd.latency <= elapsed)
			}
		}
		vnd.Assert(anyOk, "C08.attestations.success-only-if-a-node-accepted-or-tolerably-rejected")
	} else {
		vnd.Cover("C08.attestations.failure")
		vnd.Assert(!okInTime, "C08.attestations.failure-only-if-no-node-accepted-in-time")
	}
}

// ---- sync committee messages: classification of the JSON error body --------------

type c08Body struct {
	text      string
	parseFail bool
	failures  int  // number of entries
	allowed   int  // of which tolerated
	nilEntry  bool // contains a null entry
	sameIndex bool // every entry names message 0 (one message refused once per subnet it went to)
}

// error texts a node can send (lighthouse message texts; teku uses its own duplicate text)
func c08Bodies(client string) []c08Body {
	dup := c08LHDup
	if client == "teku" {
		dup = "Ignoring sync committee message as a duplicate was processed during validation"
	}
	// field types follow the client's schema (teku: string code and index)
	code, code5, i0, i1 := `400`, `500`, `0`, `1`
	if client == "teku" {
		code, code5, i0, i1 = `"400"`, `"500"`, `"0"`, `"1"`
	}
	return []c08Body{
		{text: "POST failed with status 400: plain text error"},
		{text: `POST failed with status 400: {"code":` + code + `,"message":"bad","failures":[{"index":` + i0 + `,"message":"` + dup + `"}]}`, failures: 1, allowed: 1},
		{text: `POST failed with status 400: {"code":` + code + `,"message":"bad","failures":[{"index":` + i0 + `,"message":"` + dup + `"},{"index":` + i1 + `,"message":"Invalid signature"}]}`, failures: 2, allowed: 1},
		{text: `POST failed with status 500: {"code":` + code5 + `,"message":"INTERNAL_SERVER_ERROR"}`, failures: 0},
		{text: `POST failed with status 400: {"code":` + code + `,"message":"bad","failures":[]}`, failures: 0},
		{text: `POST failed with status 400: {broken`, parseFail: true},
		{text: `POST failed with status 400: {"code":` + code + `,"failures":[null]}`, failures: 1, nilEntry: true},
		{text: `POST failed with status 400: {"code":` + code + `,"message":"bad","failures":[{"index":` + i0 + `,"message":"` + dup + `"},{"index":` + i1 + `,"message":"` + dup + `"}]}`, failures: 2, allowed: 2},
		{text: `POST failed with status 400: {"code":` + code + `,"message":"bad","failures":[{"index":` + i0 + `,"message":"` + dup + `"},{"index":` + i0 + `,"message":"` + dup + `"}]}`, failures: 2, allowed: 2, sameIndex: true},
	}
}

var c08Current []c08Body

// c08LHDup is the lighthouse text of the tolerated rejection of the submission kind under study (sync
// committee messages by default; the contribution harnesses put the aggregator text in its place).
var c08LHDup = "Verification: PriorSyncCommitteeMessageKnown { validator_index: 1, slot: 2 }"

const c08LHDupContribution = "Verification: AggregatorAlreadyKnown(12345)"

// VerifStub_json_Unmarshal stands for encoding/json.Unmarshal on the two error
// response structs: it delivers what the real decoder delivers for the
// catalogue's documents (the native replay uses the real decoder).
func VerifStub_json_Unmarshal(data []byte, v any) error {
	doc := string(data)
	for _, b := range c08Current {
		i := 0
		for i < len(b.text) && b.text[i] != '{' {
			i++
		}
		if i == len(b.text) || b.text[i:] != doc {
			continue
		}
		if b.parseFail {
			return errors.New("invalid character")
		}
		switch r := v.(type) {
		case *lhErrorResponse:
			for k := 0; k < b.failures; k++ {
				switch {
				case b.nilEntry:
					r.Failures = append(r.Failures, nil)
				case k < b.allowed:
					idx := k
					if b.sameIndex {
						idx = 0
					}
					r.Failures = append(r.Failures, &lhErrorResponseFailure{Index: idx, Message: c08LHDup})
				default:
					r.Failures = append(r.Failures, &lhErrorResponseFailure{Index: k, Message: "Invalid signature"})
				}
			}
		case *tekuErrorResponse:
			for k := 0; k < b.failures; k++ {
				switch {
				case b.nilEntry:
					r.Failures = append(r.Failures, nil)
				case k < b.allowed:
					r.Failures = append(r.Failures, &tekuErrorResponseFailure{Index: "0", Message: "Ignoring sync committee message as a duplicate was processed during validation"})
				default:
					r.Failures = append(r.Failures, &tekuErrorResponseFailure{Index: "1", Message: "Invalid signature"})
				}
			}
		}
		return nil
	}
	return errors.New("document outside the catalogue")
}

// VerifC08_SyncMessageErrors: a rejected sync committee message submission is
// treated as accepted only when every reported failure is a tolerated duplicate.
func VerifC08_SyncMessageErrors() {
	clients := []struct{ version, kind string }{{"Lighthouse/v5.1.0", "lighthouse"}, {"teku/v24.1", "teku"}, {"Prysm/v5", "prysm"}}
	cl := clients[vnd.Choose("client", len(clients))]
	c08Current = c08Bodies(cl.kind)
	b := c08Current[vnd.Choose("body", len(c08Current))]
	vnd.Assume(!b.nilEntry) // the crash on a null entry is C16's subject
	nd := &c08KNode{c08Node: c08Node{name: "node-a", client: cl.version, behave: bRejectOther, errText: b.text}}
	s := c08New(time.Second, 2, []*c08KNode{nd})
	err := s.SubmitSyncCommitteeMessages(context.Background(), []*altair.SyncCommitteeMessage{{Slot: 1}})
	vnd.Quiesce()
	tolerated := (cl.kind == "lighthouse" || cl.kind == "teku") && !b.parseFail && b.failures > 0 && b.allowed == b.failures
	if tolerated {
		vnd.Cover("C08.syncmsg.tolerated")
		vnd.Assert(err == nil, "C08.syncmsg.all-duplicates-is-success")
	} else {
		vnd.Cover("C08.syncmsg.rejected")
		vnd.Assert(err != nil, "C08.syncmsg.rejection-that-is-not-all-duplicates-is-failure")
	}
	vnd.Assert(len(nd.msgs) == 1 && len(nd.msgs[0]) == 1, "C08.syncmsg.node-offered-the-messages")
}

// VerifC08_ContributionErrors: a rejected submission of sync committee contributions counts as accepted
// only when the node is a lighthouse node and every failure it lists is the tolerated "aggregator
// already known"; a rejection that lists no failure at all (an internal server error, an empty list), a
// body that cannot be read, any other client's rejection and any list with another failure in it are
// failures of the submission.
func VerifC08_ContributionErrors() {
	clients := []struct{ version, kind string }{{"Lighthouse/v5.1.0", "lighthouse"}, {"teku/v24.1", "teku"}, {"Prysm/v5", "prysm"}}
	cl := clients[vnd.Choose("client", len(clients))]
	c08LHDup = c08LHDupContribution
	c08Current = c08Bodies(cl.kind)
	b := c08Current[vnd.Choose("body", len(c08Current))]
	vnd.Assume(!b.nilEntry) // the crash on a null entry is C16's subject
	nd := &c08KNode{c08Node: c08Node{name: "node-a", client: cl.version, behave: bRejectOther, errText: b.text}}
	s := c08New(time.Second, 2, []*c08KNode{nd})
	err := s.SubmitSyncCommitteeContributions(context.Background(), []*altair.SignedContributionAndProof{{Message: &altair.ContributionAndProof{Contribution: &altair.SyncCommitteeContribution{Slot: 7}}}})
	vnd.Quiesce()
	tolerated := cl.kind == "lighthouse" && !b.parseFail && b.failures > 0 && b.allowed == b.failures
	if tolerated {
		vnd.Cover("C08.contriberr.tolerated")
		vnd.Assert(err == nil, "C08.contriberr.all-already-known-is-success")
	} else {
		vnd.Cover("C08.contriberr.rejected")
		vnd.Assert(err != nil, "C08.contriberr.rejection-that-is-not-all-already-known-is-failure")
	}
	vnd.Assert(len(nd.offered) == 1, "C08.contriberr.node-offered-the-contributions")
}

// VerifC16_ContributionErrorBody: no error body a node can send in answer to contributions crashes
// the submitter.
func VerifC16_ContributionErrorBody() {
	clients := []struct{ version, kind string }{{"Lighthouse/v5.1.0", "lighthouse"}, {"teku/v24.1", "teku"}}
	cl := clients[vnd.Choose("client", len(clients))]
	c08LHDup = c08LHDupContribution
	c08Current = c08Bodies(cl.kind)
	b := c08Current[vnd.Choose("body", len(c08Current))]
	nd := &c08KNode{c08Node: c08Node{name: "node-a", client: cl.version, behave: bRejectOther, errText: b.text}}
	s := c08New(time.Second, 2, []*c08KNode{nd})
	_ = s.SubmitSyncCommitteeContributions(context.Background(), []*altair.SignedContributionAndProof{{Message: &altair.ContributionAndProof{Contribution: &altair.SyncCommitteeContribution{Slot: 7}}}})
	vnd.Quiesce()
	vnd.Cover("C16.contriberr.survived")
}

// VerifC16_SyncMessageErrorBody: no error body a node can send crashes the submitter.
func VerifC16_SyncMessageErrorBody() {
	clients := []struct{ version, kind string }{{"Lighthouse/v5.1.0", "lighthouse"}, {"teku/v24.1", "teku"}}
	cl := clients[vnd.Choose("client", len(clients))]
	c08Current = c08Bodies(cl.kind)
	b := c08Current[vnd.Choose("body", len(c08Current))]
	nd := &c08KNode{c08Node: c08Node{name: "node-a", client: cl.version, behave: bRejectOther, errText: b.text}}
	s := c08New(time.Second, 2, []*c08KNode{nd})
	_ = s.SubmitSyncCommitteeMessages(context.Background(), []*altair.SyncCommitteeMessage{{Slot: 1}})
	vnd.Quiesce()
	vnd.Cover("C16.syncmsg.survived")
}

// VerifC08_Attestations3: three nodes, one attestation.
func VerifC08_Attestations3() { c08Attestations(3, 1, false) }
