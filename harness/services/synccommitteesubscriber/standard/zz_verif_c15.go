//go:build verif

package standard

import (
	"context"
	"errors"

	apiv1 "github.com/attestantio/go-eth2-client/api/v1"
	"github.com/attestantio/go-eth2-client/spec/phase0"
	"github.com/attestantio/vouch/internal/vnd"
	nullmetrics "github.com/attestantio/vouch/services/metrics/null"
)

type c15Submitter struct {
	fail  bool
	calls [][]*apiv1.SyncCommitteeSubscription
}

func (s *c15Submitter) SubmitSyncCommitteeSubscriptions(_ context.Context, subs []*apiv1.SyncCommitteeSubscription) error {
	s.calls = append(s.calls, subs)
	if s.fail {
		return errors.New("mock submit failure")
	}
	return nil
}

// c15New builds the subscriber the way main does: through New.
func c15New(sub *c15Submitter) *Service {
	s, err := New(context.Background(),
		WithLogLevel(vnd.LogLevel()),
		WithMonitor(&nullmetrics.Service{}),
		WithSyncCommitteeSubmitter(sub),
	)
	vnd.Assert(err == nil && s != nil, "C15.new.accepted")
	return s
}

// VerifC15_Subscribe: the sync committee subscription of a period: one entry
// per member duty with that validator, its committee positions and the given
// end epoch; nothing is sent without duties; a submission failure is reported.
func VerifC15_Subscribe() {
	sub := &c15Submitter{fail: vnd.Bool("submit.fail")}
	s := c15New(sub)
	end := phase0.Epoch(vnd.U64("end-epoch"))
	n := vnd.IntRange("duties", 0, 3)
	var duties []*apiv1.SyncCommitteeDuty
	for i := 0; i < n; i++ {
		d := &apiv1.SyncCommitteeDuty{ValidatorIndex: phase0.ValidatorIndex(vnd.U64("validator"))}
		for k := 0; k < vnd.IntRange("positions", 1, 2); k++ {
			d.ValidatorSyncCommitteeIndices = append(d.ValidatorSyncCommitteeIndices, phase0.CommitteeIndex(vnd.SmallU64("position", 9)))
		}
		duties = append(duties, d)
	}
	err := s.Subscribe(context.Background(), end, duties)
	if n == 0 {
		vnd.Assert(err == nil && len(sub.calls) == 0, "C15.subscribe.nothing-without-duties")
		return
	}
	vnd.Assert(len(sub.calls) == 1 && (err != nil) == sub.fail, "C15.subscribe.one-submission-failure-reported")
	got := sub.calls[0]
	vnd.Assert(len(got) == n, "C15.subscribe.one-entry-per-duty")
	for i, d := range duties {
		if i < len(got) {
			g := got[i]
			same := len(g.SyncCommitteeIndices) == len(d.ValidatorSyncCommitteeIndices)
			for k := range d.ValidatorSyncCommitteeIndices {
				same = same && k < len(g.SyncCommitteeIndices) && g.SyncCommitteeIndices[k] == d.ValidatorSyncCommitteeIndices[k]
			}
			vnd.Assert(g.ValidatorIndex == d.ValidatorIndex && same && g.UntilEpoch == end, "C15.subscribe.entry-is-that-members-positions-until-the-period-end")
		}
	}
	vnd.Cover("C15.subscribe.checked")
}
