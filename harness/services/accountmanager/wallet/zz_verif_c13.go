//go:build verif

package wallet

import (
	"context"
	"errors"
	"regexp"
	"strings"

	eth2api "github.com/attestantio/go-eth2-client/api"
	api "github.com/attestantio/go-eth2-client/api/v1"
	"github.com/attestantio/go-eth2-client/spec/phase0"
	"github.com/attestantio/vouch/internal/vnd"
	"github.com/attestantio/vouch/internal/vstub"
	nullmetrics "github.com/attestantio/vouch/services/metrics/null"
	"github.com/attestantio/vouch/services/validatorsmanager"
	e2wallet "github.com/wealdtech/go-eth2-wallet"
	e2wtypes "github.com/wealdtech/go-eth2-wallet-types/v2"
)

const c13FarFuture = phase0.Epoch(0xffffffffffffffff)

type c13Validators struct {
	recs map[phase0.BLSPubKey]*phase0.Validator
	idx  map[phase0.BLSPubKey]phase0.ValidatorIndex
}

func (v *c13Validators) RefreshValidatorsFromBeaconNode(_ context.Context, _ []phase0.BLSPubKey) error {
	return nil
}
func (v *c13Validators) ValidatorsByIndex(_ context.Context, _ []phase0.ValidatorIndex) map[phase0.ValidatorIndex]*phase0.Validator {
	return nil
}
func (v *c13Validators) ValidatorsByPubKey(_ context.Context, pubKeys []phase0.BLSPubKey) map[phase0.ValidatorIndex]*phase0.Validator {
	res := map[phase0.ValidatorIndex]*phase0.Validator{}
	for _, k := range pubKeys {
		if r, ok := v.recs[k]; ok {
			res[v.idx[k]] = r
		}
	}
	return res
}
func (v *c13Validators) ValidatorStateAtEpoch(_ context.Context, _ phase0.ValidatorIndex, _ phase0.Epoch) (api.ValidatorState, error) {
	return api.ValidatorStateUnknown, nil
}

// c13Chain answers the constructor's questions about the chain.
type c13Chain struct{}

func (c13Chain) Spec(_ context.Context, _ *eth2api.SpecOpts) (*eth2api.Response[map[string]any], error) {
	return &eth2api.Response[map[string]any]{Data: map[string]any{"SLOTS_PER_EPOCH": uint64(32)}, Metadata: map[string]any{}}, nil
}
func (c13Chain) FarFutureEpoch(_ context.Context) (phase0.Epoch, error) { return c13FarFuture, nil }
func (c13Chain) Domain(_ context.Context, _ phase0.DomainType, _ phase0.Epoch) (phase0.Domain, error) {
	return phase0.Domain{}, nil
}
func (c13Chain) GenesisDomain(_ context.Context, _ phase0.DomainType) (phase0.Domain, error) {
	return phase0.Domain{}, nil
}

// c13New builds the account manager through its constructor, without account
// specifiers: the accounts themselves (state that has no option) are put in
// place by the caller. For every specifier the constructor's first refresh
// would open the named wallet from the store on disk (os.ReadDir), which the
// engine cannot execute; VerifC13_Specifiers, which needs specifiers, therefore
// keeps building the service from its fields.
func c13New(vm validatorsmanager.Service, ct *vstub.ChainTime, label string) *Service {
	s, err := New(context.Background(), WithLogLevel(vnd.LogLevel()), WithMonitor(&nullmetrics.Service{}),
		WithProcessConcurrency(2), WithLocations([]string{"/nonexistent/wallets"}), WithAccountPaths([]string{}), WithPassphrases([][]byte{[]byte("secret")}),
		WithValidatorsManager(vm), WithSpecProvider(c13Chain{}), WithFarFutureEpochProvider(c13Chain{}),
		WithDomainProvider(c13Chain{}), WithCurrentEpochProvider(ct))
	vnd.Assert(err == nil && s != nil, label)
	return s
}

// ndValidator: an arbitrary validator record under the consensus spec's
// well-formedness: activation <= exit <= withdrawable; slashed => exit set.
func ndValidator(key phase0.BLSPubKey) *phase0.Validator {
	v := &phase0.Validator{PublicKey: key,
		ActivationEligibilityEpoch: phase0.Epoch(vnd.U64("eligibility")),
		ActivationEpoch:            phase0.Epoch(vnd.U64("activation")),
		ExitEpoch:                  phase0.Epoch(vnd.U64("exit")),
		WithdrawableEpoch:          phase0.Epoch(vnd.U64("withdrawable")),
		Slashed:                    vnd.Bool("slashed"),
		EffectiveBalance:           phase0.Gwei(vnd.U64("balance")),
	}
	vnd.Assume(v.ActivationEpoch <= v.ExitEpoch && v.ExitEpoch <= v.WithdrawableEpoch)
	vnd.Assume(!v.Slashed || v.ExitEpoch != c13FarFuture)
	return v
}

// VerifC13_State: the validating accounts for an epoch are exactly the known
// accounts whose validator is active and not slashed in that epoch, keyed by the
// right index; sync committee accounts additionally keep exited and slashed
// validators until withdrawal is done.
func VerifC13_State() {
	n := vnd.IntRange("accounts", 1, 2)
	vm := &c13Validators{recs: map[phase0.BLSPubKey]*phase0.Validator{}, idx: map[phase0.BLSPubKey]phase0.ValidatorIndex{}}
	ct := vstub.NewChainTime(0)
	s := c13New(vm, ct, "C13.new.accepted")
	epoch := phase0.Epoch(vnd.U64("epoch"))
	vnd.Assume(epoch < 1<<40) // epochs come from the wall clock
	keys := make([]phase0.BLSPubKey, n)
	known := make([]bool, n)
	indices := make([]phase0.ValidatorIndex, n)
	for i := 0; i < n; i++ {
		keys[i] = phase0.BLSPubKey{byte(i + 1)}
		acc := &vstub.Account{Tag: uint64(i + 1), Nm: "acc"}
		acc.Key.B = keys[i]
		s.accounts[keys[i]] = acc
		known[i] = vnd.Bool("known-to-chain")
		indices[i] = phase0.ValidatorIndex(100 + i)
		if known[i] {
			vm.recs[keys[i]] = ndValidator(keys[i])
			vm.idx[keys[i]] = indices[i]
		}
	}
	byIndex := vnd.Bool("by-index")
	sync := vnd.Bool("sync-committee")
	var wanted []phase0.ValidatorIndex
	inWanted := make([]bool, n)
	if byIndex {
		for i := 0; i < n; i++ {
			inWanted[i] = vnd.Bool("requested")
			if inWanted[i] {
				wanted = append(wanted, indices[i])
			}
		}
		if vnd.Bool("also-an-index-vouch-does-not-manage") {
			wanted = append(wanted, 999)
		} // (otherwise possibly the empty list: what the attester asks with when everybody has attested already)
	}
	var got map[phase0.ValidatorIndex]e2wtypes.Account
	var err error
	switch {
	case sync && byIndex:
		got, err = s.SyncCommitteeAccountsForEpochByIndex(context.Background(), epoch, wanted)
	case sync:
		got, err = s.SyncCommitteeAccountsForEpoch(context.Background(), epoch)
	case byIndex:
		got, err = s.ValidatingAccountsForEpochByIndex(context.Background(), epoch, wanted)
	default:
		got, err = s.ValidatingAccountsForEpoch(context.Background(), epoch)
	}
	vnd.Assert(err == nil, "C13.state.no-error")
	expected := uint64(0)
	for i := 0; i < n; i++ {
		want := false
		if known[i] {
			v := vm.recs[keys[i]]
			active := vnd.And(v.ActivationEpoch <= epoch, epoch < v.ExitEpoch)
			want = vnd.And(active, !v.Slashed)
			if sync {
				// also exited and slashed validators, until withdrawal is done
				notWithdrawn := vnd.Or(epoch < v.WithdrawableEpoch, v.EffectiveBalance != 0)
				want = vnd.And(v.ActivationEpoch <= epoch, vnd.Or(active, notWithdrawn))
			}
		}
		if byIndex {
			want = vnd.And(want, inWanted[i])
		}
		acc, present := got[indices[i]]
		vnd.Assert(present == want, "C13.state.exactly-the-active-unslashed-validators")
		if present {
			vnd.Cover("C13.state.account-included")
			vnd.Assert(acc.(*vstub.Account).Tag == uint64(i+1), "C13.state.keyed-by-the-validators-own-index")
		}
		expected += vnd.IteU64(want, 1, 0)
	}
	vnd.Assert(uint64(len(got)) == expected, "C13.state.nothing-else")
	vnd.Assert(vnd.HeldLocks() == 0, "C13.state.locks-released")
}

// VerifC17_RefreshVsLookup: an accounts refresh overlapping a validating
// accounts lookup has no unsynchronised conflicting accesses.
func VerifC17_RefreshVsLookup() {
	vm := &c13Validators{recs: map[phase0.BLSPubKey]*phase0.Validator{}, idx: map[phase0.BLSPubKey]phase0.ValidatorIndex{}}
	ct := vstub.NewChainTime(0)
	mk := func(i int) *c13Locked {
		k := phase0.BLSPubKey{byte(i + 1)}
		acc := &c13Locked{}
		acc.Tag, acc.Nm = uint64(i+1), "acc"
		acc.Key.B = k
		vm.recs[k] = &phase0.Validator{PublicKey: k, ActivationEpoch: 0, ExitEpoch: c13FarFuture, WithdrawableEpoch: c13FarFuture}
		vm.idx[k] = phase0.ValidatorIndex(100 + i)
		return acc
	}
	// the wallet as the stores hold it (opening it is replaced: VerifStub_e2wallet_OpenWallet)
	w := &vstub.Wallet{Nm: "W1"}
	c13Wallets = map[string]e2wtypes.Wallet{"W1": w}
	nOld := vnd.IntRange("known-accounts", 0, 2)
	for i := 0; i < nOld; i++ {
		w.Accs = append(w.Accs, mk(i))
	}
	// built as main builds it: New loads the accounts a first time
	s, err := New(context.Background(), WithLogLevel(vnd.LogLevel()), WithMonitor(&nullmetrics.Service{}),
		WithProcessConcurrency(2), WithLocations([]string{"/nonexistent/wallets"}), WithAccountPaths([]string{"W1"}), WithPassphrases([][]byte{[]byte("secret")}),
		WithValidatorsManager(vm), WithSpecProvider(c13Chain{}), WithFarFutureEpochProvider(c13Chain{}),
		WithDomainProvider(c13Chain{}), WithCurrentEpochProvider(ct))
	vnd.Assert(err == nil && s != nil && len(s.accounts) == nOld, "C17.new.accepted")
	// what the wallet holds at the second refresh
	nNew := vnd.IntRange("accounts-now", 0, 2)
	w.Accs = nil
	for i := 0; i < nNew; i++ {
		w.Accs = append(w.Accs, mk(2-i))
	}
	variant := vnd.Choose("lookup", 2)
	var got map[phase0.ValidatorIndex]e2wtypes.Account
	go s.refreshAccounts(context.Background())
	go func() {
		if variant == 0 {
			got, _ = s.ValidatingAccountsForEpoch(context.Background(), 5)
		} else {
			got, _ = s.ValidatingAccountsForEpochByIndex(context.Background(), 5, []phase0.ValidatorIndex{100, 102})
		}
	}()
	left := vnd.Quiesce()
	vnd.Assert(left == 0, "C17.accounts.everything-returns")
	// the answer is that of the lookup before the refresh or after it
	asOld, asNew := true, true
	for i := 0; i < 3; i++ {
		acc, has := got[phase0.ValidatorIndex(100+i)]
		if has {
			vnd.Assert(acc != nil && acc.PublicKey().Marshal()[0] == byte(i+1), "C17.accounts.validator-reported-with-its-own-account")
		}
		asked := variant == 0 || i != 1
		asOld = asOld && has == (asked && i < nOld)
		asNew = asNew && has == (asked && i >= 3-nNew)
	}
	vnd.Assert(asOld || asNew, "C17.accounts.answer-is-that-of-the-lookup-before-or-after-the-refresh")
	vnd.Cover("C17.accounts.overlap-explored")
}

// c13Wallets is what opening a wallet by name gives.
var c13Wallets map[string]e2wtypes.Wallet

// VerifStub_e2wallet_OpenWallet stands for e2wallet.OpenWallet, which reads and decrypts the wallet stores.
func VerifStub_e2wallet_OpenWallet(name string, _ ...e2wallet.Option) (e2wtypes.Wallet, error) {
	if w, ok := c13Wallets[name]; ok {
		return w, nil
	}
	return nil, errors.New("wallet not found")
}

// a keystore account: can be unlocked with the passphrase "secret"
type c13Locked struct {
	vstub.Account
	unlocked bool
}

func (a *c13Locked) Lock(_ context.Context) error { a.unlocked = false; return nil }
func (a *c13Locked) Unlock(_ context.Context, passphrase []byte) error {
	if string(passphrase) != "secret" {
		return errors.New("incorrect passphrase")
	}
	a.unlocked = true
	return nil
}
func (a *c13Locked) IsUnlocked(_ context.Context) (bool, error) { return a.unlocked, nil }

var c13Specifiers = []string{"Wallet 1", "Wallet 1/Account 1", "Wallet 1/Account [0-9]", "Wallet 1/^Acc.*$", "Wallet 1/^Account 1$", "Wallet 2", "Wallet 1/.*2", "Wallet 1/a.***"}
var c13Names = []string{"Account 1", "Account 10", "Account 2", "Extra Account 1", "Acc"}

func c13FullMatch(spec, wallet, account string) bool {
	parts := strings.SplitN(spec, "/", 2)
	a := ".*"
	if len(parts) == 2 && parts[1] != "" {
		a = strings.TrimSuffix(strings.TrimPrefix(parts[1], "^"), "$")
	}
	// (a specifier whose expression does not compile is dropped: it admits nothing)
	re, err := regexp.Compile("^(?:" + a + ")$")
	return err == nil && parts[0] == wallet && re.MatchString(account)
}

// VerifC13_Specifiers: a keystore account of wallet "Wallet 1" is used exactly
// when its wallet/account name fully matches one of the configured specifiers
// and one of the configured passphrases unlocks it.
func VerifC13_Specifiers() {
	specs := []string{c13Specifiers[vnd.Choose("specifier", len(c13Specifiers))]}
	if vnd.Bool("second-specifier") {
		specs = append(specs, c13Specifiers[vnd.Choose("specifier2", len(c13Specifiers))])
	}
	pass := [][]byte{[]byte("wrong"), []byte("secret")}
	if vnd.Bool("passphrase-unknown") {
		pass = pass[:1]
	}
	s := &Service{accounts: map[phase0.BLSPubKey]e2wtypes.Account{}, accountPaths: specs, processConcurrency: 2, passphrases: pass}
	w1 := &vstub.Wallet{Nm: "Wallet 1"}
	for i, nm := range c13Names {
		acc := &c13Locked{}
		acc.Tag, acc.Nm = uint64(i+1), nm
		acc.Key.B = phase0.BLSPubKey{byte(i + 1)}
		w1.Accs = append(w1.Accs, acc)
	}
	got := map[phase0.BLSPubKey]e2wtypes.Account{}
	s.fetchAccountsForWallet(context.Background(), w1, got, s.accountPathsToVerificationRegexes(specs))
	for i, nm := range c13Names {
		want := false
		for _, sp := range specs {
			want = want || c13FullMatch(sp, "Wallet 1", nm)
		}
		want = want && len(pass) == 2
		_, used := got[phase0.BLSPubKey{byte(i + 1)}]
		vnd.Assert(used == want, "C13.specifiers.account-used-iff-its-name-fully-matches-a-specifier-and-it-unlocks")
		if used {
			vnd.Cover("C13.specifiers.account-used")
		}
	}
	vnd.Assert(vnd.Quiesce() == 0, "C13.specifiers.goroutines-finish")
}

// VerifC13_RefreshFromWallets: the wallet account manager as main builds it
// (New, which makes a first refresh; opening a wallet is replaced by a lookup in
// c13Wallets): an account of the wallets named by the specifiers is known
// afterwards exactly when its wallet/account name fully matches one of the
// specifiers and a configured passphrase unlocks it; it is then found by its
// public key; accounts of a wallet no specifier names are never opened.
func VerifC13_RefreshFromWallets() {
	vm := &c13Validators{recs: map[phase0.BLSPubKey]*phase0.Validator{}, idx: map[phase0.BLSPubKey]phase0.ValidatorIndex{}}
	specs := []string{c13Specifiers[vnd.Choose("specifier", len(c13Specifiers))]}
	if vnd.Bool("second-specifier") {
		specs = append(specs, c13Specifiers[vnd.Choose("specifier2", len(c13Specifiers))])
	}
	pass := [][]byte{[]byte("wrong"), []byte("secret")}
	if vnd.Bool("passphrase-unknown") {
		pass = pass[:1]
	}
	w1 := &vstub.Wallet{Nm: "Wallet 1"}
	for i, nm := range c13Names {
		acc := &c13Locked{}
		acc.Tag, acc.Nm = uint64(i+1), nm
		acc.Key.B = phase0.BLSPubKey{byte(i + 1)}
		w1.Accs = append(w1.Accs, acc)
	}
	other := &c13Locked{}
	other.Tag, other.Nm = 99, "Account 1"
	other.Key.B = phase0.BLSPubKey{99}
	w3 := &vstub.Wallet{Nm: "Wallet 3", Accs: []e2wtypes.Account{other}}
	c13Wallets = map[string]e2wtypes.Wallet{"Wallet 1": w1, "Wallet 2": &vstub.Wallet{Nm: "Wallet 2"}, "Wallet 3": w3}
	s, err := New(context.Background(), WithLogLevel(vnd.LogLevel()), WithMonitor(&nullmetrics.Service{}),
		WithProcessConcurrency(2), WithLocations([]string{"/nonexistent/wallets"}), WithAccountPaths(specs), WithPassphrases(pass),
		WithValidatorsManager(vm), WithSpecProvider(c13Chain{}), WithFarFutureEpochProvider(c13Chain{}),
		WithDomainProvider(c13Chain{}), WithCurrentEpochProvider(vstub.NewChainTime(0)))
	vnd.Assert(err == nil && s != nil, "C13.new.accepted")
	if s == nil {
		return
	}
	for i, nm := range c13Names {
		want := false
		for _, sp := range specs {
			want = want || c13FullMatch(sp, "Wallet 1", nm)
		}
		want = want && len(pass) == 2
		key := phase0.BLSPubKey{byte(i + 1)}
		_, used := s.accounts[key]
		vnd.Assert(used == want, "C13.refresh.account-known-iff-its-name-fully-matches-a-specifier-and-it-unlocks")
		acc, aerr := s.AccountByPublicKey(context.Background(), key)
		vnd.Assert((aerr == nil && acc != nil) == want, "C13.refresh.known-account-found-by-its-public-key")
		if used {
			vnd.Cover("C13.refresh.account-used")
		}
	}
	_, usedOther := s.accounts[phase0.BLSPubKey{99}]
	vnd.Assert(!usedOther, "C13.refresh.accounts-of-a-wallet-no-specifier-names-are-not-used")
	vnd.Assert(vnd.Quiesce() == 0 && vnd.HeldLocks() == 0, "C13.refresh.goroutines-finish-locks-released")
}
