//go:build verif

package dirk

import (
	"context"
	"regexp"
	"strings"

	api "github.com/attestantio/go-eth2-client/api/v1"
	"github.com/attestantio/go-eth2-client/spec/phase0"
	"github.com/attestantio/vouch/internal/vnd"
	"github.com/attestantio/vouch/internal/vstub"
	e2wtypes "github.com/wealdtech/go-eth2-wallet-types/v2"
)

const c13FarFuture = phase0.Epoch(0xffffffffffffffff)

type c13Validators struct {
	recs map[phase0.BLSPubKey]*phase0.Validator
	idx  map[phase0.BLSPubKey]phase0.ValidatorIndex
}

func (v *c13Validators) RefreshValidatorsFromBeaconNode(_ context.Context, _ []phase0.BLSPubKey) error {
	return nil
}
func (v *c13Validators) ValidatorsByIndex(_ context.Context, _ []phase0.ValidatorIndex) map[phase0.ValidatorIndex]*phase0.Validator {
	return nil
}
func (v *c13Validators) ValidatorsByPubKey(_ context.Context, pubKeys []phase0.BLSPubKey) map[phase0.ValidatorIndex]*phase0.Validator {
	res := map[phase0.ValidatorIndex]*phase0.Validator{}
	for _, k := range pubKeys {
		if r, ok := v.recs[k]; ok {
			res[v.idx[k]] = r
		}
	}
	return res
}
func (v *c13Validators) ValidatorStateAtEpoch(_ context.Context, _ phase0.ValidatorIndex, _ phase0.Epoch) (api.ValidatorState, error) {
	return api.ValidatorStateUnknown, nil
}

// ndValidator: an arbitrary validator record under the consensus spec's
// well-formedness: activation <= exit <= withdrawable; slashed => exit set.
func ndValidator(key phase0.BLSPubKey) *phase0.Validator {
	v := &phase0.Validator{PublicKey: key,
		ActivationEligibilityEpoch: phase0.Epoch(vnd.U64("eligibility")),
		ActivationEpoch:            phase0.Epoch(vnd.U64("activation")),
		ExitEpoch:                  phase0.Epoch(vnd.U64("exit")),
		WithdrawableEpoch:          phase0.Epoch(vnd.U64("withdrawable")),
		Slashed:                    vnd.Bool("slashed"),
		EffectiveBalance:           phase0.Gwei(vnd.U64("balance")),
	}
	vnd.Assume(v.ActivationEpoch <= v.ExitEpoch && v.ExitEpoch <= v.WithdrawableEpoch)
	vnd.Assume(!v.Slashed || v.ExitEpoch != c13FarFuture)
	return v
}

// VerifC13_State: the validating accounts for an epoch are exactly the known
// accounts whose validator is active and not slashed in that epoch, keyed by the
// right index; sync committee accounts additionally keep exited and slashed
// validators until withdrawal is done.
func VerifC13_State() {
	n := vnd.IntRange("accounts", 1, 2)
	vm := &c13Validators{recs: map[phase0.BLSPubKey]*phase0.Validator{}, idx: map[phase0.BLSPubKey]phase0.ValidatorIndex{}}
	ct := vstub.NewChainTime(0)
	s := &Service{accounts: map[phase0.BLSPubKey]e2wtypes.Account{}, validatorsManager: vm, farFutureEpoch: c13FarFuture, currentEpochProvider: ct}
	epoch := phase0.Epoch(vnd.U64("epoch"))
	vnd.Assume(epoch < 1<<40) // epochs come from the wall clock
	keys := make([]phase0.BLSPubKey, n)
	known := make([]bool, n)
	indices := make([]phase0.ValidatorIndex, n)
	for i := 0; i < n; i++ {
		keys[i] = phase0.BLSPubKey{byte(i + 1)}
		acc := &vstub.Account{Tag: uint64(i + 1), Nm: "acc"}
		acc.Key.B = keys[i]
		s.accounts[keys[i]] = acc
		s.pubKeys = append(s.pubKeys, keys[i])
		known[i] = vnd.Bool("known-to-chain")
		indices[i] = phase0.ValidatorIndex(100 + i)
		if known[i] {
			vm.recs[keys[i]] = ndValidator(keys[i])
			vm.idx[keys[i]] = indices[i]
		}
	}
	byIndex := vnd.Bool("by-index")
	sync := vnd.Bool("sync-committee")
	var wanted []phase0.ValidatorIndex
	inWanted := make([]bool, n)
	if byIndex {
		for i := 0; i < n; i++ {
			inWanted[i] = vnd.Bool("requested")
			if inWanted[i] {
				wanted = append(wanted, indices[i])
			}
		}
		if vnd.Bool("also-an-index-vouch-does-not-manage") {
			wanted = append(wanted, 999)
		} // (otherwise possibly the empty list: what the attester asks with when everybody has attested already)
	}
	var got map[phase0.ValidatorIndex]e2wtypes.Account
	var err error
	switch {
	case sync && byIndex:
		got, err = s.SyncCommitteeAccountsForEpochByIndex(context.Background(), epoch, wanted)
	case sync:
		got, err = s.SyncCommitteeAccountsForEpoch(context.Background(), epoch)
	case byIndex:
		got, err = s.ValidatingAccountsForEpochByIndex(context.Background(), epoch, wanted)
	default:
		got, err = s.ValidatingAccountsForEpoch(context.Background(), epoch)
	}
	vnd.Assert(err == nil, "C13.state.no-error")
	expected := uint64(0)
	for i := 0; i < n; i++ {
		want := false
		if known[i] {
			v := vm.recs[keys[i]]
			active := vnd.And(v.ActivationEpoch <= epoch, epoch < v.ExitEpoch)
			want = vnd.And(active, !v.Slashed)
			if sync {
				// also exited and slashed validators, until withdrawal is done
				notWithdrawn := vnd.Or(epoch < v.WithdrawableEpoch, v.EffectiveBalance != 0)
				want = vnd.And(v.ActivationEpoch <= epoch, vnd.Or(active, notWithdrawn))
			}
		}
		if byIndex {
			want = vnd.And(want, inWanted[i])
		}
		acc, present := got[indices[i]]
		vnd.Assert(present == want, "C13.state.exactly-the-active-unslashed-validators")
		if present {
			vnd.Cover("C13.state.account-included")
			vnd.Assert(acc.(*vstub.Account).Tag == uint64(i+1), "C13.state.keyed-by-the-validators-own-index")
		}
		expected += vnd.IteU64(want, 1, 0)
	}
	vnd.Assert(uint64(len(got)) == expected, "C13.state.nothing-else")
	vnd.Assert(vnd.HeldLocks() == 0, "C13.state.locks-released")
}

// VerifC13_Refresh: one refresh of the Dirk accounts from an arbitrary known
// state. A refresh that obtains nothing keeps everything already known (the
// account map, the key list the epoch lookups run from, and so the validating
// accounts); one that obtains accounts replaces both consistently.
func VerifC13_Refresh() {
	vm := &c13Validators{recs: map[phase0.BLSPubKey]*phase0.Validator{}, idx: map[phase0.BLSPubKey]phase0.ValidatorIndex{}}
	ct := vstub.NewChainTime(0)
	s := &Service{accounts: map[phase0.BLSPubKey]e2wtypes.Account{}, validatorsManager: vm, farFutureEpoch: c13FarFuture, currentEpochProvider: ct,
		wallets: map[string]e2wtypes.Wallet{}, accountPaths: []string{"W1"}, processConcurrency: 2}
	// what is already known: 0..2 accounts, all with an active validator
	nOld := vnd.IntRange("known-accounts", 0, 2)
	mk := func(i int) (phase0.BLSPubKey, *vstub.Account) {
		k := phase0.BLSPubKey{byte(i + 1)}
		acc := &vstub.Account{Tag: uint64(i + 1), Nm: "acc"}
		acc.Key.B = k
		vm.recs[k] = &phase0.Validator{PublicKey: k, ActivationEpoch: 0, ExitEpoch: c13FarFuture, WithdrawableEpoch: c13FarFuture, EffectiveBalance: 32}
		vm.idx[k] = phase0.ValidatorIndex(100 + i)
		return k, acc
	}
	for i := 0; i < nOld; i++ {
		k, acc := mk(i)
		s.accounts[k] = acc
		s.pubKeys = append(s.pubKeys, k)
	}
	// what the signer returns now: 0..2 accounts starting at any of three keys
	w := &vstub.Wallet{Nm: "W1"}
	nNew := vnd.IntRange("returned-accounts", 0, 2)
	first := vnd.IntRange("first-returned", 0, 2)
	for i := 0; i < nNew; i++ {
		_, acc := mk(first + i)
		w.Accs = append(w.Accs, acc)
	}
	s.wallets["W1"] = w

	s.Refresh(context.Background())

	wantLo, wantN := 0, nOld
	if nNew > 0 {
		wantLo, wantN = first, nNew
		vnd.Cover("C13.refresh.replaced")
	} else if nOld > 0 {
		vnd.Cover("C13.refresh.nothing-obtained-keeps-known")
	}
	vnd.Assert(len(s.accounts) == wantN, "C13.refresh.account-map-is-what-was-obtained-or-what-was-known")
	vnd.Assert(len(s.pubKeys) == wantN, "C13.refresh.key-list-matches-account-map")
	for i := wantLo; i < wantLo+wantN; i++ {
		_, ok := s.accounts[phase0.BLSPubKey{byte(i + 1)}]
		vnd.Assert(ok, "C13.refresh.account-known")
		found := false
		for _, k := range s.pubKeys {
			found = found || k == phase0.BLSPubKey{byte(i + 1)}
		}
		vnd.Assert(found, "C13.refresh.key-listed")
	}
	got, err := s.ValidatingAccountsForEpoch(context.Background(), 5)
	vnd.Assert(err == nil && len(got) == wantN, "C13.refresh.validating-accounts-are-the-known-active-ones")
	vnd.Assert(vnd.HeldLocks() == 0 && vnd.Quiesce() == 0, "C13.refresh.locks-released-goroutines-done")
}

// the account specifiers and account names of VerifC13_Specifiers
var c13Specifiers = []string{"Wallet 1", "Wallet 1/Account 1", "Wallet 1/Account [0-9]", "^Wallet 1/Acc.*$", "Wallet 1/^Account 1$", "Wallet 2", "Wallet 1/.*2", "Wallet 1/a.***"}
var c13Names = []string{"Account 1", "Account 10", "Account 2", "Extra Account 1", "Acc"}

// c13FullMatch is the reference: the specifier's wallet part must be the
// wallet's name, and its account part (everything when absent), anchors
// stripped, must match the whole account name.
func c13FullMatch(spec, wallet, account string) bool {
	parts := strings.SplitN(spec, "/", 2)
	w := strings.TrimSuffix(strings.TrimPrefix(parts[0], "^"), "$")
	a := ".*"
	if len(parts) == 2 && parts[1] != "" {
		a = strings.TrimSuffix(strings.TrimPrefix(parts[1], "^"), "$")
	}
	// (a specifier whose expression does not compile is dropped: it admits nothing)
	re, err := regexp.Compile("^(?:" + a + ")$")
	return err == nil && w == wallet && re.MatchString(account)
}

// VerifC13_Specifiers: an account offered by the remote signer is used exactly
// when its wallet/account name fully matches one of the configured specifiers
// (catalogue of 7 specifiers, one or two of them configured, and 5 account
// names offered by wallet "Wallet 1").
func VerifC13_Specifiers() {
	vm := &c13Validators{recs: map[phase0.BLSPubKey]*phase0.Validator{}, idx: map[phase0.BLSPubKey]phase0.ValidatorIndex{}}
	specs := []string{c13Specifiers[vnd.Choose("specifier", len(c13Specifiers))]}
	if vnd.Bool("second-specifier") {
		specs = append(specs, c13Specifiers[vnd.Choose("specifier2", len(c13Specifiers))])
	}
	s := &Service{accounts: map[phase0.BLSPubKey]e2wtypes.Account{}, validatorsManager: vm, farFutureEpoch: c13FarFuture, currentEpochProvider: vstub.NewChainTime(0),
		wallets: map[string]e2wtypes.Wallet{}, accountPaths: specs, processConcurrency: 2}
	w1 := &vstub.Wallet{Nm: "Wallet 1"}
	for i, nm := range c13Names {
		acc := &vstub.Account{Tag: uint64(i + 1), Nm: nm}
		acc.Key.B = phase0.BLSPubKey{byte(i + 1)}
		w1.Accs = append(w1.Accs, acc)
	}
	s.wallets["Wallet 1"] = w1
	s.wallets["Wallet 2"] = &vstub.Wallet{Nm: "Wallet 2"}
	s.refreshAccounts(context.Background())
	for i, nm := range c13Names {
		matches, matchesPlain := false, false
		for _, sp := range specs {
			matches = matches || c13FullMatch(sp, "Wallet 1", nm)
			// a specifier whose wallet part is written without anchors names its wallet literally
			matchesPlain = matchesPlain || (!strings.HasPrefix(sp, "^") && c13FullMatch(sp, "Wallet 1", nm))
		}
		_, used := s.accounts[phase0.BLSPubKey{byte(i + 1)}]
		vnd.Assert(!used || matches, "C13.specifiers.account-used-only-if-its-name-fully-matches-a-specifier")
		vnd.Assert(!matchesPlain || used, "C13.specifiers.account-matching-a-plainly-written-specifier-is-used")
		if used {
			vnd.Cover("C13.specifiers.account-used")
		}
	}
}
