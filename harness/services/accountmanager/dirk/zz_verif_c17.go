//go:build verif

package dirk

import (
	"context"

	"github.com/attestantio/go-eth2-client/api"
	apiv1 "github.com/attestantio/go-eth2-client/api/v1"
	"github.com/attestantio/go-eth2-client/spec/phase0"
	"github.com/attestantio/vouch/internal/vnd"
	"github.com/attestantio/vouch/internal/vstub"
	standardvalidatorsmanager "github.com/attestantio/vouch/services/validatorsmanager/standard"
	e2wtypes "github.com/wealdtech/go-eth2-wallet-types/v2"
)

type c17Provider struct {
	data map[phase0.ValidatorIndex]*apiv1.Validator
}

func (p *c17Provider) Validators(_ context.Context, _ *api.ValidatorsOpts) (*api.Response[map[phase0.ValidatorIndex]*apiv1.Validator], error) {
	return &api.Response[map[phase0.ValidatorIndex]*apiv1.Validator]{Data: p.data, Metadata: map[string]any{}}, nil
}

// VerifC17_RefreshVsLookup: a refresh of the Dirk accounts overlapping a
// validating-accounts lookup, with the real validators manager walking the key
// list the lookup hands it: no unsynchronised conflicting accesses (the list a
// lookup took is not rewritten under it), whatever was known before (0..3
// accounts, so that the key list has spare capacity or not) and whatever the
// signer returns now (0..3 accounts).
func VerifC17_RefreshVsLookup() {
	prov := &c17Provider{data: map[phase0.ValidatorIndex]*apiv1.Validator{}}
	vm, err := standardvalidatorsmanager.New(context.Background(), standardvalidatorsmanager.WithLogLevel(vnd.LogLevel()),
		standardvalidatorsmanager.WithMonitor(struct{}{}), standardvalidatorsmanager.WithClientMonitor(vstub.ClientMonitor{}),
		standardvalidatorsmanager.WithValidatorsProvider(prov), standardvalidatorsmanager.WithFarFutureEpoch(c13FarFuture))
	vnd.Assert(err == nil, "C17.dirk.validators-manager-built")
	ct := vstub.NewChainTime(0)
	s := &Service{accounts: map[phase0.BLSPubKey]e2wtypes.Account{}, validatorsManager: vm, farFutureEpoch: c13FarFuture, currentEpochProvider: ct,
		wallets: map[string]e2wtypes.Wallet{}, accountPaths: []string{"W1"}, processConcurrency: 2}
	mk := func(i int) (phase0.BLSPubKey, *vstub.Account) {
		k := phase0.BLSPubKey{byte(i + 1)}
		acc := &vstub.Account{Tag: uint64(i + 1), Nm: "acc"}
		acc.Key.B = k
		prov.data[phase0.ValidatorIndex(100+i)] = &apiv1.Validator{Index: phase0.ValidatorIndex(100 + i), Validator: &phase0.Validator{PublicKey: k, ActivationEpoch: 0, ExitEpoch: c13FarFuture, WithdrawableEpoch: c13FarFuture, EffectiveBalance: 32}}
		return k, acc
	}
	// a first refresh brings in what is known so far, exactly as in production
	w := &vstub.Wallet{Nm: "W1"}
	nOld := vnd.IntRange("known-accounts", 0, 3)
	for i := 0; i < nOld; i++ {
		_, acc := mk(i)
		w.Accs = append(w.Accs, acc)
	}
	s.wallets["W1"] = w
	s.Refresh(context.Background())
	vnd.Assert(len(s.pubKeys) == nOld, "C17.dirk.first-refresh-brings-in-the-accounts")
	// the signer's answer to the second refresh
	nNew := vnd.IntRange("returned-accounts", 0, 3)
	w.Accs = nil
	for i := 0; i < nNew; i++ {
		_, acc := mk(2 - i%3)
		w.Accs = append(w.Accs, acc)
	}
	variant := vnd.Choose("lookup", 2)
	var got map[phase0.ValidatorIndex]e2wtypes.Account
	go s.Refresh(context.Background())
	go func() {
		if variant == 0 {
			got, _ = s.ValidatingAccountsForEpoch(context.Background(), 5)
		} else {
			got, _ = s.ValidatingAccountsForEpochByIndex(context.Background(), 5, []phase0.ValidatorIndex{100})
		}
	}()
	left := vnd.Quiesce()
	vnd.Assert(left == 0, "C17.dirk.everything-returns")
	// the answer is that of the lookup before the refresh or after it: the accounts of
	// one of the two states (all validators are active), each with its account
	inOld := func(i int) bool { return i < nOld }
	inNew := func(i int) bool {
		if nNew == 0 {
			return inOld(i) // nothing obtained: what was known is kept
		}
		return i >= 3-nNew
	}
	// (a refresh first replaces the accounts and then tells the validators manager about them:
	// in between, a newly offered account is known but not yet as a validator)
	asOld, asNew, asBetween := true, true, true
	for i := 0; i < 3; i++ {
		acc, has := got[phase0.ValidatorIndex(100+i)]
		if has {
			vnd.Assert(acc != nil && acc.PublicKey().Marshal()[0] == byte(i+1), "C17.dirk.validator-reported-with-its-own-account")
		}
		want := func(in bool) bool { return in && (variant == 0 || i == 0) }
		asOld = asOld && has == want(inOld(i))
		asNew = asNew && has == want(inNew(i))
		asBetween = asBetween && has == want(inNew(i) && inOld(i))
	}
	vnd.Assert(asOld || asNew || asBetween, "C17.dirk.answer-is-that-of-the-lookup-before-or-after-the-refresh")
	vnd.Cover("C17.dirk.overlap-explored")
}
