//go:build verif

package standard

import (
	"context"
	"time"

	"github.com/attestantio/go-eth2-client/api"
	apiv1 "github.com/attestantio/go-eth2-client/api/v1"
	"github.com/attestantio/go-eth2-client/spec/phase0"
	"github.com/attestantio/vouch/internal/vnd"
)

// c03Chain answers the constructor's genesis and spec queries with the
// (possibly symbolic) values of the harness.
type c03Chain struct {
	genesis       time.Time
	slotDuration  time.Duration
	slotsPerEpoch uint64
}

func (c *c03Chain) Genesis(_ context.Context, _ *api.GenesisOpts) (*api.Response[*apiv1.Genesis], error) {
	return &api.Response[*apiv1.Genesis]{Data: &apiv1.Genesis{GenesisTime: c.genesis}, Metadata: map[string]any{}}, nil
}

func (c *c03Chain) Spec(_ context.Context, _ *api.SpecOpts) (*api.Response[map[string]any], error) {
	return &api.Response[map[string]any]{Data: map[string]any{
		"SECONDS_PER_SLOT": c.slotDuration,
		"SLOTS_PER_EPOCH":  c.slotsPerEpoch,
	}, Metadata: map[string]any{}}, nil
}

// c03New builds the service through its constructor, which fetches the genesis
// time, SECONDS_PER_SLOT and SLOTS_PER_EPOCH from the providers.
func c03New(genesis time.Time, slotDuration time.Duration, slotsPerEpoch uint64) *Service {
	chain := &c03Chain{genesis: genesis, slotDuration: slotDuration, slotsPerEpoch: slotsPerEpoch}
	s, err := New(context.Background(), WithLogLevel(vnd.LogLevel()), WithGenesisProvider(chain), WithSpecProvider(chain))
	vnd.Assert(err == nil && s != nil, "C03.new.accepted")
	return s
}

// VerifC03_TimeInt: the slot/epoch/wall-clock conversions agree with one
// another for every slot and every set of chain parameters (Int mode:
// mathematical integers, every machine operation obliged to stay in range).
func VerifC03_TimeInt() {
	k := vnd.Int("slot-duration-seconds")
	vnd.Assume(k >= 1 && k <= 3600)
	spe := vnd.U64("slots-per-epoch")
	vnd.Assume(spe >= 1 && spe <= 4096)
	genesis := vnd.I64("genesis-unix-seconds")
	vnd.Assume(genesis >= 0 && genesis < 1<<33)
	s := c03New(time.Unix(genesis, 0), time.Duration(k)*time.Second, spe)

	slot := vnd.U64("slot")
	// the bound of time.Duration: slot * duration must fit in int64 nanoseconds (~292 years)
	vnd.Assume(slot < 1<<62/(uint64(k)*1000000000))
	epoch := uint64(s.SlotToEpoch(phase0.Slot(slot)))
	vnd.Assert(epoch == slot/spe, "C03.time.slot-to-epoch")
	fs := uint64(s.FirstSlotOfEpoch(phase0.Epoch(epoch)))
	vnd.Assert(fs <= slot && slot < fs+spe, "C03.time.slot-lies-in-its-epoch")
	vnd.Assert(uint64(s.SlotToEpoch(phase0.Slot(fs))) == epoch, "C03.time.first-slot-of-epoch-is-in-that-epoch")
	vnd.Assert(s.StartOfEpoch(phase0.Epoch(epoch)).Equal(s.StartOfSlot(phase0.Slot(fs))), "C03.time.epoch-starts-with-its-first-slot")
	// slots are evenly spaced from genesis
	d := s.StartOfSlot(phase0.Slot(slot + 1)).Sub(s.StartOfSlot(phase0.Slot(slot)))
	vnd.Assert(d == time.Duration(k)*time.Second, "C03.time.slot-starts-are-one-slot-duration-apart")
	vnd.Assert(s.StartOfSlot(0).Equal(s.GenesisTime()), "C03.time.slot-zero-starts-at-genesis")
	vnd.Assert(s.StartOfSlot(phase0.Slot(slot)).Sub(s.GenesisTime()) == time.Duration(slot)*time.Duration(k)*time.Second, "C03.time.start-of-slot-formula")
	vnd.Cover("C03.time.int-checked")
}

// VerifC03_TimeNow: the wall-clock side. With elapsed = sec s + nsec ns since
// genesis: a job firing at or after the start of slot n never sees an earlier
// slot (exact), the current slot is exact except within the last microsecond
// before a second boundary (float64 rounding, outside the claim), the current
// epoch is the epoch of the current slot, and before genesis both are 0.
func VerifC03_TimeNow() { c03TimeNow(1, 32) }

// VerifC03_TimeNow12: the same with a 12 s slot (thorough tier: the division
// of the float result by 12 makes the queries much harder).
func VerifC03_TimeNow12() { c03TimeNow(12, 32) }

// VerifC03_TimeNowRelaxed: the wall-clock side for every instant, with 1 s, 12 s
// and 5 s slots, in Int mode with float64 relaxed over the reals (every
// rounding step may err by up to the IEEE-754 bound): a proof here holds for the
// real float64 semantics; the exact float64 encoding is the thorough tier.
func VerifC03_TimeNowRelaxed() {
	c03TimeNowAt([]uint64{1, 12, 5}[vnd.Choose("slot-duration", 3)], 32, vnd.U64("elapsed.nsec"))
}

func c03TimeNow(k uint64, spe uint64) { c03TimeNowAt(k, spe, vnd.U64("elapsed.nsec")) }

func c03TimeNowAt(k uint64, spe uint64, nsec uint64) {
	sec := vnd.U64("elapsed.sec")
	vnd.Assume(sec < 1<<33 && nsec < 1000000000)
	elapsed := time.Duration(sec)*time.Second + time.Duration(nsec)
	s := c03New(time.Unix(0, vnd.NowNs()-int64(elapsed)), time.Duration(k)*time.Second, spe)
	if !vnd.Symbolic() {
		// native replay only: the engine's clock stands still while the constructor
		// runs, the real one does not (the constructor takes more than the 1 µs the
		// claims below leave before a second boundary), so the genesis is anchored
		// again at the instant the constructor returned
		s.genesisTime = time.Unix(0, vnd.NowNs()-int64(elapsed))
	}
	cs := uint64(s.CurrentSlot())
	ce := uint64(s.CurrentEpoch())
	n := sec / k // the slot whose start is the latest one not after now
	vnd.Assert(cs >= n, "C03.time.job-at-slot-start-never-sees-an-earlier-slot")
	if nsec <= 999999000 {
		vnd.Cover("C03.time.away-from-second-boundary")
		vnd.Assert(cs == n, "C03.time.current-slot-exact")
		vnd.Assert(ce == n/spe, "C03.time.current-epoch-is-epoch-of-current-slot")
	}
	vnd.Assert(cs <= n+1, "C03.time.current-slot-at-most-one-ahead")
}

// VerifC03_TimePreGenesis: before genesis the current slot and epoch are 0.
func VerifC03_TimePreGenesis() {
	ahead := vnd.I64("genesis.ahead")
	vnd.Assume(ahead > 0 && ahead < 1<<50)
	s := c03New(time.Unix(0, vnd.NowNs()+ahead), 12*time.Second, 32)
	vnd.Assert(s.CurrentSlot() == 0 && s.CurrentEpoch() == 0, "C03.time.zero-before-genesis")
	vnd.Cover("C03.time.pre-genesis")
}
