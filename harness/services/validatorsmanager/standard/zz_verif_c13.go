//go:build verif

package standard

import (
	"context"
	"errors"

	"github.com/attestantio/go-eth2-client/api"
	apiv1 "github.com/attestantio/go-eth2-client/api/v1"
	"github.com/attestantio/go-eth2-client/spec/phase0"
	"github.com/attestantio/vouch/internal/vnd"
	"github.com/attestantio/vouch/internal/vstub"
)

// c13FarFuture is the far future epoch handed to the constructor.
const c13FarFuture = phase0.Epoch(0xffffffffffffffff)

// c13New builds the validators manager through its constructor; the known
// validators (state that has no option) are put in place by the caller.
func c13New(p *c13Provider, label string) *Service {
	s, err := New(context.Background(), WithLogLevel(vnd.LogLevel()), WithMonitor(struct{}{}),
		WithClientMonitor(vstub.ClientMonitor{}), WithValidatorsProvider(p), WithFarFutureEpoch(c13FarFuture))
	vnd.Assert(err == nil && s != nil, label)
	return s
}

type c13Provider struct {
	mode int // 0: validators, 1: empty, 2: error
	data map[phase0.ValidatorIndex]*apiv1.Validator
}

func (p *c13Provider) Validators(_ context.Context, _ *api.ValidatorsOpts) (*api.Response[map[phase0.ValidatorIndex]*apiv1.Validator], error) {
	switch p.mode {
	case 1:
		return &api.Response[map[phase0.ValidatorIndex]*apiv1.Validator]{Data: map[phase0.ValidatorIndex]*apiv1.Validator{}, Metadata: map[string]any{}}, nil
	case 2:
		return nil, errors.New("mock validators failure")
	}
	return &api.Response[map[phase0.ValidatorIndex]*apiv1.Validator]{Data: p.data, Metadata: map[string]any{}}, nil
}

// VerifC13_Retain: a refresh of the validator set that returns nothing (or
// fails) never wipes what is already known; a successful one replaces it, and
// lookups by public key return the right record under the right index.
func VerifC13_Retain() {
	oldKey, newKey := phase0.BLSPubKey{1}, phase0.BLSPubKey{2}
	oldRec := &phase0.Validator{PublicKey: oldKey, ActivationEpoch: 1}
	oldIdx := phase0.ValidatorIndex(vnd.U64("old.index"))
	newIdx := phase0.ValidatorIndex(vnd.U64("new.index"))
	p := &c13Provider{mode: vnd.Choose("refresh.outcome", 3)}
	newRec := &phase0.Validator{PublicKey: newKey, ActivationEpoch: 2}
	p.data = map[phase0.ValidatorIndex]*apiv1.Validator{newIdx: {Index: newIdx, Validator: newRec}}
	s := c13New(p, "C13.new.accepted")
	s.validatorsByIndex[oldIdx] = oldRec
	s.validatorsByPubKey[oldKey] = oldRec
	s.validatorPubKeyToIndex[oldKey] = oldIdx
	err := s.RefreshValidatorsFromBeaconNode(context.Background(), []phase0.BLSPubKey{oldKey, newKey})
	got := s.ValidatorsByPubKey(context.Background(), []phase0.BLSPubKey{oldKey, newKey, {9}})
	if p.mode == 0 {
		vnd.Cover("C13.retain.replaced")
		vnd.Assert(err == nil && len(got) == 1 && got[newIdx] == newRec, "C13.retain.successful-refresh-replaces")
	} else {
		vnd.Cover("C13.retain.kept")
		vnd.Assert(len(got) == 1 && got[oldIdx] == oldRec, "C13.retain.empty-or-failed-refresh-keeps-known-validators")
		vnd.Assert((p.mode == 2) == (err != nil), "C13.retain.failure-reported")
	}
	vnd.Assert(vnd.HeldLocks() == 0, "C13.retain.locks-released")
}

// VerifC17_RefreshVsLookup: a validator-set refresh overlapping a lookup has
// no unsynchronised conflicting accesses.
func VerifC17_RefreshVsLookup() {
	key := phase0.BLSPubKey{1}
	rec := &phase0.Validator{PublicKey: key}
	p := &c13Provider{mode: vnd.Choose("refresh.outcome", 3), data: map[phase0.ValidatorIndex]*apiv1.Validator{7: {Index: 7, Validator: rec}}}
	s := c13New(p, "C17.new.accepted")
	s.validatorsByIndex[5] = rec
	s.validatorsByPubKey[key] = rec
	s.validatorPubKeyToIndex[key] = 5
	go func() { _ = s.RefreshValidatorsFromBeaconNode(context.Background(), []phase0.BLSPubKey{key}) }()
	go func() { _ = s.ValidatorsByPubKey(context.Background(), []phase0.BLSPubKey{key}) }()
	left := vnd.Quiesce()
	vnd.Assert(left == 0, "C17.validators.everything-returns")
	vnd.Cover("C17.validators.overlap-explored")
}
