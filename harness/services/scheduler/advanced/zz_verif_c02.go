//go:build verif

package advanced

import (
	"context"
	"errors"
	"time"

	"github.com/attestantio/vouch/internal/vnd"
	nullmetrics "github.com/attestantio/vouch/services/metrics/null"
)

// c02New builds the scheduler the way main does: through New.
func c02New() *Service {
	s, err := New(context.Background(), WithLogLevel(vnd.LogLevel()), WithMonitor(&nullmetrics.Service{}))
	vnd.Assert(err == nil && s != nil, "C02.new.accepted")
	return s
}

func c02Delay(name string) time.Duration {
	d := time.Duration(vnd.I64(name))
	vnd.Assume(d >= 0 && d < time.Hour)
	return d
}

// VerifC02_OneOff: a one-off job that is not cancelled runs exactly once,
// whether started by its timer, by RunJob, or by both at the same instant.
func VerifC02_OneOff() {
	s := c02New()
	ctx := context.Background()
	runs := 0
	T := c02Delay("job.delay")
	err := s.ScheduleJob(ctx, "class", "job", time.Now().Add(T), func(_ context.Context) { runs++ })
	vnd.Assert(err == nil, "C02.oneoff.accepted")
	nrun := vnd.IntRange("runjob.calls", 0, 2)
	// early runs are requested with RunJob or with RunJobIfExists (what the controller uses)
	ifExists := vnd.Bool("runjob.if-exists-variant")
	results := make([]error, nrun)
	returned := make([]bool, nrun)
	for i := 0; i < nrun; i++ {
		i := i
		d := c02Delay("runjob.at")
		go func() {
			vnd.Sleep(d)
			if ifExists {
				s.RunJobIfExists(ctx, "job")
				results[i] = errors.New("no result")
			} else {
				results[i] = s.RunJob(ctx, "job")
			}
			returned[i] = true
		}()
	}
	left := vnd.Quiesce()
	vnd.Assert(left == 0, "C02.oneoff.no-goroutine-left-blocked")
	for i := 0; i < nrun; i++ {
		vnd.Assert(returned[i], "C02.oneoff.runjob-returns")
		if results[i] == nil {
			vnd.Cover("C02.oneoff.runjob-succeeded")
		}
	}
	vnd.Assert(runs >= 1, "C02.oneoff.never-silently-dropped")
	vnd.Assert(runs <= 1, "C02.oneoff.never-runs-twice")
	vnd.Assert(!s.JobExists(ctx, "job"), "C02.oneoff.job-table-empty-afterwards")
	vnd.Assert(len(s.ListJobs(ctx)) == 0, "C02.oneoff.no-jobs-listed-afterwards")
	vnd.Assert(s.ScheduleJob(ctx, "class", "job", time.Now().Add(time.Hour), func(_ context.Context) {}) == nil, "C02.oneoff.name-reusable")
	vnd.Cover("C02.oneoff.done")
}

// VerifC02_Cancel: a job cancelled clearly before its time never runs; a
// cancellation racing with the timer or RunJob still gives at most one run.
func VerifC02_Cancel() {
	s := c02New()
	parent, parentCancel := context.WithCancel(context.Background())
	runs := 0
	T := c02Delay("job.delay")
	err := s.ScheduleJob(parent, "class", "job", time.Now().Add(T), func(_ context.Context) { runs++ })
	vnd.Assert(err == nil, "C02.cancel.accepted")
	dc := c02Delay("cancel.at")
	viaParent := vnd.Bool("cancel.via-parent-context")
	var cancelErr error
	go func() {
		vnd.Sleep(dc)
		if viaParent {
			parentCancel()
		} else {
			cancelErr = s.CancelJob(context.Background(), "job")
		}
	}()
	withRun := vnd.Bool("with-runjob")
	var runErr error
	dr := time.Duration(0)
	if withRun {
		dr = c02Delay("runjob.at")
		go func() {
			vnd.Sleep(dr)
			runErr = s.RunJob(context.Background(), "job")
		}()
	}
	left := vnd.Quiesce()
	vnd.Assert(left == 0, "C02.cancel.no-goroutine-left-blocked")
	vnd.Assert(runs <= 1, "C02.cancel.never-runs-twice")
	if dc < T && (!withRun || dc < dr) {
		vnd.Cover("C02.cancel.clearly-before")
		vnd.Assert(runs == 0, "C02.cancel.cancelled-before-its-time-never-runs")
		if !viaParent {
			vnd.Assert(cancelErr == nil, "C02.cancel.cancel-succeeds")
		}
	}
	if dc > T && !withRun {
		vnd.Assert(runs == 1, "C02.cancel.late-cancel-does-not-undo-the-run")
	}
	if withRun && runErr == nil && dr < dc && !viaParent {
		vnd.Assert(runs == 1, "C02.cancel.successful-runjob-means-the-job-runs")
	}
	vnd.Assert(!s.JobExists(context.Background(), "job"), "C02.cancel.job-table-empty-afterwards")
}

// VerifC02_Periodic: a periodic job never overlaps itself and keeps ticking
// after an early run (bounded to two periods).
func VerifC02_Periodic() {
	s := c02New()
	ctx := context.Background()
	period := c02Delay("period")
	vnd.Assume(period > 0)
	work := c02Delay("job.duration")
	consulted := 0
	inflight, maxInflight, runs := 0, 0, 0
	runtimeFunc := func(_ context.Context) (time.Time, error) {
		consulted++
		if consulted > 2 {
			return time.Time{}, schedulerErrNoMoreInstances()
		}
		return time.Now().Add(period), nil
	}
	var lastStart int64
	jobFunc := func(_ context.Context) {
		inflight++
		if inflight > maxInflight {
			maxInflight = inflight
		}
		runs++
		lastStart = vnd.NowNs()
		vnd.Sleep(work)
		inflight--
	}
	err := s.SchedulePeriodicJob(ctx, "class", "tick", runtimeFunc, jobFunc)
	vnd.Assert(err == nil, "C02.periodic.accepted")
	withRun := vnd.Bool("with-runjob")
	var runErr error
	var askedAt int64
	returned := false
	if withRun {
		d := c02Delay("runjob.at")
		go func() {
			vnd.Sleep(d)
			askedAt = vnd.NowNs()
			runErr = s.RunJob(ctx, "tick")
			returned = true
		}()
	}
	left := vnd.Quiesce()
	vnd.Assert(left == 0, "C02.periodic.no-goroutine-left-blocked")
	vnd.Assert(maxInflight <= 1, "C02.periodic.never-overlaps-itself")
	vnd.Assert(consulted == 3, "C02.periodic.keeps-ticking-until-no-more-instances")
	vnd.Assert(runs >= 1, "C02.periodic.runs")
	if withRun {
		vnd.Assert(returned, "C02.periodic.runjob-returns")
		if runErr == nil {
			vnd.Cover("C02.periodic.early-run")
			// (the property promises "success means the job runs" for one-off jobs only: an early-run
			// request accepted at the very instant a periodic job takes its last tick, or ends its last
			// run, is lost with the job - DESIGN section 6, observation - so nothing is asserted here)
			_, _ = lastStart, askedAt
		}
	}
	vnd.Assert(!s.JobExists(ctx, "tick"), "C02.periodic.job-table-empty-afterwards")
}

// VerifC02_CancelGroup: cancelling a group of jobs by prefix while one member
// of the group is being started early (or cancelled on its own). Every member
// whose time lies clearly after the group cancellation and that nobody claimed
// never runs, whatever happens to the other members; the table holds no member
// afterwards.
func VerifC02_CancelGroup() { c02CancelGroup(true) }

// VerifC02_CancelGroupCancel: the same with the member cancelled on its own
// rather than started early.
func VerifC02_CancelGroupCancel() { c02CancelGroup(false) }

func c02CancelGroup(early bool) {
	s := c02New()
	ctx := context.Background()
	var runs [2]int
	var at [2]time.Duration
	names := [2]string{"grp-a", "grp-b"}
	for i := range names {
		i := i
		// grp-a at a symbolic time; the others two hours out (after everything else)
		at[i] = 2 * time.Hour
		if i == 0 {
			at[i] = c02Delay("job.delay")
		}
		err := s.ScheduleJob(ctx, "class", names[i], time.Now().Add(at[i]), func(_ context.Context) { runs[i]++ })
		vnd.Assert(err == nil, "C02.group.accepted")
	}
	dc := c02Delay("canceljobs.at")
	cancelled := false
	go func() {
		vnd.Sleep(dc)
		s.CancelJobs(ctx, "grp-")
		cancelled = true
	}()
	// one member is claimed at the same time by someone else
	dr := c02Delay("single.at")
	var singleErr error
	go func() {
		vnd.Sleep(dr)
		if early {
			singleErr = s.RunJob(ctx, "grp-a")
		} else {
			singleErr = s.CancelJob(ctx, "grp-a")
		}
	}()
	left := vnd.Quiesce()
	vnd.Assert(left == 0 && cancelled, "C02.group.cancel-returns-no-goroutine-left-blocked")
	for i := range names {
		vnd.Assert(runs[i] <= 1, "C02.group.never-runs-twice")
	}
	// grp-b is nobody's but the group cancellation's, which comes clearly before its time
	vnd.Assert(runs[1] == 0, "C02.group.member-cancelled-before-its-time-never-runs")
	if dc < at[0] && (!early || dc < dr) {
		vnd.Cover("C02.group.member-cancelled-clearly-before-its-time")
		vnd.Assert(runs[0] == 0, "C02.group.member-cancelled-before-its-time-never-runs")
	}
	if early && singleErr == nil {
		vnd.Cover("C02.group.member-started-early")
		vnd.Assert(runs[0] == 1, "C02.group.successful-runjob-means-the-job-runs")
	}
	vnd.Assert(!s.JobExists(ctx, "grp-a") && !s.JobExists(ctx, "grp-b"), "C02.group.job-table-empty-afterwards")
}

// VerifC02_Reuse: a job's name is scheduled again while the first job's
// function is still running (the controller does this after a reorg: cancel,
// then schedule the same name). The replacement is a job of its own: it stays in
// the table until it is claimed, it can be cancelled (and then never runs) or
// started early, the first job's end does not touch it, and nothing runs twice.
func VerifC02_Reuse() {
	s := c02New()
	ctx := context.Background()
	work := c02Delay("first.duration")
	vnd.Assume(work > 0)
	var runs [2]int
	T := c02Delay("first.delay")
	err := s.ScheduleJob(ctx, "class", "job", time.Now().Add(T), func(_ context.Context) { runs[0]++; vnd.Sleep(work) })
	vnd.Assert(err == nil, "C02.reuse.accepted")
	early := vnd.Bool("first.started-by-runjob")
	// the moment inside the first run at which the name is scheduled again
	into := c02Delay("reschedule.into-the-run")
	vnd.Assume(into > 0 && into < work)
	startAt := T
	if early {
		startAt = c02Delay("first.runjob-at")
		vnd.Assume(startAt < T)
		go func() {
			vnd.Sleep(startAt)
			_ = s.RunJob(ctx, "job")
		}()
	}
	then := vnd.Choose("replacement.then", 3) // 0 left alone, 1 cancelled, 2 started early
	var schedErr, thenErr, firstCancelErr error
	existsAfterFirstEnded := false
	go func() {
		vnd.Sleep(startAt + into)
		// cancelling the name first is what the controller does on a reorg: the job was
		// claimed when it started, so it is no longer there to be withdrawn (the
		// controller takes a nil answer to mean the job will not run)
		firstCancelErr = s.CancelJob(ctx, "job")
		schedErr = s.ScheduleJob(ctx, "class", "job", time.Now().Add(3*time.Hour), func(_ context.Context) { runs[1]++ })
		// wait until the first job's function has returned
		vnd.Sleep(work)
		existsAfterFirstEnded = s.JobExists(ctx, "job")
		switch then {
		case 1:
			thenErr = s.CancelJob(ctx, "job")
		case 2:
			thenErr = s.RunJob(ctx, "job")
		}
	}()
	left := vnd.Quiesce()
	vnd.Assert(left == 0, "C02.reuse.no-goroutine-left-blocked")
	vnd.Assert(runs[0] == 1, "C02.reuse.first-job-ran-once")
	vnd.Assert(firstCancelErr != nil, "C02.reuse.running-job-is-claimed-not-cancellable")
	vnd.Assert(schedErr == nil, "C02.reuse.name-of-a-claimed-job-can-be-scheduled-again")
	vnd.Assert(existsAfterFirstEnded, "C02.reuse.replacement-still-known-after-the-first-job-ended")
	vnd.Assert(runs[1] <= 1, "C02.reuse.never-runs-twice")
	switch then {
	case 0:
		vnd.Assert(runs[1] == 1, "C02.reuse.replacement-runs-at-its-time")
	case 1:
		vnd.Cover("C02.reuse.replacement-cancelled")
		vnd.Assert(thenErr == nil && runs[1] == 0, "C02.reuse.cancelled-replacement-never-runs")
	case 2:
		vnd.Cover("C02.reuse.replacement-started-early")
		vnd.Assert(thenErr == nil && runs[1] == 1, "C02.reuse.replacement-started-early-runs-once")
	}
	vnd.Assert(!s.JobExists(ctx, "job"), "C02.reuse.job-table-empty-afterwards")
}

// VerifC02_CancelReschedule: a job is cancelled and its name scheduled again
// straight away (what the controller does with its duty jobs after a reorg),
// at any moment up to and including the instant the first job's timer fires.
// The goroutine of the cancelled job deals with its cancel signal at a moment of
// its own choosing - before or after the name is taken again - and the
// replacement is untouched by it: it stays in the table until it is claimed, can
// be cancelled (and then never runs) or started early, and nothing runs twice.
func VerifC02_CancelReschedule() {
	s := c02New()
	ctx := context.Background()
	var runs [2]int
	T := c02Delay("first.delay")
	err := s.ScheduleJob(ctx, "class", "job", time.Now().Add(T), func(_ context.Context) { runs[0]++ })
	vnd.Assert(err == nil, "C02.resched.accepted")
	dc := c02Delay("cancel.at")
	vnd.Assume(dc <= T)
	then := vnd.Choose("replacement.then", 3) // 0 left alone, 1 cancelled, 2 started early
	var cancelErr, schedErr, thenErr error
	existsLater := false
	go func() {
		vnd.Sleep(dc)
		cancelErr = s.CancelJob(ctx, "job")
		schedErr = s.ScheduleJob(ctx, "class", "job", time.Now().Add(3*time.Hour), func(_ context.Context) { runs[1]++ })
		vnd.Sleep(time.Hour)
		existsLater = s.JobExists(ctx, "job")
		switch then {
		case 1:
			thenErr = s.CancelJob(ctx, "job")
		case 2:
			thenErr = s.RunJob(ctx, "job")
		}
	}()
	left := vnd.Quiesce()
	vnd.Assert(left == 0, "C02.resched.no-goroutine-left-blocked")
	vnd.Assert(runs[0] <= 1, "C02.resched.first-never-runs-twice")
	if dc < T {
		vnd.Assert(cancelErr == nil && runs[0] == 0, "C02.resched.job-cancelled-before-its-time-never-runs")
	} else {
		vnd.Cover("C02.resched.cancel-at-the-instant-the-timer-fires")
	}
	vnd.Assert(schedErr == nil, "C02.resched.name-free-after-cancel")
	vnd.Assert(existsLater, "C02.resched.replacement-still-known-an-hour-later")
	vnd.Assert(runs[1] <= 1, "C02.resched.never-runs-twice")
	switch then {
	case 0:
		vnd.Assert(runs[1] == 1, "C02.resched.replacement-runs-at-its-time")
	case 1:
		vnd.Cover("C02.resched.replacement-cancelled")
		vnd.Assert(thenErr == nil && runs[1] == 0, "C02.resched.cancelled-replacement-never-runs")
	case 2:
		vnd.Cover("C02.resched.replacement-started-early")
		vnd.Assert(thenErr == nil && runs[1] == 1, "C02.resched.replacement-started-early-runs-once")
	}
	vnd.Assert(!s.JobExists(ctx, "job"), "C02.resched.job-table-empty-afterwards")
}

// VerifC02_PeriodicEarlyThenCancel: a periodic job (two-hour period, three more ticks to come) is
// started early within its first hour - through RunJob, through RunJobIfExists (what the controller
// uses for its jobs), or not at all - and is afterwards either left alone or cancelled, clearly
// before its next tick. Left alone it keeps ticking after the early run; cancelled it never runs
// again. Nothing is left blocked either way.
func VerifC02_PeriodicEarlyThenCancel() {
	s := c02New()
	ctx := context.Background()
	period := 2 * time.Hour
	consulted, runs := 0, 0
	runtimeFunc := func(_ context.Context) (time.Time, error) {
		consulted++
		if consulted > 3 {
			return time.Time{}, schedulerErrNoMoreInstances()
		}
		return time.Now().Add(period), nil
	}
	err := s.SchedulePeriodicJob(ctx, "class", "tick", runtimeFunc, func(_ context.Context) { runs++ })
	vnd.Assert(err == nil, "C02.periodic2.accepted")
	vnd.Sleep(c02Delay("early.at"))
	how := vnd.Choose("early-run-by", 3)
	switch how {
	case 1:
		vnd.Assert(s.RunJob(ctx, "tick") == nil, "C02.periodic2.early-run-of-a-waiting-job-accepted")
	case 2:
		s.RunJobIfExists(ctx, "tick")
	}
	vnd.Sleep(time.Second) // the early run, if any, happens now: the next tick is an hour or more away
	early := 0
	if how != 0 {
		early = 1
		vnd.Cover("C02.periodic2.early-run")
	}
	vnd.Assert(runs == early, "C02.periodic2.early-run-runs-the-job-once-and-only-when-asked")
	if vnd.Bool("cancelled-afterwards") {
		cerr := s.CancelJob(ctx, "tick")
		left := vnd.Quiesce()
		vnd.Assert(left == 0, "C02.periodic2.no-goroutine-left-blocked")
		vnd.Assert(runs == early, "C02.periodic2.cancelled-clearly-before-its-next-tick-never-runs-again")
		vnd.Assert(cerr == nil, "C02.periodic2.cancel-of-a-ticking-job-succeeds")
		vnd.Cover("C02.periodic2.cancelled")
	} else {
		left := vnd.Quiesce()
		vnd.Assert(left == 0, "C02.periodic2.no-goroutine-left-blocked")
		vnd.Assert(runs > early, "C02.periodic2.keeps-ticking-after-an-early-run")
		vnd.Assert(consulted == 4, "C02.periodic2.ticks-until-no-more-instances")
	}
	vnd.Assert(!s.JobExists(ctx, "tick"), "C02.periodic2.job-table-empty-afterwards")
}
