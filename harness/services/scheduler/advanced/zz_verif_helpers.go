//go:build verif

package advanced

import "github.com/attestantio/vouch/services/scheduler"

func schedulerErrNoMoreInstances() error { return scheduler.ErrNoMoreInstances }
