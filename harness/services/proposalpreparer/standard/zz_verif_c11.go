//go:build verif

package standard

import (
	"context"
	"errors"

	eth2client "github.com/attestantio/go-eth2-client"
	apiv1 "github.com/attestantio/go-eth2-client/api/v1"
	"github.com/attestantio/go-eth2-client/spec/bellatrix"
	"github.com/attestantio/go-eth2-client/spec/phase0"
	"github.com/attestantio/vouch/internal/vnd"
	"github.com/attestantio/vouch/internal/vstub"
	"github.com/attestantio/vouch/services/accountmanager"
	"github.com/attestantio/vouch/services/beaconblockproposer"
	"github.com/attestantio/vouch/services/blockrelay"
	"github.com/attestantio/vouch/services/chaintime"
	nullmetrics "github.com/attestantio/vouch/services/metrics/null"
	e2wtypes "github.com/wealdtech/go-eth2-wallet-types/v2"
)

// c11New builds the service through its constructor.
func c11New(ct chaintime.Service, acc accountmanager.ValidatingAccountsProvider, cfg blockrelay.ExecutionConfigProvider, submitters []eth2client.ProposalPreparationsSubmitter) *Service {
	s, err := New(context.Background(), WithLogLevel(vnd.LogLevel()), WithMonitor(&nullmetrics.Service{}),
		WithChainTimeService(ct), WithValidatingAccountsProvider(acc), WithExecutionConfigProvider(cfg),
		WithProposalPreparationsSubmitters(submitters))
	vnd.Assert(err == nil && s != nil, "C11.new.accepted")
	return s
}

const (
	pcResolved = iota
	pcError
	pcNil
)

type c11Accounts struct {
	accounts map[phase0.ValidatorIndex]e2wtypes.Account
	asked    []phase0.Epoch
}

func (a *c11Accounts) ValidatingAccountsForEpoch(_ context.Context, epoch phase0.Epoch) (map[phase0.ValidatorIndex]e2wtypes.Account, error) {
	a.asked = append(a.asked, epoch)
	return a.accounts, nil
}
func (a *c11Accounts) ValidatingAccountsForEpochByIndex(_ context.Context, _ phase0.Epoch, _ []phase0.ValidatorIndex) (map[phase0.ValidatorIndex]e2wtypes.Account, error) {
	return nil, errors.New("not used")
}
func (a *c11Accounts) SyncCommitteeAccountsForEpoch(_ context.Context, _ phase0.Epoch) (map[phase0.ValidatorIndex]e2wtypes.Account, error) {
	return nil, errors.New("not used")
}
func (a *c11Accounts) SyncCommitteeAccountsForEpochByIndex(_ context.Context, _ phase0.Epoch, _ []phase0.ValidatorIndex) (map[phase0.ValidatorIndex]e2wtypes.Account, error) {
	return nil, errors.New("not used")
}

type c11Config struct {
	mode map[uint64]int
	fee  map[uint64]bellatrix.ExecutionAddress
}

func (c *c11Config) ProposerConfig(_ context.Context, account e2wtypes.Account, _ phase0.BLSPubKey) (*beaconblockproposer.ProposerConfig, error) {
	tag := account.(*vstub.Account).Tag
	switch c.mode[tag] {
	case pcError:
		return nil, errors.New("mock proposer config failure")
	case pcNil:
		return nil, nil
	}
	return &beaconblockproposer.ProposerConfig{FeeRecipient: c.fee[tag]}, nil
}

const (
	ndOK = iota
	ndNotActive
	ndFails
)

type c11Node struct {
	name  string
	mode  int
	calls [][]*apiv1.ProposalPreparation
}

func (n *c11Node) Name() string    { return n.name }
func (n *c11Node) Address() string { return n.name }
func (n *c11Node) IsActive() bool  { return n.mode != ndNotActive }
func (n *c11Node) IsSynced() bool  { return true }
func (n *c11Node) SubmitProposalPreparations(_ context.Context, preps []*apiv1.ProposalPreparation) error {
	n.calls = append(n.calls, preps)
	switch n.mode {
	case ndNotActive:
		return eth2client.ErrNotActive
	case ndFails:
		return errors.New("mock node failure")
	}
	return nil
}

// VerifC11_Preparations: every configured beacon node is handed, once, a
// proposal preparation for each validating account of the next epoch whose
// proposer settings resolve - its index with its resolved fee recipient - and
// nothing else (no empty entries); an account whose settings fail or are missing
// and a node that fails or is not ready do not stop the others.
func VerifC11_Preparations() {
	ct := vstub.NewChainTime(0)
	n := vnd.IntRange("accounts", 1, 3)
	acc := &c11Accounts{accounts: map[phase0.ValidatorIndex]e2wtypes.Account{}}
	cfg := &c11Config{mode: map[uint64]int{}, fee: map[uint64]bellatrix.ExecutionAddress{}}
	for i := 0; i < n; i++ {
		tag := uint64(i + 1)
		a := &vstub.Account{Tag: tag, VIndex: 100 + tag, Nm: "acc"}
		a.Key.B[0] = byte(tag)
		acc.accounts[phase0.ValidatorIndex(100+tag)] = a
		cfg.mode[tag] = vnd.Choose("proposer-config", 3)
		cfg.fee[tag] = bellatrix.ExecutionAddress(vnd.Addr("fee-recipient"))
	}
	nodes := []*c11Node{{name: "node-a"}, {name: "node-b"}}
	var submitters []eth2client.ProposalPreparationsSubmitter
	for _, nd := range nodes {
		nd.mode = vnd.Choose("node", 3)
		submitters = append(submitters, nd)
	}
	s := c11New(ct, acc, cfg, submitters)
	err := s.UpdatePreparations(context.Background())
	vnd.Assert(err == nil, "C11.preparations.no-error")
	vnd.Assert(vnd.Quiesce() == 0, "C11.preparations.goroutine-finishes")
	vnd.Assert(len(acc.asked) == 1 && uint64(acc.asked[0]) == uint64(ct.Cur)/ct.SPE+1, "C11.preparations.accounts-about-to-be-active")
	for _, nd := range nodes {
		vnd.Assert(len(nd.calls) == 1, "C11.preparations.every-node-handed-the-preparations-once-despite-other-failures")
		if len(nd.calls) != 1 {
			continue
		}
		preps := nd.calls[0]
		resolved := 0
		for i := 0; i < n; i++ {
			tag := uint64(i + 1)
			found := 0
			for _, p := range preps {
				vnd.Assert(p != nil, "C11.preparations.no-empty-entry")
				if p != nil && uint64(p.ValidatorIndex) == 100+tag {
					found++
					vnd.Assert(p.FeeRecipient == cfg.fee[tag], "C11.preparations.resolved-fee-recipient")
				}
			}
			if cfg.mode[tag] == pcResolved {
				resolved++
				vnd.Cover("C11.preparations.validator-prepared")
				vnd.Assert(found == 1, "C11.preparations.one-preparation-per-resolved-validator")
			} else {
				vnd.Cover("C11.preparations.validator-unresolved")
				vnd.Assert(found == 0, "C11.preparations.none-for-unresolved-validator")
			}
		}
		vnd.Assert(len(preps) == resolved, "C11.preparations.nothing-else")
	}
}
