//go:build verif

package main

import (
	"context"
	"time"

	eth2client "github.com/attestantio/go-eth2-client"
	"github.com/attestantio/go-eth2-client/api"
	apiv1 "github.com/attestantio/go-eth2-client/api/v1"
	"github.com/attestantio/go-eth2-client/spec"
	"github.com/attestantio/go-eth2-client/spec/altair"
	"github.com/attestantio/go-eth2-client/spec/capella"
	"github.com/attestantio/go-eth2-client/spec/phase0"
	"github.com/attestantio/vouch/internal/vnd"
	nullmetrics "github.com/attestantio/vouch/services/metrics/null"
	"github.com/attestantio/vouch/services/submitter"
	"github.com/spf13/viper"
)

// c08MainNode is a beacon node that accepts everything and notes what kind of thing it was offered.
type c08MainNode struct {
	name string
	got  map[string]int
}

func (n *c08MainNode) Name() string    { return n.name }
func (n *c08MainNode) Address() string { return n.name }
func (n *c08MainNode) IsActive() bool  { return true }
func (n *c08MainNode) IsSynced() bool  { return true }
func (n *c08MainNode) NodeVersion(_ context.Context, _ *api.NodeVersionOpts) (*api.Response[string], error) {
	return &api.Response[string]{Data: "Lodestar/v1", Metadata: map[string]any{}}, nil
}
func (n *c08MainNode) SubmitAttestations(_ context.Context, _ []*phase0.Attestation) error {
	n.got["attestation"]++
	return nil
}
func (n *c08MainNode) SubmitAggregateAttestations(_ context.Context, _ []*phase0.SignedAggregateAndProof) error {
	n.got["aggregateattestation"]++
	return nil
}
func (n *c08MainNode) SubmitProposal(_ context.Context, _ *api.SubmitProposalOpts) error {
	n.got["proposal"]++
	return nil
}
func (n *c08MainNode) SubmitBeaconCommitteeSubscriptions(_ context.Context, _ []*apiv1.BeaconCommitteeSubscription) error {
	n.got["beaconcommitteesubscription"]++
	return nil
}
func (n *c08MainNode) SubmitProposalPreparations(_ context.Context, _ []*apiv1.ProposalPreparation) error {
	n.got["proposalpreparation"]++
	return nil
}
func (n *c08MainNode) SubmitSyncCommitteeMessages(_ context.Context, _ []*altair.SyncCommitteeMessage) error {
	n.got["synccommitteemessage"]++
	return nil
}
func (n *c08MainNode) SubmitSyncCommitteeContributions(_ context.Context, _ []*altair.SignedContributionAndProof) error {
	n.got["synccommitteecontribution"]++
	return nil
}
func (n *c08MainNode) SubmitSyncCommitteeSubscriptions(_ context.Context, _ []*apiv1.SyncCommitteeSubscription) error {
	n.got["synccommitteesubscription"]++
	return nil
}

var _ eth2client.Service = (*c08MainNode)(nil)

var c08Kinds = []string{"attestation", "aggregateattestation", "proposal", "beaconcommitteesubscription", "proposalpreparation", "synccommitteemessage", "synccommitteecontribution", "synccommitteesubscription"}

// VerifC08_SubmitterWiring: the multinode submitter as main builds it from the
// configuration (startMultinodeSubmitter): every kind of submission has its own
// list of beacon nodes (here: one node of its own each, plus a node common to all
// kinds or not), and a submission of a kind is offered to exactly the nodes
// configured for that kind.
func VerifC08_SubmitterWiring() {
	viper.Reset()
	viper.Set("timeout", 2*time.Second)
	viper.Set("process-concurrency", int64(4))
	common := vnd.Bool("a-node-common-to-all-kinds")
	nodes := map[string]*c08MainNode{}
	mk := func(name string) *c08MainNode {
		nd := &c08MainNode{name: name, got: map[string]int{}}
		nodes[name] = nd
		knownClientsMu.Lock()
		knownClients[name] = nd
		knownClientsMu.Unlock()
		return nd
	}
	mk("common:5052")
	for _, k := range c08Kinds {
		mk(k + ":5052")
		addrs := []string{k + ":5052"}
		if common {
			addrs = append(addrs, "common:5052")
		}
		viper.Set("submitter."+k+".multinode.beacon-node-addresses", addrs)
	}
	s, err := startMultinodeSubmitter(context.Background(), nullmetrics.New())
	vnd.Assert(err == nil && s != nil, "C08.wiring.submitter-starts")
	if err != nil || s == nil {
		return
	}
	kind := vnd.Choose("kind", len(c08Kinds))
	ctx := context.Background()
	switch c08Kinds[kind] {
	case "attestation":
		err = s.(submitter.AttestationsSubmitter).SubmitAttestations(ctx, []*phase0.Attestation{{Data: &phase0.AttestationData{Slot: 7, Source: &phase0.Checkpoint{}, Target: &phase0.Checkpoint{}}}})
	case "aggregateattestation":
		err = s.(submitter.AggregateAttestationsSubmitter).SubmitAggregateAttestations(ctx, []*phase0.SignedAggregateAndProof{{Message: &phase0.AggregateAndProof{Aggregate: &phase0.Attestation{Data: &phase0.AttestationData{Slot: 7}}}}})
	case "proposal":
		err = s.(submitter.ProposalSubmitter).SubmitProposal(ctx, &api.VersionedSignedProposal{Version: spec.DataVersionCapella, Capella: &capella.SignedBeaconBlock{Message: &capella.BeaconBlock{Slot: 7}}})
	case "beaconcommitteesubscription":
		err = s.(submitter.BeaconCommitteeSubscriptionsSubmitter).SubmitBeaconCommitteeSubscriptions(ctx, []*apiv1.BeaconCommitteeSubscription{{Slot: 7}})
	case "proposalpreparation":
		err = s.(submitter.ProposalPreparationsSubmitter).SubmitProposalPreparations(ctx, []*apiv1.ProposalPreparation{{ValidatorIndex: 1}})
	case "synccommitteemessage":
		err = s.(submitter.SyncCommitteeMessagesSubmitter).SubmitSyncCommitteeMessages(ctx, []*altair.SyncCommitteeMessage{{Slot: 7}})
	case "synccommitteecontribution":
		err = s.(submitter.SyncCommitteeContributionsSubmitter).SubmitSyncCommitteeContributions(ctx, []*altair.SignedContributionAndProof{{Message: &altair.ContributionAndProof{Contribution: &altair.SyncCommitteeContribution{Slot: 7}}}})
	case "synccommitteesubscription":
		err = s.(submitter.SyncCommitteeSubscriptionsSubmitter).SubmitSyncCommitteeSubscriptions(ctx, []*apiv1.SyncCommitteeSubscription{{ValidatorIndex: 1}})
	}
	vnd.Quiesce()
	vnd.Assert(err == nil, "C08.wiring.accepted-submission-succeeds")
	for name, nd := range nodes {
		total := 0
		for _, c := range nd.got {
			total += c
		}
		configured := name == c08Kinds[kind]+":5052" || (common && name == "common:5052")
		if configured {
			vnd.Assert(total == 1 && nd.got[c08Kinds[kind]] == 1, "C08.wiring.offered-to-every-node-configured-for-the-kind")
		} else {
			vnd.Assert(total == 0, "C08.wiring.offered-to-no-other-node")
		}
	}
	vnd.Cover("C08.wiring.checked")
}
