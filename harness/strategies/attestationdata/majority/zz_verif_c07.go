//go:build verif

package majority

import (
	"context"
	"errors"
	"time"

	eth2client "github.com/attestantio/go-eth2-client"
	"github.com/attestantio/go-eth2-client/api"
	"github.com/attestantio/go-eth2-client/spec/phase0"
	"github.com/attestantio/vouch/internal/vnd"
	"github.com/attestantio/vouch/internal/vstub"
)

const (
	mValidA = iota
	mValidB
	mError
	mWrongEpoch
)

type c07Provider struct {
	name    string
	latency time.Duration
	outcome int
	data    *phase0.AttestationData
	calls   int
}

func (p *c07Provider) AttestationData(ctx context.Context, _ *api.AttestationDataOpts) (*api.Response[*phase0.AttestationData], error) {
	p.calls++
	// like a real HTTP client the node stub gives up when the context it was called with ends
	select {
	case <-ctx.Done():
		return nil, ctx.Err()
	case <-time.After(p.latency):
	}
	if p.outcome == mError {
		return nil, errors.New("mock provider error")
	}
	return &api.Response[*phase0.AttestationData]{Data: p.data, Metadata: map[string]any{}}, nil
}

type c07Cache struct{}

func (c *c07Cache) BlockRootToSlot(_ context.Context, root phase0.Root) (phase0.Slot, error) {
	return phase0.Slot(root[0]), nil
}

const c07Slot = phase0.Slot(32*10 + 5)

// c07New builds the strategy the way main does: through New.
func c07New(timeout time.Duration, ct *vstub.ChainTime, cache *c07Cache, threshold int, providers map[string]eth2client.AttestationDataProvider) *Service {
	s, err := New(context.Background(), WithLogLevel(vnd.LogLevel()), WithClientMonitor(vstub.ClientMonitor{}),
		WithTimeout(timeout), WithProcessConcurrency(int64(len(providers))), WithAttestationDataProviders(providers),
		WithChainTime(ct), WithBlockRootToSlotCache(cache), WithThreshold(threshold))
	vnd.Assert(err == nil && s != nil, "C07.new.accepted")
	return s
}

// VerifC07_Majority: the majority strategy returns the most frequently reported
// value whenever at least `threshold` nodes reported it within the timeout and
// never otherwise.
func VerifC07_Majority() { c07Majority(2, 3) }

// VerifC07_Majority3: three nodes that all answer with one of two values.
func VerifC07_Majority3() { c07Majority(3, 2) }

// VerifC07_Majority3Full: three nodes, errors included (thorough tier).
func VerifC07_Majority3Full() { c07Majority(3, 3) }

// VerifC07_MajorityInvalid adds the invalid (wrong target epoch) outcome.
func VerifC07_MajorityInvalid() { c07Majority(2, 4) }

func c07Majority(n int, outcomes int) {
	vstub.SPEChoices = []uint64{32}
	ct := vstub.NewChainTime(0)
	timeout := time.Duration(vnd.I64("timeout"))
	vnd.Assume(timeout >= 2 && timeout <= 60000) // virtual nanoseconds: only the order of instants matters
	threshold := vnd.IntRange("threshold", 1, n)
	providers := map[string]eth2client.AttestationDataProvider{}
	provs := make([]*c07Provider, n)
	// the second value differs from the first in its head, or shares the head and differs in its source
	// checkpoint (nodes that disagree on justification around an epoch boundary)
	bSharesHead := vnd.Bool("second-value.shares-head")
	for i := 0; i < n; i++ {
		p := &c07Provider{name: []string{"node-a", "node-b", "node-c"}[i]}
		p.latency = time.Duration(vnd.I64("latency"))
		vnd.Assume(p.latency >= 0 && p.latency <= 120000)
		p.outcome = vnd.Choose("outcome", outcomes)
		p.data = &phase0.AttestationData{Slot: c07Slot, BeaconBlockRoot: phase0.Root{1}, Source: &phase0.Checkpoint{Epoch: 8}, Target: &phase0.Checkpoint{Epoch: 10}}
		switch p.outcome {
		case mValidB:
			if bSharesHead {
				p.data.Source.Epoch = 7
			} else {
				p.data.BeaconBlockRoot = phase0.Root{2}
			}
		case mWrongEpoch:
			p.data.Target.Epoch = 9
		}
		provs[i] = p
		providers[p.name] = p
	}
	s := c07New(timeout, ct, &c07Cache{}, threshold, providers)
	start := vnd.NowNs()
	resp, err := s.AttestationData(context.Background(), &api.AttestationDataOpts{Slot: c07Slot})
	elapsed := time.Duration(vnd.NowNs() - start)
	vnd.Assert(elapsed <= timeout, "C07.majority.returns-within-timeout")
	left := vnd.Quiesce()
	vnd.Assert(left == 0, "C07.majority.provider-goroutines-terminate")

	// votes reported strictly before the timeout, and by the time of return
	count := func(kind int, before time.Duration, strict bool) uint64 {
		c := uint64(0)
		for _, p := range provs {
			if p.outcome == kind {
				in := p.latency <= before
				if strict {
					in = p.latency < before
				}
				c += vnd.IteU64(in, 1, 0)
			}
		}
		return c
	}
	aIn, bIn := count(mValidA, timeout, true), count(mValidB, timeout, true)
	th := uint64(threshold)
	if err != nil {
		vnd.Cover("C07.majority.error")
		vnd.Assert(resp == nil, "C07.majority.error-without-data")
		// an error is wrong when one value is the unique most frequent one and reached the threshold in time
		vnd.Assert(!vnd.And(aIn >= th, aIn > bIn), "C07.majority.value-with-threshold-votes-in-time-is-used")
		vnd.Assert(!vnd.And(bIn >= th, bIn > aIn), "C07.majority.value-with-threshold-votes-in-time-is-used")
		return
	}
	vnd.Cover("C07.majority.answer")
	isA := resp.Data.BeaconBlockRoot == phase0.Root{1} && resp.Data.Source.Epoch == 8
	isB := resp.Data.BeaconBlockRoot == phase0.Root{2} && resp.Data.Source.Epoch == 8
	if bSharesHead {
		isB = resp.Data.BeaconBlockRoot == phase0.Root{1} && resp.Data.Source.Epoch == 7
	}
	vnd.Assert((isA || isB) && resp.Data.Target.Epoch == 10, "C07.majority.answer-is-a-valid-reported-value")
	aBy, bBy := count(mValidA, elapsed, false), count(mValidB, elapsed, false)
	if isA {
		vnd.Assert(aBy >= th, "C07.majority.never-used-below-threshold")
		vnd.Assert(vnd.Not(vnd.And(bIn > aIn, count(mValidB, elapsed, true) > aBy)), "C07.majority.most-frequent-value")
	} else {
		vnd.Assert(bBy >= th, "C07.majority.never-used-below-threshold")
		vnd.Assert(vnd.Not(vnd.And(aIn > bIn, count(mValidA, elapsed, true) > bBy)), "C07.majority.most-frequent-value")
	}
}
