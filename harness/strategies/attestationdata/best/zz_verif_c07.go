//go:build verif

package best

import (
	"context"
	"errors"
	"time"

	eth2client "github.com/attestantio/go-eth2-client"
	"github.com/attestantio/go-eth2-client/api"
	"github.com/attestantio/go-eth2-client/spec/phase0"
	"github.com/attestantio/vouch/internal/vnd"
	"github.com/attestantio/vouch/internal/vstub"
)

// outcome of a provider
const (
	oValid = iota
	oError
	oNilData
	oNilTarget
	oWrongEpoch
	nOutcomes
)

type c07Provider struct {
	name    string
	latency time.Duration
	outcome int
	data    *phase0.AttestationData
	calls   int
}

func (p *c07Provider) AttestationData(ctx context.Context, _ *api.AttestationDataOpts) (*api.Response[*phase0.AttestationData], error) {
	p.calls++
	// like a real HTTP client the node stub gives up when the context it was called with ends
	select {
	case <-ctx.Done():
		return nil, ctx.Err()
	case <-time.After(p.latency):
	}
	switch p.outcome {
	case oError:
		return nil, errors.New("mock provider error")
	case oNilData:
		return &api.Response[*phase0.AttestationData]{Data: nil, Metadata: map[string]any{}}, nil
	}
	return &api.Response[*phase0.AttestationData]{Data: p.data, Metadata: map[string]any{}}, nil
}

type c07Cache struct{ slots map[phase0.Root]phase0.Slot }

func (c *c07Cache) BlockRootToSlot(_ context.Context, root phase0.Root) (phase0.Slot, error) {
	if s, ok := c.slots[root]; ok {
		return s, nil
	}
	return 0, errors.New("unknown root")
}

const c07Slot = phase0.Slot(32*10 + 5)

// c07New builds the strategy the way main does: through New.
func c07New(timeout time.Duration, ct *vstub.ChainTime, cache *c07Cache, providers map[string]eth2client.AttestationDataProvider) *Service {
	s, err := New(context.Background(), WithLogLevel(vnd.LogLevel()), WithClientMonitor(vstub.ClientMonitor{}),
		WithTimeout(timeout), WithProcessConcurrency(int64(len(providers))), WithAttestationDataProviders(providers),
		WithChainTime(ct), WithBlockRootToSlotCache(cache))
	vnd.Assert(err == nil && s != nil, "C07.new.accepted")
	return s
}

// c07Setup builds n providers with symbolic latency and outcome; valid
// responses differ in source epoch and head slot (concrete choices, so that the
// float64 scores are computed exactly).
func c07Setup(n int) (*Service, []*c07Provider, time.Duration) {
	vstub.SPEChoices = []uint64{32}
	ct := vstub.NewChainTime(0)
	cache := &c07Cache{slots: map[phase0.Root]phase0.Slot{}}
	timeout := time.Duration(vnd.I64("timeout"))
	vnd.Assume(timeout >= 2 && timeout <= 60000) // virtual nanoseconds: only the order of instants matters
	providers := map[string]eth2client.AttestationDataProvider{}
	provs := make([]*c07Provider, n)
	for i := 0; i < n; i++ {
		p := &c07Provider{name: []string{"node-a", "node-b", "node-c"}[i]}
		p.latency = time.Duration(vnd.I64("latency"))
		vnd.Assume(p.latency >= 0 && p.latency <= 120000)
		p.outcome = vnd.Choose("outcome", nOutcomes)
		root := phase0.Root{byte(i + 1)}
		p.data = &phase0.AttestationData{Slot: c07Slot, BeaconBlockRoot: root,
			Source: &phase0.Checkpoint{Epoch: 8}, Target: &phase0.Checkpoint{Epoch: 10}}
		cache.slots[root] = c07Slot
		switch p.outcome {
		case oValid:
			// head 0 or 1 slots behind, source epoch 8 or 9: four distinct scores
			if !c07Narrow {
				cache.slots[root] = c07Slot - phase0.Slot(vnd.Choose("head.back", 2))
			}
			p.data.Source.Epoch = phase0.Epoch(8 + vnd.Choose("source", 2))
		case oNilTarget:
			p.data.Target = nil
		case oWrongEpoch:
			p.data.Target.Epoch = phase0.Epoch(9 + 2*vnd.Choose("wrong.epoch", 2)) // 9 or 11
		}
		provs[i] = p
		providers[p.name] = p
	}
	return c07New(timeout, ct, cache, providers), provs, timeout
}

// VerifC07_Best: the best strategy returns within its timeout the
// highest-scoring valid response received by its decision point; errors
// exactly when no valid response arrived in time.
func VerifC07_Best() { c07Best(vnd.IntRange("n", 1, 2)) }

// VerifC07_Best3: three nodes (thorough); a valid answer has one of two scores (source epoch
// 8 or 9, head never behind) instead of four.
func VerifC07_Best3() {
	c07Narrow = true
	c07Best(3)
}

// c07Narrow: fewer score levels per valid answer.
var c07Narrow bool

func c07Best(n int) {
	s, provs, timeout := c07Setup(n)
	start := vnd.NowNs()
	resp, err := s.AttestationData(context.Background(), &api.AttestationDataOpts{Slot: c07Slot})
	elapsed := time.Duration(vnd.NowNs() - start)
	vnd.Assert(elapsed <= timeout, "C07.best.returns-within-timeout")
	left := vnd.Quiesce()
	vnd.Assert(left == 0, "C07.best.provider-goroutines-terminate")

	anyValidInTime, anyValidBeforeSoft := false, false
	for _, p := range provs {
		vnd.Assert(p.calls == 1, "C07.best.every-provider-asked-once")
		if p.outcome == oValid {
			anyValidInTime = vnd.Or(anyValidInTime, p.latency < timeout)
			anyValidBeforeSoft = vnd.Or(anyValidBeforeSoft, p.latency < timeout/2)
		}
	}
	if anyValidBeforeSoft {
		vnd.Cover("C07.best.valid-before-soft-timeout")
		vnd.Assert(elapsed <= timeout/2, "C07.best.returns-by-soft-timeout-when-it-has-a-response")
	}
	if err != nil {
		vnd.Cover("C07.best.error")
		vnd.Assert(resp == nil, "C07.best.error-without-data")
		vnd.Assert(!anyValidInTime, "C07.best.error-only-when-no-valid-response-in-time")
		return
	}
	vnd.Cover("C07.best.answer")
	// the answer is a valid response some provider gave, received by the return time
	var chosen *c07Provider
	for _, p := range provs {
		if resp.Data == p.data {
			chosen = p
		}
	}
	vnd.Assert(chosen != nil, "C07.best.answer-is-a-providers-response")
	vnd.Assert(chosen.outcome == oValid, "C07.best.invalid-responses-never-returned")
	vnd.Assert(chosen.latency <= elapsed, "C07.best.answer-arrived-before-return")
	cs := s.scoreAttestationData(context.Background(), chosen.name, chosen.data)
	exact := true
	for i, p := range provs {
		exact = vnd.And(exact, vnd.And(p.latency != timeout/2, p.latency != timeout))
		for j := 0; j < i; j++ {
			exact = vnd.And(exact, p.latency != provs[j].latency)
		}
	}
	for _, p := range provs {
		if p.outcome == oValid && p != chosen {
			ps := s.scoreAttestationData(context.Background(), p.name, p.data)
			// every valid response that arrived strictly before the return scores no higher
			vnd.Assert(vnd.Implies(p.latency < elapsed, ps <= cs), "C07.best.highest-score-among-responses-received")
			// without coincidences (no two answers at one instant, none at a deadline) that
			// includes the answer whose arrival ended the wait
			vnd.Assert(vnd.Implies(vnd.And(exact, p.latency <= elapsed), ps <= cs), "C07.best.highest-score-among-responses-received-exact")
		}
	}
}
