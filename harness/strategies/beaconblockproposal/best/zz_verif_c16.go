//go:build verif

package best

import (
	"context"
	"errors"
	"time"

	eth2client "github.com/attestantio/go-eth2-client"
	"github.com/attestantio/go-eth2-client/api"
	"github.com/attestantio/vouch/internal/vnd"
	"github.com/attestantio/vouch/internal/vstub"
)

type c16Node struct {
	client string
	opts   []*api.ProposalOpts
}

func (n *c16Node) Proposal(_ context.Context, opts *api.ProposalOpts) (*api.Response[*api.VersionedProposal], error) {
	n.opts = append(n.opts, opts)
	return nil, errors.New("mock: no proposal")
}
func (n *c16Node) NodeClient(_ context.Context) (*api.Response[string], error) {
	return &api.Response[string]{Data: n.client, Metadata: map[string]any{}}, nil
}

// VerifC16_ClientGraffiti: a {{CLIENT}} graffiti template never crashes the
// proposal strategy, whatever the length of the node's client name; the node is
// asked with a 32-byte graffiti in which the template is replaced.
func VerifC16_ClientGraffiti() {
	clients := []string{"teku", "lighthouse", "a-very-long-client-name-exceeding-the-graffiti-size", ""}
	node := &c16Node{client: clients[vnd.Choose("client-name", len(clients))]}
	templates := []string{"{{CLIENT}}", "vouch {{CLIENT}}", "0123456789012345678901{{CLIENT}}", "no template here"}
	tmpl := templates[vnd.Choose("template", len(templates))]
	var graffiti [32]byte
	copy(graffiti[:], tmpl)
	s := c07New(time.Second, vstub.NewChainTime(0), map[string]eth2client.ProposalProvider{"node-a": node}, "C16.new.accepted")
	_, err := s.Proposal(context.Background(), &api.ProposalOpts{Slot: 5, Graffiti: graffiti})
	vnd.Quiesce()
	vnd.Cover("C16.graffiti.survived")
	vnd.Assert(err != nil, "C16.graffiti.error-when-no-node-delivers")
	vnd.Assert(len(node.opts) == 1, "C16.graffiti.node-asked")
}
