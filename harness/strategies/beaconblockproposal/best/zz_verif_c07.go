//go:build verif

package best

import (
	"context"
	"errors"
	"math/big"
	"time"

	eth2client "github.com/attestantio/go-eth2-client"
	"github.com/attestantio/go-eth2-client/api"
	apiv1deneb "github.com/attestantio/go-eth2-client/api/v1/deneb"
	"github.com/attestantio/go-eth2-client/spec"
	"github.com/attestantio/go-eth2-client/spec/bellatrix"
	"github.com/attestantio/go-eth2-client/spec/capella"
	"github.com/attestantio/go-eth2-client/spec/deneb"
	"github.com/attestantio/go-eth2-client/spec/phase0"
	"github.com/attestantio/vouch/internal/vnd"
	"github.com/attestantio/vouch/internal/vstub"
	"github.com/holiman/uint256"
)

// c07Fork: the data version of the proposals of a run, one of c07Forks.
var c07Fork spec.DataVersion
var c07Forks = []spec.DataVersion{spec.DataVersionCapella}

type c07Node struct {
	name     string
	latency  time.Duration
	outcome  int // 0 valid, 1 error, 2 zero fee recipient, 3 proposal with its data missing
	proposal *api.VersionedProposal
	calls    int
}

func (n *c07Node) Proposal(ctx context.Context, _ *api.ProposalOpts) (*api.Response[*api.VersionedProposal], error) {
	n.calls++
	// like a real HTTP client the node stub gives up when the context it was called with ends
	select {
	case <-ctx.Done():
		return nil, ctx.Err()
	case <-time.After(n.latency):
	}
	if n.outcome == 1 {
		return nil, errors.New("mock provider error")
	}
	return &api.Response[*api.VersionedProposal]{Data: n.proposal, Metadata: map[string]any{}}, nil
}

// c07Chain stands for the beacon node New talks to: it states the chain
// specification, accepts the head event subscription (no event is ever
// delivered), and has neither blocks nor block roots to offer.
type c07Chain struct{}

func (c *c07Chain) Spec(_ context.Context, _ *api.SpecOpts) (*api.Response[map[string]any], error) {
	return &api.Response[map[string]any]{Data: map[string]any{"SLOTS_PER_EPOCH": uint64(32)}, Metadata: map[string]any{}}, nil
}

func (c *c07Chain) Events(_ context.Context, _ []string, _ eth2client.EventHandlerFunc) error {
	return nil
}

func (c *c07Chain) SignedBeaconBlock(_ context.Context, _ *api.SignedBeaconBlockOpts) (*api.Response[*spec.VersionedSignedBeaconBlock], error) {
	return nil, errors.New("mock: no block")
}

func (c *c07Chain) BlockRootToSlot(_ context.Context, _ phase0.Root) (phase0.Slot, error) {
	return 0, errors.New("mock: unknown root")
}

// c07New builds the strategy the way main does: through New, which reads the
// chain specification and subscribes to head events.
func c07New(timeout time.Duration, ct *vstub.ChainTime, providers map[string]eth2client.ProposalProvider, label string) *Service {
	chain := &c07Chain{}
	s, err := New(context.Background(), WithLogLevel(vnd.LogLevel()), WithClientMonitor(vstub.ClientMonitor{}),
		WithTimeout(timeout), WithProcessConcurrency(int64(len(providers))), WithChainTimeService(ct),
		WithEventsProvider(chain), WithSpecProvider(chain), WithProposalProviders(providers),
		WithSignedBeaconBlockProvider(chain), WithBlockRootToSlotCache(chain))
	vnd.Assert(err == nil && s != nil, label)
	return s
}

// total values in wei: ordinary blocks and high-value ones at and beyond 2^64 wei (18.44 ETH)
var c07Values = []string{"35000000000000000", "3000000000000000000", "18446744073709551616", "20000000000000000000"}

// VerifC07_ProposalBest: the best block-proposal strategy with two nodes
// (latency symbolic, each answering a proposal whose consensus + execution
// value is one of four totals up to 20 ETH, an error, or a proposal with a zero
// fee recipient): returns within its timeout; the answer is a valid proposal a
// node gave, with the highest total value among those received by the decision.
func VerifC07_ProposalBest() { c07ProposalBest() }

// VerifC07_ProposalForks: the same two nodes answering one after the other well within the timeout,
// on each fork that has an execution payload (Bellatrix, Capella, Deneb): the validity rules - fee
// recipient not zero, nothing missing - hold for the proposals of every one of them.
func VerifC07_ProposalForks() {
	c07Forks = []spec.DataVersion{spec.DataVersionBellatrix, spec.DataVersionCapella, spec.DataVersionDeneb}
	c07Lean = true
	c07ProposalBest()
}

// c07Lean: fixed instants (node-a after 1, node-b after 2, timeout 100) instead of symbolic ones.
var c07Lean bool

func c07ProposalBest() {
	timeout := time.Duration(100)
	if !c07Lean {
		timeout = time.Duration(vnd.I64("timeout"))
		vnd.Assume(timeout >= 2 && timeout <= 60000) // virtual nanoseconds
	}
	ct := vstub.NewChainTime(0)
	providers := map[string]eth2client.ProposalProvider{}
	const n = 2
	nodes := make([]*c07Node, n)
	totals := make([]*big.Int, n)
	for i := 0; i < n; i++ {
		nd := &c07Node{name: []string{"node-a", "node-b"}[i]}
		if c07Lean {
			nd.latency = time.Duration(i + 1)
		} else {
			nd.latency = time.Duration(vnd.I64("latency"))
			vnd.Assume(nd.latency >= 0 && nd.latency <= 120000)
		}
		nd.outcome = vnd.Choose("outcome", 4)
		// node-a: an ordinary or a high value; node-b: any of the four
		vals := c07Values
		if i == 0 {
			vals = []string{c07Values[1], c07Values[3]}
		}
		total, _ := new(big.Int).SetString(vals[vnd.Choose("total-value", len(vals))], 10)
		totals[i] = total
		// node-a's value is all consensus reward, node-b's all execution payload value
		cons, exec := new(big.Int).Set(total), big.NewInt(0)
		if i == 1 {
			cons, exec = exec, cons
		}
		fee := bellatrix.ExecutionAddress{9}
		if nd.outcome == 2 {
			fee = bellatrix.ExecutionAddress{}
		}
		// the chain's current fork (the same for both nodes): every fork with an execution payload has a
		// fee recipient, and the validity rule applies to each
		if i == 0 {
			c07Fork = c07Forks[vnd.Choose("fork", len(c07Forks))]
		}
		hollow := nd.outcome == 3
		nd.proposal = &api.VersionedProposal{Version: c07Fork, ConsensusValue: cons, ExecutionValue: exec}
		// a hollow answer: version and values stated, the block, its body or its execution payload absent
		// (node-a: no block at all; node-b: a block whose body has no execution payload)
		switch c07Fork {
		case spec.DataVersionBellatrix:
			if !(hollow && i == 0) {
				nd.proposal.Bellatrix = &bellatrix.BeaconBlock{Slot: 5, ProposerIndex: phase0.ValidatorIndex(i), Body: &bellatrix.BeaconBlockBody{ETH1Data: &phase0.ETH1Data{}, ExecutionPayload: &bellatrix.ExecutionPayload{FeeRecipient: fee}}}
				if hollow {
					nd.proposal.Bellatrix.Body.ExecutionPayload = nil
				}
			}
		case spec.DataVersionCapella:
			if !(hollow && i == 0) {
				nd.proposal.Capella = &capella.BeaconBlock{Slot: 5, ProposerIndex: phase0.ValidatorIndex(i), Body: &capella.BeaconBlockBody{ETH1Data: &phase0.ETH1Data{}, ExecutionPayload: &capella.ExecutionPayload{FeeRecipient: fee}}}
				if hollow {
					nd.proposal.Capella.Body.ExecutionPayload = nil
				}
			}
		case spec.DataVersionDeneb:
			if !(hollow && i == 0) {
				nd.proposal.Deneb = &apiv1deneb.BlockContents{Block: &deneb.BeaconBlock{Slot: 5, ProposerIndex: phase0.ValidatorIndex(i), Body: &deneb.BeaconBlockBody{ETH1Data: &phase0.ETH1Data{}, ExecutionPayload: &deneb.ExecutionPayload{FeeRecipient: fee, BaseFeePerGas: uint256.NewInt(1)}}}}
				if hollow {
					nd.proposal.Deneb.Block.Body.ExecutionPayload = nil
				}
			}
		}
		nodes[i] = nd
		providers[nd.name] = nd
	}
	s := c07New(timeout, ct, providers, "C07.new.accepted")
	start := vnd.NowNs()
	resp, err := s.Proposal(context.Background(), &api.ProposalOpts{Slot: 5})
	elapsed := time.Duration(vnd.NowNs() - start)
	vnd.Assert(elapsed <= timeout, "C07.proposal.returns-within-timeout")
	vnd.Assert(vnd.Quiesce() == 0, "C07.proposal.provider-goroutines-terminate")
	anyValidInTime := false
	exact := true
	for i, nd := range nodes {
		vnd.Assert(nd.calls == 1, "C07.proposal.every-provider-asked-once")
		if nd.outcome == 0 {
			anyValidInTime = vnd.Or(anyValidInTime, nd.latency < timeout)
		}
		exact = vnd.And(exact, vnd.And(nd.latency != timeout/2, nd.latency != timeout))
		for j := 0; j < i; j++ {
			exact = vnd.And(exact, nd.latency != nodes[j].latency)
		}
	}
	if err != nil {
		vnd.Cover("C07.proposal.error")
		vnd.Assert(!anyValidInTime, "C07.proposal.error-only-when-no-valid-proposal-in-time")
		return
	}
	vnd.Cover("C07.proposal.answer")
	chosen := -1
	for i, nd := range nodes {
		if resp.Data == nd.proposal {
			chosen = i
		}
	}
	vnd.Assert(chosen >= 0 && nodes[chosen].outcome == 0, "C07.proposal.answer-is-a-valid-proposal-received")
	if chosen < 0 {
		return
	}
	vnd.Assert(nodes[chosen].latency <= elapsed, "C07.proposal.answer-arrived-before-return")
	for i, nd := range nodes {
		if i != chosen && nd.outcome == 0 {
			higher := totals[i].Cmp(totals[chosen]) > 0
			vnd.Assert(vnd.Implies(nd.latency < elapsed, !higher), "C07.proposal.highest-value-among-proposals-received")
			vnd.Assert(vnd.Implies(vnd.And(exact, nd.latency <= elapsed), !higher), "C07.proposal.highest-value-among-proposals-received-exact")
		}
	}
}
