//go:build verif

package best

import (
	"context"
	"errors"
	"math/big"
	"time"

	eth2client "github.com/attestantio/go-eth2-client"
	"github.com/attestantio/go-eth2-client/api"
	"github.com/attestantio/go-eth2-client/spec"
	"github.com/attestantio/go-eth2-client/spec/bellatrix"
	"github.com/attestantio/go-eth2-client/spec/capella"
	"github.com/attestantio/go-eth2-client/spec/phase0"
	"github.com/attestantio/vouch/internal/vnd"
	"github.com/attestantio/vouch/internal/vstub"
)

type c07Node struct {
	name     string
	latency  time.Duration
	outcome  int // 0 valid, 1 error, 2 zero fee recipient
	proposal *api.VersionedProposal
	calls    int
}

func (n *c07Node) Proposal(_ context.Context, _ *api.ProposalOpts) (*api.Response[*api.VersionedProposal], error) {
	n.calls++
	vnd.Sleep(n.latency)
	if n.outcome == 1 {
		return nil, errors.New("mock provider error")
	}
	return &api.Response[*api.VersionedProposal]{Data: n.proposal, Metadata: map[string]any{}}, nil
}

// total values in wei: ordinary blocks and high-value ones at and beyond 2^64 wei (18.44 ETH)
var c07Values = []string{"35000000000000000", "3000000000000000000", "18446744073709551616", "20000000000000000000"}

// VerifC07_ProposalBest: the best block-proposal strategy with two nodes
// (latency symbolic, each answering a proposal whose consensus + execution
// value is one of four totals up to 20 ETH, an error, or a proposal with a zero
// fee recipient): returns within its timeout; the answer is a valid proposal a
// node gave, with the highest total value among those received by the decision.
func VerifC07_ProposalBest() {
	timeout := time.Duration(vnd.I64("timeout"))
	vnd.Assume(timeout >= 2 && timeout <= 60000) // virtual nanoseconds
	s := &Service{clientMonitor: vstub.ClientMonitor{}, timeout: timeout, chainTime: vstub.NewChainTime(0), proposalProviders: map[string]eth2client.ProposalProvider{}}
	const n = 2
	nodes := make([]*c07Node, n)
	totals := make([]*big.Int, n)
	for i := 0; i < n; i++ {
		nd := &c07Node{name: []string{"node-a", "node-b"}[i]}
		nd.latency = time.Duration(vnd.I64("latency"))
		vnd.Assume(nd.latency >= 0 && nd.latency <= 120000)
		nd.outcome = vnd.Choose("outcome", 3)
		// node-a: an ordinary or a high value; node-b: any of the four
		vals := c07Values
		if i == 0 {
			vals = []string{c07Values[1], c07Values[3]}
		}
		total, _ := new(big.Int).SetString(vals[vnd.Choose("total-value", len(vals))], 10)
		totals[i] = total
		// node-a's value is all consensus reward, node-b's all execution payload value
		cons, exec := new(big.Int).Set(total), big.NewInt(0)
		if i == 1 {
			cons, exec = exec, cons
		}
		fee := bellatrix.ExecutionAddress{9}
		if nd.outcome == 2 {
			fee = bellatrix.ExecutionAddress{}
		}
		nd.proposal = &api.VersionedProposal{Version: spec.DataVersionCapella, ConsensusValue: cons, ExecutionValue: exec,
			Capella: &capella.BeaconBlock{Slot: 5, ProposerIndex: phase0.ValidatorIndex(i), Body: &capella.BeaconBlockBody{ETH1Data: &phase0.ETH1Data{}, SyncAggregate: nil, ExecutionPayload: &capella.ExecutionPayload{FeeRecipient: fee}}}}
		nodes[i] = nd
		s.proposalProviders[nd.name] = nd
	}
	start := vnd.NowNs()
	resp, err := s.Proposal(context.Background(), &api.ProposalOpts{Slot: 5})
	elapsed := time.Duration(vnd.NowNs() - start)
	vnd.Assert(elapsed <= timeout, "C07.proposal.returns-within-timeout")
	vnd.Assert(vnd.Quiesce() == 0, "C07.proposal.provider-goroutines-terminate")
	anyValidInTime := false
	exact := true
	for i, nd := range nodes {
		vnd.Assert(nd.calls == 1, "C07.proposal.every-provider-asked-once")
		if nd.outcome == 0 {
			anyValidInTime = vnd.Or(anyValidInTime, nd.latency < timeout)
		}
		exact = vnd.And(exact, vnd.And(nd.latency != timeout/2, nd.latency != timeout))
		for j := 0; j < i; j++ {
			exact = vnd.And(exact, nd.latency != nodes[j].latency)
		}
	}
	if err != nil {
		vnd.Cover("C07.proposal.error")
		vnd.Assert(!anyValidInTime, "C07.proposal.error-only-when-no-valid-proposal-in-time")
		return
	}
	vnd.Cover("C07.proposal.answer")
	chosen := -1
	for i, nd := range nodes {
		if resp.Data == nd.proposal {
			chosen = i
		}
	}
	vnd.Assert(chosen >= 0 && nodes[chosen].outcome == 0, "C07.proposal.answer-is-a-valid-proposal-received")
	if chosen < 0 {
		return
	}
	vnd.Assert(nodes[chosen].latency <= elapsed, "C07.proposal.answer-arrived-before-return")
	for i, nd := range nodes {
		if i != chosen && nd.outcome == 0 {
			higher := totals[i].Cmp(totals[chosen]) > 0
			vnd.Assert(vnd.Implies(nd.latency < elapsed, !higher), "C07.proposal.highest-value-among-proposals-received")
			vnd.Assert(vnd.Implies(vnd.And(exact, nd.latency <= elapsed), !higher), "C07.proposal.highest-value-among-proposals-received-exact")
		}
	}
}
