//go:build verif

package best

import (
	"context"
	"errors"
	"time"

	eth2client "github.com/attestantio/go-eth2-client"
	"github.com/attestantio/go-eth2-client/api"
	"github.com/attestantio/go-eth2-client/spec/phase0"
	"github.com/attestantio/vouch/internal/vnd"
	"github.com/attestantio/vouch/internal/vstub"
	"github.com/prysmaticlabs/go-bitfield"
)

const (
	oValid = iota
	oError
	oNilData
	nOutcomes
)

type c07Provider struct {
	name    string
	latency time.Duration
	outcome int
	data    *phase0.Attestation
	calls   int
}

func (p *c07Provider) AggregateAttestation(ctx context.Context, _ *api.AggregateAttestationOpts) (*api.Response[*phase0.Attestation], error) {
	p.calls++
	// like a real HTTP client the node stub gives up when the context it was called with ends
	select {
	case <-ctx.Done():
		return nil, ctx.Err()
	case <-time.After(p.latency):
	}
	switch p.outcome {
	case oError:
		return nil, errors.New("mock provider error")
	case oNilData:
		return &api.Response[*phase0.Attestation]{Data: nil, Metadata: map[string]any{}}, nil
	}
	return &api.Response[*phase0.Attestation]{Data: p.data, Metadata: map[string]any{}}, nil
}

// c07New builds the strategy the way main does: through New.
func c07New(timeout time.Duration, providers map[string]eth2client.AggregateAttestationProvider) *Service {
	s, err := New(context.Background(), WithLogLevel(vnd.LogLevel()), WithClientMonitor(vstub.ClientMonitor{}),
		WithTimeout(timeout), WithProcessConcurrency(int64(len(providers))), WithAggregateAttestationProviders(providers))
	vnd.Assert(err == nil && s != nil, "C07.new.accepted")
	return s
}

// VerifC07_AggregateBest: the best aggregate-attestation strategy.
func VerifC07_AggregateBest() { c07AggregateBest(2, 2) }

// VerifC07_AggregateBestWide: 1..2 providers and three score levels (thorough).
func VerifC07_AggregateBestWide() { c07AggregateBest(vnd.IntRange("n", 1, 2), 3) }

// VerifC07_AggregateBestOrders: three nodes answering one after the other with three different valid
// scores in every one of the six orders (what is held as best so far is compared with, never
// overwritten by, a later lower score).
func VerifC07_AggregateBestOrders() {
	c07Orders = true
	c07AggregateBest(3, 3)
}

// c07Orders: all nodes valid, answering in node order, scores a permutation of the levels.
var c07Orders bool
var c07Perm int

func c07AggregateBest(n, levels int) {
	timeout := time.Duration(100)
	if !c07Orders {
		timeout = time.Duration(vnd.I64("timeout"))
		vnd.Assume(timeout >= 2 && timeout <= 60000) // virtual nanoseconds
	}
	providers := map[string]eth2client.AggregateAttestationProvider{}
	provs := make([]*c07Provider, n)
	for i := 0; i < n; i++ {
		p := &c07Provider{name: []string{"node-a", "node-b", "node-c"}[i]}
		if c07Orders {
			// all three answer, one after the other, well before the soft timeout
			p.outcome = oValid
			p.latency = time.Duration(i + 1)
		} else {
			p.latency = time.Duration(vnd.I64("latency"))
			vnd.Assume(p.latency >= 0 && p.latency <= 120000)
			p.outcome = vnd.Choose("outcome", nOutcomes)
		}
		bits := bitfield.NewBitlist(8)
		if p.outcome == oValid {
			// 0..2 of 8 attesters included: distinct scores, the lowest of them 0
			included := 0
			if c07Orders {
				if i == 0 {
					c07Perm = vnd.Choose("score-order", 6)
				}
				included = [][]int{{0, 1, 2}, {0, 2, 1}, {1, 0, 2}, {1, 2, 0}, {2, 0, 1}, {2, 1, 0}}[c07Perm][i]
			} else {
				included = vnd.Choose("included", levels)
			}
			for k := 0; k < included; k++ { // the lowest level is an empty aggregate: valid, score 0
				bits.SetBitAt(uint64(k), true)
			}
		}
		p.data = &phase0.Attestation{AggregationBits: bits, Data: &phase0.AttestationData{Slot: 7, Index: phase0.CommitteeIndex(i), Source: &phase0.Checkpoint{}, Target: &phase0.Checkpoint{}}}
		provs[i] = p
		providers[p.name] = p
	}
	s := c07New(timeout, providers)
	start := vnd.NowNs()
	resp, err := s.AggregateAttestation(context.Background(), &api.AggregateAttestationOpts{Slot: 7})
	elapsed := time.Duration(vnd.NowNs() - start)
	vnd.Assert(elapsed <= timeout, "C07.aggregate.returns-within-timeout")
	left := vnd.Quiesce()
	vnd.Assert(left == 0, "C07.aggregate.provider-goroutines-terminate")
	anyValidInTime, anyValidBeforeSoft := false, false
	for _, p := range provs {
		vnd.Assert(p.calls == 1, "C07.aggregate.every-provider-asked-once")
		if p.outcome == oValid {
			anyValidInTime = vnd.Or(anyValidInTime, p.latency < timeout)
			anyValidBeforeSoft = vnd.Or(anyValidBeforeSoft, p.latency < timeout/2)
		}
	}
	if anyValidBeforeSoft {
		vnd.Cover("C07.aggregate.valid-before-soft-timeout")
		vnd.Assert(elapsed <= timeout/2, "C07.aggregate.returns-by-soft-timeout-when-it-has-a-response")
	}
	if err != nil {
		vnd.Cover("C07.aggregate.error")
		vnd.Assert(!anyValidInTime, "C07.aggregate.error-only-when-no-valid-response-in-time")
		return
	}
	vnd.Cover("C07.aggregate.answer")
	var chosen *c07Provider
	for _, p := range provs {
		if resp.Data == p.data {
			chosen = p
		}
	}
	vnd.Assert(chosen != nil && chosen.outcome == oValid, "C07.aggregate.answer-is-a-valid-response")
	vnd.Assert(chosen.latency <= elapsed, "C07.aggregate.answer-arrived-before-return")
	cs := chosen.data.AggregationBits.Count()
	exact := true
	for i, p := range provs {
		exact = vnd.And(exact, vnd.And(p.latency != timeout/2, p.latency != timeout))
		for j := 0; j < i; j++ {
			exact = vnd.And(exact, p.latency != provs[j].latency)
		}
	}
	for _, p := range provs {
		if p.outcome == oValid && p != chosen {
			vnd.Assert(vnd.Implies(p.latency < elapsed, p.data.AggregationBits.Count() <= cs), "C07.aggregate.most-complete-among-responses-received")
			vnd.Assert(vnd.Implies(vnd.And(exact, p.latency <= elapsed), p.data.AggregationBits.Count() <= cs), "C07.aggregate.most-complete-among-responses-received-exact")
		}
	}
}
