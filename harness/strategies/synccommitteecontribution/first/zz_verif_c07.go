//go:build verif

package first

import (
	"context"
	"errors"
	"time"

	eth2client "github.com/attestantio/go-eth2-client"
	"github.com/attestantio/go-eth2-client/api"
	"github.com/attestantio/go-eth2-client/spec/altair"
	"github.com/attestantio/vouch/internal/vnd"
	"github.com/attestantio/vouch/internal/vstub"
)

type c07Provider struct {
	name    string
	latency time.Duration
	fail    bool
	honour  bool // gives up (context.Canceled) when the caller's context ends first
	never   bool // (with honour) never answers: only the end of its context makes it return
	data    *altair.SyncCommitteeContribution
	calls   int
}

func (p *c07Provider) SyncCommitteeContribution(ctx context.Context, _ *api.SyncCommitteeContributionOpts) (*api.Response[*altair.SyncCommitteeContribution], error) {
	p.calls++
	if p.honour && p.never {
		<-ctx.Done()
		return nil, ctx.Err()
	}
	if p.honour {
		select {
		case <-ctx.Done():
			return nil, ctx.Err()
		case <-time.After(p.latency):
		}
	} else {
		vnd.Sleep(p.latency)
	}
	if p.fail {
		return nil, errors.New("mock provider error")
	}
	return &api.Response[*altair.SyncCommitteeContribution]{Data: p.data, Metadata: map[string]any{}}, nil
}

// c07New builds the strategy through the package's constructor.
func c07New(timeout time.Duration, providers map[string]eth2client.SyncCommitteeContributionProvider) *Service {
	s, err := New(context.Background(), WithLogLevel(vnd.LogLevel()), WithClientMonitor(vstub.ClientMonitor{}),
		WithTimeout(timeout), WithSyncCommitteeContributionProviders(providers))
	vnd.Assert(err == nil && s != nil, "C07.new.accepted")
	return s
}

func c07First(n int, honour bool) (left int) {
	timeout := time.Duration(vnd.I64("timeout"))
	vnd.Assume(timeout >= 2 && timeout <= 60000) // virtual nanoseconds: only the order of instants matters
	providers := map[string]eth2client.SyncCommitteeContributionProvider{}
	provs := make([]*c07Provider, n)
	for i := 0; i < n; i++ {
		p := &c07Provider{name: []string{"node-a", "node-b", "node-c"}[i], honour: honour}
		p.latency = time.Duration(vnd.I64("latency"))
		vnd.Assume(p.latency >= 0 && p.latency <= 120000)
		p.fail = vnd.Bool("fail")
		if honour && vnd.Bool("never-answers") {
			// a node that hangs for good: as far as the strategy can tell, one that fails after the timeout
			p.never, p.fail = true, true
		}
		p.data = &altair.SyncCommitteeContribution{Slot: 5, SubcommitteeIndex: uint64(i)}
		provs[i] = p
		providers[p.name] = p
	}
	s := c07New(timeout, providers) // New rejects an empty provider map, so it runs once the nodes exist
	start := vnd.NowNs()
	resp, err := s.SyncCommitteeContribution(context.Background(), &api.SyncCommitteeContributionOpts{Slot: 5})
	elapsed := time.Duration(vnd.NowNs() - start)
	vnd.Assert(elapsed <= timeout, "C07.contribfirst.returns-within-timeout")
	left = vnd.Quiesce()
	// every request ends with the call: answered, failed, or given up when the call's own context ended
	vnd.Assert(left == 0, "C20.first.no-request-outlives-the-call")
	anyInTime := false
	for _, p := range provs {
		vnd.Assert(p.calls == 1, "C07.contribfirst.every-provider-asked-once")
		if !p.fail {
			anyInTime = vnd.Or(anyInTime, p.latency < timeout)
		}
	}
	if err != nil {
		vnd.Cover("C07.contribfirst.error")
		vnd.Assert(!anyInTime, "C07.contribfirst.error-only-when-no-response-in-time")
		return left
	}
	vnd.Cover("C07.contribfirst.answer")
	var chosen *c07Provider
	for _, p := range provs {
		if resp.Data == p.data {
			chosen = p
		}
	}
	vnd.Assert(chosen != nil && !chosen.fail, "C07.contribfirst.answer-is-a-response-some-node-gave")
	vnd.Assert(chosen.latency <= elapsed, "C07.contribfirst.answer-arrived-before-return")
	for _, p := range provs {
		if !p.fail {
			// no successful response arrived strictly earlier than the one returned
			vnd.Assert(!(p.latency < chosen.latency), "C07.contribfirst.first-response-wins")
		}
	}
	return left
}

// VerifC07_First: the first synccommitteecontribution strategy returns a response some node gave,
// the earliest one, within the timeout; an error only when none arrived in time.
func VerifC07_First() { c07First(vnd.IntRange("n", 1, 2), vnd.Bool("providers-honour-context")) }
