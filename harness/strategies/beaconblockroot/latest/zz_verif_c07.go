//go:build verif

package latest

import (
	"context"
	"errors"
	"time"

	eth2client "github.com/attestantio/go-eth2-client"
	"github.com/attestantio/go-eth2-client/api"
	"github.com/attestantio/go-eth2-client/spec/phase0"
	"github.com/attestantio/vouch/internal/vnd"
	"github.com/attestantio/vouch/internal/vstub"
)

type c07Provider struct {
	name    string
	latency time.Duration
	fail    bool
	root    phase0.Root
	calls   int
}

func (p *c07Provider) BeaconBlockRoot(ctx context.Context, _ *api.BeaconBlockRootOpts) (*api.Response[*phase0.Root], error) {
	p.calls++
	// like a real HTTP client the node stub gives up when the context it was called with ends
	select {
	case <-ctx.Done():
		return nil, ctx.Err()
	case <-time.After(p.latency):
	}
	if p.fail {
		return nil, errors.New("mock provider error")
	}
	r := p.root
	return &api.Response[*phase0.Root]{Data: &r, Metadata: map[string]any{}}, nil
}

// the slot of a root is its second byte; a root with first byte 0xee is unknown to the cache
type c07Cache struct{}

func (c *c07Cache) BlockRootToSlot(_ context.Context, root phase0.Root) (phase0.Slot, error) {
	if root[0] == 0xee {
		return 0, errors.New("mock: unknown root")
	}
	return phase0.Slot(root[1]), nil
}

// c07New builds the strategy through the package's constructor. The process
// concurrency is mandatory for New but not read by BeaconBlockRoot; it is set
// to the number of nodes.
func c07New(timeout time.Duration, providers map[string]eth2client.BeaconBlockRootProvider) *Service {
	s, err := New(context.Background(), WithLogLevel(vnd.LogLevel()), WithClientMonitor(vstub.ClientMonitor{}),
		WithTimeout(timeout), WithProcessConcurrency(int64(len(providers))),
		WithBeaconBlockRootProviders(providers), WithBlockRootToSlotCache(&c07Cache{}))
	vnd.Assert(err == nil && s != nil, "C07.new.accepted")
	return s
}

// VerifC07_RootLatest: the block-root 'latest' strategy with two nodes: returns
// within its timeout, by the soft timeout when it has a response; the answer is
// a root some node gave, the one with the highest head slot among those received
// by the decision (a root whose slot cannot be found counts as slot 0); an error
// only when no node answered in time.
func VerifC07_RootLatest() {
	timeout := time.Duration(vnd.I64("timeout"))
	vnd.Assume(timeout >= 2 && timeout <= 60000) // virtual nanoseconds
	providers := map[string]eth2client.BeaconBlockRootProvider{}
	const n = 2
	provs := make([]*c07Provider, n)
	slots := make([]uint64, n)
	for i := 0; i < n; i++ {
		p := &c07Provider{name: []string{"node-a", "node-b"}[i]}
		p.latency = time.Duration(vnd.I64("latency"))
		vnd.Assume(p.latency >= 0 && p.latency <= 120000)
		switch vnd.Choose("answer", 3) {
		case 1:
			p.fail = true
		case 2:
			p.root = phase0.Root{0xee, byte(i)} // slot lookup fails: counts as slot 0
		default:
			slots[i] = vnd.SmallU64("head-slot", 8)
			p.root = phase0.Root{byte(i + 1), byte(slots[i])}
		}
		provs[i] = p
		providers[p.name] = p
	}
	s := c07New(timeout, providers) // New rejects an empty provider map, so it runs once the nodes exist
	start := vnd.NowNs()
	resp, err := s.BeaconBlockRoot(context.Background(), &api.BeaconBlockRootOpts{Block: "head"})
	elapsed := time.Duration(vnd.NowNs() - start)
	vnd.Assert(elapsed <= timeout, "C07.rootlatest.returns-within-timeout")
	vnd.Assert(vnd.Quiesce() == 0, "C07.rootlatest.provider-goroutines-terminate")
	anyInTime, anyBeforeSoft := false, false
	exact := true
	for i, p := range provs {
		vnd.Assert(p.calls == 1, "C07.rootlatest.every-provider-asked-once")
		if !p.fail {
			anyInTime = vnd.Or(anyInTime, p.latency < timeout)
			anyBeforeSoft = vnd.Or(anyBeforeSoft, p.latency < timeout/2)
		}
		exact = vnd.And(exact, vnd.And(p.latency != timeout/2, p.latency != timeout))
		for j := 0; j < i; j++ {
			exact = vnd.And(exact, p.latency != provs[j].latency)
		}
	}
	if anyBeforeSoft {
		vnd.Cover("C07.rootlatest.response-before-soft-timeout")
		vnd.Assert(elapsed <= timeout/2, "C07.rootlatest.returns-by-soft-timeout-when-it-has-a-response")
	}
	if err != nil {
		vnd.Cover("C07.rootlatest.error")
		vnd.Assert(!anyInTime, "C07.rootlatest.error-only-when-no-response-in-time")
		return
	}
	vnd.Cover("C07.rootlatest.answer")
	chosen := -1
	for i, p := range provs {
		if !p.fail && *resp.Data == p.root {
			chosen = i
		}
	}
	vnd.Assert(chosen >= 0, "C07.rootlatest.answer-is-a-root-some-node-gave")
	if chosen < 0 {
		return
	}
	vnd.Assert(provs[chosen].latency <= elapsed, "C07.rootlatest.answer-arrived-before-return")
	for i, p := range provs {
		if i != chosen && !p.fail {
			vnd.Assert(vnd.Implies(p.latency < elapsed, slots[i] <= slots[chosen]), "C07.rootlatest.highest-head-slot-among-roots-received")
			vnd.Assert(vnd.Implies(vnd.And(exact, p.latency <= elapsed), slots[i] <= slots[chosen]), "C07.rootlatest.highest-head-slot-among-roots-received-exact")
		}
	}
}
