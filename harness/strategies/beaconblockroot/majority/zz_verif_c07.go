//go:build verif

package majority

import (
	"context"
	"errors"
	"time"

	eth2client "github.com/attestantio/go-eth2-client"
	"github.com/attestantio/go-eth2-client/api"
	"github.com/attestantio/go-eth2-client/spec/phase0"
	"github.com/attestantio/vouch/internal/vnd"
	"github.com/attestantio/vouch/internal/vstub"
)

type c07Provider struct {
	name    string
	latency time.Duration
	fail    bool
	root    phase0.Root
	calls   int
}

func (p *c07Provider) BeaconBlockRoot(ctx context.Context, _ *api.BeaconBlockRootOpts) (*api.Response[*phase0.Root], error) {
	p.calls++
	// like a real HTTP client the node stub gives up when the context it was called with ends
	select {
	case <-ctx.Done():
		return nil, ctx.Err()
	case <-time.After(p.latency):
	}
	if p.fail {
		return nil, errors.New("mock provider error")
	}
	r := p.root
	return &api.Response[*phase0.Root]{Data: &r, Metadata: map[string]any{}}, nil
}

// the slot of a root is its second byte
type c07Cache struct{}

func (c *c07Cache) BlockRootToSlot(_ context.Context, root phase0.Root) (phase0.Slot, error) {
	return phase0.Slot(root[1]), nil
}

// c07New builds the strategy through the package's constructor. The process
// concurrency is mandatory for New but not read by BeaconBlockRoot; it is set
// to the number of nodes.
func c07New(timeout time.Duration, providers map[string]eth2client.BeaconBlockRootProvider) *Service {
	s, err := New(context.Background(), WithLogLevel(vnd.LogLevel()), WithClientMonitor(vstub.ClientMonitor{}),
		WithTimeout(timeout), WithProcessConcurrency(int64(len(providers))),
		WithBeaconBlockRootProviders(providers), WithBlockRootToSlotCache(&c07Cache{}))
	vnd.Assert(err == nil && s != nil, "C07.new.accepted")
	return s
}

// VerifC07_RootMajority: the block-root majority strategy with three nodes
// that answer one of three roots (head slots symbolic) or fail.
func VerifC07_RootMajority() { c07RootMajority(3, false) }

// VerifC07_RootMajorityFailures: three nodes, failures included (thorough).
func VerifC07_RootMajorityFailures() { c07RootMajority(3, true) }

// VerifC07_RootMajority4: four nodes, no failures, one arrival order per
// coincidence (thorough).
func VerifC07_RootMajority4() { c07RootMajority(4, false) }

func c07RootMajority(n int, failures bool) {
	timeout := time.Duration(vnd.I64("timeout"))
	vnd.Assume(timeout >= 2 && timeout <= 60000) // virtual nanoseconds
	providers := map[string]eth2client.BeaconBlockRootProvider{}
	// three candidate roots with symbolic, pairwise different head slots
	var slots [3]byte
	for k := range slots {
		slots[k] = byte(vnd.SmallU64("head-slot", 8))
	}
	vnd.Assume(slots[0] != slots[1] && slots[0] != slots[2] && slots[1] != slots[2])
	provs := make([]*c07Provider, n)
	which := make([]int, n)
	maxUsed := -1
	for i := 0; i < n; i++ {
		p := &c07Provider{name: []string{"node-a", "node-b", "node-c", "node-d"}[i]}
		p.latency = time.Duration(vnd.I64("latency"))
		vnd.Assume(p.latency >= 0 && p.latency <= 120000)
		// roots are interchangeable (their head slots are symbolic) and so are
		// nodes (their latencies are): node i answers one of the roots already
		// used or the next unused one (canonical labelling), or fails
		opts := maxUsed + 2
		if opts > 3 {
			opts = 3
		}
		c := vnd.Choose("answer", opts+map[bool]int{false: 0, true: 1}[failures])
		if c == opts {
			c = 3
		}
		which[i] = c
		if c != 3 && c > maxUsed {
			maxUsed = c
		}
		if which[i] == 3 {
			p.fail = true
		} else {
			p.root = phase0.Root{byte(which[i] + 1), slots[which[i]]}
		}
		provs[i] = p
		providers[p.name] = p
	}
	s := c07New(timeout, providers) // New rejects an empty provider map, so it runs once the nodes exist
	start := vnd.NowNs()
	resp, err := s.BeaconBlockRoot(context.Background(), &api.BeaconBlockRootOpts{Block: "head"})
	elapsed := time.Duration(vnd.NowNs() - start)
	vnd.Assert(elapsed <= timeout, "C07.rootmajority.returns-within-timeout")
	left := vnd.Quiesce()
	vnd.Assert(left == 0, "C07.rootmajority.provider-goroutines-terminate")
	for _, p := range provs {
		vnd.Assert(p.calls == 1, "C07.rootmajority.every-provider-asked-once")
	}
	// votes for root k that arrived strictly before / by the given instant
	votes := func(k int, at time.Duration, strict bool) uint64 {
		c := uint64(0)
		for i, p := range provs {
			if which[i] == k {
				in := p.latency <= at
				if strict {
					in = p.latency < at
				}
				c += vnd.IteU64(in, 1, 0)
			}
		}
		return c
	}
	anyInTime := false
	for i, p := range provs {
		if which[i] != 3 {
			anyInTime = vnd.Or(anyInTime, p.latency < timeout)
		}
	}
	if err != nil {
		vnd.Cover("C07.rootmajority.error")
		vnd.Assert(!anyInTime, "C07.rootmajority.error-only-when-no-root-in-time")
		return
	}
	vnd.Cover("C07.rootmajority.answer")
	got := -1
	for k := 0; k < 3; k++ {
		if *resp.Data == (phase0.Root{byte(k + 1), slots[k]}) {
			got = k
		}
	}
	vnd.Assert(got >= 0, "C07.rootmajority.answer-is-a-reported-root")
	if got < 0 {
		return
	}
	vnd.Assert(votes(got, elapsed, false) >= 1, "C07.rootmajority.answer-was-received-before-return")
	// Without coincidences (no two answers at the same instant, none at the soft
	// or hard deadline) the answers counted are exactly those that arrived by
	// the time of the decision; with coincidences either order is accepted.
	exact := true
	for i, p := range provs {
		exact = vnd.And(exact, vnd.And(p.latency != timeout/2, p.latency != timeout))
		for j := 0; j < i; j++ {
			exact = vnd.And(exact, p.latency != provs[j].latency)
		}
	}
	for k := 0; k < 3; k++ {
		if k == got {
			continue
		}
		// a root with strictly more votes, all received strictly before the decision, must win
		more := votes(k, elapsed, true) > votes(got, elapsed, false)
		vnd.Assert(!more, "C07.rootmajority.most-frequently-reported-root")
		vnd.Assert(vnd.Implies(exact, votes(k, elapsed, false) <= votes(got, elapsed, false)), "C07.rootmajority.most-frequently-reported-root-exact")
		// a tie in votes is broken by the higher head slot
		tie := vnd.And(exact, vnd.And(votes(k, elapsed, false) == votes(got, elapsed, false), votes(k, elapsed, false) > 0))
		vnd.Assert(vnd.Implies(tie, slots[got] > slots[k]), "C07.rootmajority.tie-broken-by-higher-head-slot")
		if tie {
			vnd.Cover("C07.rootmajority.tie")
		}
	}
}
