//go:build verif

package best

import (
	"context"
	"errors"
	"math/big"
	"time"

	"github.com/attestantio/go-block-relay/services/blockauctioneer"
	builderclient "github.com/attestantio/go-builder-client"
	builderapi "github.com/attestantio/go-builder-client/api"
	buildercapella "github.com/attestantio/go-builder-client/api/capella"
	builderspec "github.com/attestantio/go-builder-client/spec"
	"github.com/attestantio/go-eth2-client/api"
	consensusspec "github.com/attestantio/go-eth2-client/spec"
	"github.com/attestantio/go-eth2-client/spec/bellatrix"
	"github.com/attestantio/go-eth2-client/spec/capella"
	"github.com/attestantio/go-eth2-client/spec/phase0"
	"github.com/attestantio/vouch/internal/vnd"
	"github.com/attestantio/vouch/internal/vstub"
	"github.com/attestantio/vouch/services/beaconblockproposer"
	"github.com/attestantio/vouch/services/blockrelay"
	nullmetrics "github.com/attestantio/vouch/services/metrics/null"
	"github.com/attestantio/vouch/util"
	"github.com/holiman/uint256"
	"github.com/shopspring/decimal"
)

type c09Relay struct {
	name    string
	fail    bool
	nilBid  bool
	latency time.Duration
	bid     *builderspec.VersionedSignedBuilderBid
	calls   int
}

func (r *c09Relay) Name() string              { return r.name }
func (r *c09Relay) Address() string           { return r.name }
func (r *c09Relay) Pubkey() *phase0.BLSPubKey { return nil }
func (r *c09Relay) BuilderBid(_ context.Context, _ *builderapi.BuilderBidOpts) (*builderapi.Response[*builderspec.VersionedSignedBuilderBid], error) {
	r.calls++
	vnd.Sleep(r.latency)
	if r.fail {
		return nil, errors.New("mock relay failure")
	}
	if r.nilBid {
		return &builderapi.Response[*builderspec.VersionedSignedBuilderBid]{Data: nil, Metadata: map[string]any{}}, nil
	}
	return &builderapi.Response[*builderspec.VersionedSignedBuilderBid]{Data: r.bid, Metadata: map[string]any{}}, nil
}
func (r *c09Relay) UnblindProposal(_ context.Context, _ *builderapi.UnblindProposalOpts) (*builderapi.Response[*api.VersionedSignedProposal], error) {
	return nil, errors.New("not used")
}

var _ builderclient.BuilderBidProvider = (*c09Relay)(nil)

const c09Slot = phase0.Slot(1000)

// c09Values, when set, makes bid values, offsets and factors come from small catalogues of
// concrete numbers (among them the example of the documentation: value 1000, offset 10,
// factor 110 against a bid of 1105): every score is then computed by the real math/big, so a
// score formula that differs from the reference is decided at once, where the symbolic fold can
// only answer "unknown" for wide multiplications and divisions that do not cancel syntactically.
var c09Values []uint64

// ndBid builds a capella bid with symbolic value, fee recipient, timestamp,
// builder key and header (block hash).
func ndBid(prefix string) (*builderspec.VersionedSignedBuilderBid, uint64) {
	val := vnd.SmallU64(prefix+".value", 40)
	if c09Values != nil {
		val = c09Values[vnd.Choose(prefix+".value", len(c09Values))]
	}
	hdr := &capella.ExecutionPayloadHeader{
		FeeRecipient: bellatrix.ExecutionAddress(vnd.Addr(prefix + ".fee-recipient")),
		Timestamp:    vnd.U64(prefix + ".timestamp"),
		BlockHash:    phase0.Hash32(vnd.Root(prefix + ".block-hash")),
		ExtraData:    []byte{},
	}
	bid := &builderspec.VersionedSignedBuilderBid{Version: consensusspec.DataVersionCapella, Capella: &buildercapella.SignedBuilderBid{
		Message: &buildercapella.BuilderBid{Header: hdr, Value: uint256.NewInt(val), Pubkey: phase0.BLSPubKey(vnd.PubKey(prefix + ".builder"))},
	}}
	return bid, val
}

// c09DomainType is the DOMAIN_APPLICATION_BUILDER value of the stub chain
// specification, c09Domain the genesis domain the stub node derives from it.
var (
	c09DomainType = phase0.DomainType{0x00, 0x00, 0x00, 0x01}
	c09Domain     = phase0.Domain{0x00, 0x00, 0x00, 0x01, 0xf5, 0xa5, 0xfd, 0x42}
)

// c09Spec is the spec provider New asks for the application builder domain type.
type c09Spec struct{}

func (c09Spec) Spec(_ context.Context, _ *api.SpecOpts) (*api.Response[map[string]any], error) {
	return &api.Response[map[string]any]{Data: map[string]any{"DOMAIN_APPLICATION_BUILDER": c09DomainType}, Metadata: map[string]any{}}, nil
}

// c09Domains is the domain provider New asks for the application builder domain.
type c09Domains struct{}

func (c09Domains) Domain(_ context.Context, t phase0.DomainType, _ phase0.Epoch) (phase0.Domain, error) {
	return c09Domains{}.GenesisDomain(context.Background(), t)
}

func (c09Domains) GenesisDomain(_ context.Context, t phase0.DomainType) (phase0.Domain, error) {
	if t != c09DomainType {
		return phase0.Domain{}, errors.New("unexpected domain type")
	}
	return c09Domain, nil
}

// c09New builds the strategy the way main does: through New.
func c09New(ct *vstub.ChainTime, timeout time.Duration) *Service {
	s, err := New(context.Background(), WithLogLevel(vnd.LogLevel()), WithMonitor(&nullmetrics.Service{}),
		WithSpecProvider(c09Spec{}), WithDomainProvider(c09Domains{}), WithChainTime(ct), WithTimeout(timeout))
	vnd.Assert(err == nil && s != nil, "C09.new.accepted")
	return s
}

func c09Service() (*Service, *vstub.ChainTime) {
	ct := vstub.NewChainTime(0)
	return c09New(ct, 2*time.Second), ct
}

// VerifC09_Eligible: a relay's response carries a bid iff the bid is eligible:
// non-zero value at least the relay's minimum, non-zero fee recipient and a
// timestamp equal to the slot start (no relay key known: signature not checked).
func VerifC09_Eligible() {
	s, ct := c09Service()
	bid, val := ndBid("bid")
	relay := &c09Relay{name: "relay-a", bid: bid, fail: vnd.Bool("relay.fail"), nilBid: vnd.Bool("relay.nil-bid")}
	min := vnd.SmallU64("relay.min-value", 40)
	rc := &beaconblockproposer.RelayConfig{Address: "relay-a", MinValue: decimal.New(int64(min), 0)}
	respCh := make(chan *builderBidResponse, 1)
	errCh := make(chan *builderBidError, 1)
	s.builderBid(context.Background(), relay, respCh, errCh, c09Slot, phase0.Hash32{}, phase0.BLSPubKey{}, rc)
	hdr := bid.Capella.Message.Header
	slotStart := uint64(ct.StartOfSlot(c09Slot).Unix())
	eligible := !relay.fail && !relay.nilBid && val != 0 && val >= min &&
		hdr.FeeRecipient != (bellatrix.ExecutionAddress{}) && hdr.Timestamp == slotStart
	var resp *builderBidResponse
	select {
	case resp = <-respCh:
	default:
	}
	if eligible {
		vnd.Cover("C09.eligible.accepted")
		vnd.Assert(resp != nil && resp.bid == bid, "C09.eligible.eligible-bid-is-passed-on")
		vnd.Assert(resp.score.Cmp(new(big.Int).SetUint64(val)) == 0, "C09.eligible.score-is-bid-value")
	} else {
		vnd.Cover("C09.eligible.rejected")
		vnd.Assert(resp == nil || resp.bid == nil, "C09.eligible.ineligible-bid-never-passed-on")
	}
	vnd.Assert(relay.calls == 1, "C09.eligible.relay-asked-once")
}

// c09Score is the reference score: ((value + offset) * factor) div 100.
func c09Score(val uint64, cfg *blockrelay.BuilderConfig) *big.Int {
	score := new(big.Int).SetUint64(val)
	if cfg != nil && cfg.Offset != nil {
		score = new(big.Int).Add(score, cfg.Offset)
	}
	if cfg != nil && cfg.Factor != nil {
		score = new(big.Int).Div(new(big.Int).Mul(score, cfg.Factor), big.NewInt(100))
	}
	return score
}

// VerifC09_Fold: one step of the auction fold from an arbitrary result state
// satisfying the invariant: the winner has the highest non-zero score seen,
// every listed provider offered the winner's header, the winner's relay is listed.
func VerifC09_Fold() {
	s, _ := c09Service()
	res := &blockauctioneer.Results{Participation: map[string]*blockauctioneer.Participation{}}
	relays := []*c09Relay{{name: "relay-a"}, {name: "relay-b"}}
	// builder configurations
	builderA := phase0.BLSPubKey{1}
	cfgs := map[phase0.BLSPubKey]*blockrelay.BuilderConfig{}
	var cfgA *blockrelay.BuilderConfig
	if vnd.Bool("builder.configured") {
		cfgA = &blockrelay.BuilderConfig{Category: "priority"}
		if vnd.Bool("builder.offset") {
			cfgA.Offset = new(big.Int).SetUint64(vnd.SmallU64("offset", 40))
			if c09Values != nil {
				cfgA.Offset = new(big.Int).SetUint64([]uint64{0, 5, 10}[vnd.Choose("offset", 3)])
			}
			if vnd.Bool("offset.negative") {
				cfgA.Offset = new(big.Int).Neg(cfgA.Offset)
			}
		}
		if vnd.Bool("builder.factor") {
			factors := []int64{0, 50, 100, 150}
			if c09Values != nil {
				factors = []int64{0, 50, 100, 110}
			}
			cfgA.Factor = big.NewInt(factors[vnd.Choose("factor", len(factors))])
		}
		cfgs[builderA] = cfgA
	}
	// pre-state: no winner, or a winner from relay-a with an arbitrary score
	var oldScore *big.Int
	var oldBid *builderspec.VersionedSignedBuilderBid
	if vnd.Bool("pre.has-winner") {
		var v uint64
		oldBid, v = ndBid("old")
		vnd.Assume(v > 0)
		oldScore = new(big.Int).SetUint64(v)
		res.WinningParticipation = &blockauctioneer.Participation{Score: oldScore, Bid: oldBid, Category: "standard"}
		res.Providers = []builderclient.BuilderBidProvider{relays[0]}
		res.Participation["relay-a"] = res.WinningParticipation
	}
	// the new response: an eligible bid from relay-b, by builder A or an unconfigured builder
	bid, val := ndBid("new")
	vnd.Assume(val > 0)
	cfg := (*blockrelay.BuilderConfig)(nil)
	if vnd.Bool("new.by-configured-builder") {
		bid.Capella.Message.Pubkey = builderA
		cfg = cfgA
	} else {
		bid.Capella.Message.Pubkey = phase0.BLSPubKey{2}
	}
	if oldBid != nil && vnd.Bool("new.same-header-as-winner") {
		bid.Capella.Message.Header = oldBid.Capella.Message.Header
	}
	// "offers the winning payload" = same header root (hash-tree-root is an uninterpreted function)
	sameHeader := false
	if oldBid != nil {
		r1, _ := bid.HeaderHashTreeRoot()
		r2, _ := oldBid.HeaderHashTreeRoot()
		sameHeader = r1 == r2
	}
	s.setBuilderBid(context.Background(), res, &builderBidResponse{provider: relays[1], bid: bid, score: new(big.Int).SetUint64(val)}, cfgs)

	want := c09Score(val, cfg)
	p := res.Participation["relay-b"]
	vnd.Assert(p != nil && p.Bid == bid && p.Score.Cmp(want) == 0, "C09.fold.participation-records-bid-and-reference-score")
	newWins := want.Sign() != 0 && (oldScore == nil || want.Cmp(oldScore) > 0)
	if newWins {
		vnd.Cover("C09.fold.new-winner")
		vnd.Assert(res.WinningParticipation == p, "C09.fold.higher-non-zero-score-wins")
		vnd.Assert(len(res.Providers) == 1 && res.Providers[0] == builderclient.BuilderBidProvider(relays[1]), "C09.fold.providers-reset-to-winners-relay")
	} else {
		vnd.Cover("C09.fold.winner-kept")
		if oldScore == nil {
			vnd.Assert(res.WinningParticipation == nil, "C09.fold.zero-score-never-wins")
		} else {
			vnd.Assert(res.WinningParticipation.Bid == oldBid && res.WinningParticipation.Score == oldScore, "C09.fold.lower-or-equal-score-does-not-replace-winner")
			vnd.Assert(res.Providers[0] == builderclient.BuilderBidProvider(relays[0]), "C09.fold.winners-relay-stays-listed")
			listed := len(res.Providers) == 2
			if listed {
				vnd.Assert(sameHeader && want.Sign() != 0, "C09.fold.only-relays-offering-the-winning-header-are-listed")
			}
			if sameHeader && want.Sign() != 0 {
				vnd.Assert(listed, "C09.fold.relay-offering-the-winning-header-is-listed")
			}
		}
	}
	// invariant: winner's score is maximal among recorded non-zero participations
	if res.WinningParticipation != nil {
		for _, q := range res.Participation {
			if q.Score.Sign() != 0 {
				vnd.Assert(res.WinningParticipation.Score.Cmp(q.Score) >= 0, "C09.fold.winner-has-highest-score")
			}
		}
		vnd.Assert(res.WinningParticipation.Score.Sign() != 0, "C09.fold.winner-score-non-zero")
	}
}

// VerifC09_Auction: the whole single-shot auction over 1..2 relays on the
// virtual clock: late bids never win, the result is returned by the hard timeout,
// all queried relays are listed, no winner when no eligible bid arrived.
func VerifC09_Auction() {
	util.VerifResetBuilderClients()
	ct := vstub.NewChainTime(0)
	timeout := time.Duration(vnd.I64("timeout"))
	vnd.Assume(timeout >= 2 && timeout <= 60000)
	s := c09New(ct, timeout)
	n := vnd.IntRange("relays", 1, 2)
	relays := make([]*c09Relay, n)
	vals := make([]uint64, n)
	pc := &beaconblockproposer.ProposerConfig{}
	slotStart := uint64(ct.StartOfSlot(c09Slot).Unix())
	for i := 0; i < n; i++ {
		r := &c09Relay{name: []string{"https://relay-a.example", "https://relay-b.example"}[i]}
		r.latency = time.Duration(vnd.I64("latency"))
		vnd.Assume(r.latency >= 0 && r.latency <= 120000)
		r.fail = vnd.Bool("relay.fail")
		r.bid, vals[i] = ndBid("bid")
		r.bid.Capella.Message.Header.Timestamp = slotStart
		r.bid.Capella.Message.Header.FeeRecipient = bellatrix.ExecutionAddress{9}
		vnd.Assume(vals[i] > 0)
		relays[i] = r
		util.VerifSetBuilderClient(r.name, r)
		pc.Relays = append(pc.Relays, &beaconblockproposer.RelayConfig{Address: r.name, MinValue: decimal.New(0, 0)})
	}
	start := vnd.NowNs()
	res, err := s.BuilderBid(context.Background(), c09Slot, phase0.Hash32{}, phase0.BLSPubKey{}, pc, map[phase0.BLSPubKey]*blockrelay.BuilderConfig{})
	elapsed := time.Duration(vnd.NowNs() - start)
	vnd.Assert(err == nil && res != nil, "C09.auction.returns-results")
	vnd.Assert(elapsed <= timeout, "C09.auction.returns-by-hard-timeout")
	left := vnd.Quiesce()
	vnd.Assert(left == 0, "C09.auction.relay-goroutines-terminate")
	vnd.Assert(len(res.AllProviders) == n, "C09.auction.all-queried-relays-listed")
	anyInTime := false
	for i, r := range relays {
		if !r.fail {
			anyInTime = vnd.Or(anyInTime, r.latency < timeout/2)
		}
		_ = i
	}
	if res.WinningParticipation == nil {
		vnd.Cover("C09.auction.no-winner")
		vnd.Assert(len(res.Providers) == 0, "C09.auction.no-winner-no-providers")
		vnd.Assert(!anyInTime, "C09.auction.no-winner-only-if-no-eligible-bid-before-soft-timeout")
		// the strategy's deadline is the hard timeout: an eligible bid arriving before it (and, to keep
		// the oracle exact, not at the very instant of a timeout) is never left out
		for _, r := range relays {
			if !r.fail {
				vnd.Assert(!(r.latency < timeout && r.latency != timeout/2), "C09.auction.no-winner-only-if-no-eligible-bid-before-the-hard-timeout")
			}
		}
		return
	}
	vnd.Cover("C09.auction.winner")
	w := -1
	for i, r := range relays {
		if res.WinningParticipation.Bid == r.bid {
			w = i
		}
	}
	vnd.Assert(w >= 0 && !relays[w].fail, "C09.auction.winner-is-an-eligible-received-bid")
	vnd.Assert(relays[w].latency <= elapsed, "C09.auction.late-bid-never-wins")
	for i, r := range relays {
		if i != w && !r.fail {
			vnd.Assert(vnd.Implies(r.latency < elapsed, vals[i] <= vals[w]), "C09.auction.winner-has-highest-value-among-bids-received")
		}
	}
	inProviders := false
	for _, p := range res.Providers {
		if p == builderclient.BuilderBidProvider(relays[w]) {
			inProviders = true
		}
	}
	vnd.Assert(inProviders, "C09.auction.winners-relay-among-unblinding-providers")
}

// VerifC16_AuctionBadRelayAddress: a relay address that cannot be used (empty
// or unparseable) must not crash the auction; the other relays still take part.
func VerifC16_AuctionBadRelayAddress() {
	util.VerifResetBuilderClients()
	ct := vstub.NewChainTime(0)
	s := c09New(ct, 1000)
	bad := []string{"", "http://bad host/", "https://relay.example/%zz"}[vnd.Choose("bad-address", 3)]
	good := &c09Relay{name: "https://relay-a.example"}
	var v uint64
	good.bid, v = ndBid("bid")
	vnd.Assume(v > 0)
	good.bid.Capella.Message.Header.Timestamp = uint64(ct.StartOfSlot(c09Slot).Unix())
	good.bid.Capella.Message.Header.FeeRecipient = bellatrix.ExecutionAddress{9}
	util.VerifSetBuilderClient(good.name, good)
	pc := &beaconblockproposer.ProposerConfig{Relays: []*beaconblockproposer.RelayConfig{
		{Address: bad, MinValue: decimal.New(0, 0)},
		{Address: good.name, MinValue: decimal.New(0, 0)},
	}}
	res, err := s.BuilderBid(context.Background(), c09Slot, phase0.Hash32{}, phase0.BLSPubKey{}, pc, map[phase0.BLSPubKey]*blockrelay.BuilderConfig{})
	vnd.Quiesce()
	vnd.Cover("C16.auction.bad-address-survived")
	vnd.Assert(err == nil && res != nil && len(res.AllProviders) == 1, "C16.auction.other-relays-still-queried")
	vnd.Assert(res.WinningParticipation != nil && res.WinningParticipation.Bid == good.bid, "C16.auction.good-relay-can-still-win")
}

// c09KeyedRelay is a relay that may announce a public key of its own.
type c09KeyedRelay struct {
	c09Relay
	key *phase0.BLSPubKey
}

func (r *c09KeyedRelay) Pubkey() *phase0.BLSPubKey { return r.key }

// VerifC09_Signature: two consecutive auctions on one strategy instance with
// the same relay. When the relay's public key is known - from its
// configuration or from the relay itself - the signature of its bid is verified
// each time and the bid is passed on exactly when it verifies; a key of the
// right length that cannot be decoded makes the relay's bid an error each time
// (never a crash, also not on the second use); with no key known the bid is
// taken unverified. (The BLS pairing check is an oracle with a symbolic outcome.)
func VerifC09_Signature() {
	s, ct := c09Service()
	slotStart := uint64(ct.StartOfSlot(c09Slot).Unix())
	bid := &builderspec.VersionedSignedBuilderBid{Version: consensusspec.DataVersionCapella, Capella: &buildercapella.SignedBuilderBid{
		Message: &buildercapella.BuilderBid{Header: &capella.ExecutionPayloadHeader{FeeRecipient: bellatrix.ExecutionAddress{1}, Timestamp: slotStart, BlockHash: phase0.Hash32{9}, ExtraData: []byte{}},
			Value: uint256.NewInt(7), Pubkey: phase0.BLSPubKey{5}},
	}}
	relay := &c09KeyedRelay{c09Relay: c09Relay{name: "relay-a", bid: bid}}
	rc := &beaconblockproposer.RelayConfig{Address: "relay-a", MinValue: decimal.New(0, 0)}
	known := false
	if vnd.Bool("key-in-relay-configuration") {
		rc.PublicKey = &phase0.BLSPubKey{0xa1}
		known = true
	}
	if vnd.Bool("key-announced-by-relay") {
		relay.key = &phase0.BLSPubKey{0xb2}
		known = true
	}
	undecodable := false
	if known && vnd.Bool("key-is-not-a-curve-point") {
		undecodable = true
		vnd.BLSInvalidKey((&phase0.BLSPubKey{0xa1})[:])
		vnd.BLSInvalidKey((&phase0.BLSPubKey{0xb2})[:])
	}
	for round := 0; round < 2; round++ {
		respCh := make(chan *builderBidResponse, 1)
		errCh := make(chan *builderBidError, 1)
		before := vnd.BLSVerifyCalls()
		s.builderBid(context.Background(), relay, respCh, errCh, c09Slot, phase0.Hash32{}, phase0.BLSPubKey{}, rc)
		var resp *builderBidResponse
		var berr *builderBidError
		select {
		case resp = <-respCh:
		default:
		}
		select {
		case berr = <-errCh:
		default:
		}
		vnd.Assert((resp != nil) != (berr != nil), "C09.signature.one-answer-per-relay")
		passedOn := resp != nil && resp.bid == bid
		switch {
		case !known:
			vnd.Cover("C09.signature.no-key-known")
			vnd.Assert(vnd.BLSVerifyCalls() == before && passedOn, "C09.signature.no-key-no-verification-bid-taken")
		case undecodable:
			vnd.Cover("C09.signature.undecodable-key")
			vnd.Assert(!passedOn && berr != nil, "C09.signature.undecodable-key-is-an-error-every-time")
		default:
			vnd.Assert(vnd.BLSVerifyCalls() == before+1, "C09.signature.verified-when-a-key-is-known")
			valid := vnd.BLSVerifyResult(before)
			if valid {
				vnd.Cover("C09.signature.valid")
			} else {
				vnd.Cover("C09.signature.invalid")
			}
			vnd.Assert(passedOn == valid, "C09.signature.bid-passed-on-exactly-when-its-signature-verifies")
		}
	}
}

// VerifC09_FoldValues: the fold step over catalogues of concrete values (see c09Values).
func VerifC09_FoldValues() {
	c09Values = []uint64{99, 1000, 1105}
	VerifC09_Fold()
}
