//go:build verif

package deadline

import (
	"context"
	"errors"
	"math/big"
	"time"

	"github.com/attestantio/go-block-relay/services/blockauctioneer"
	builderclient "github.com/attestantio/go-builder-client"
	builderapi "github.com/attestantio/go-builder-client/api"
	buildercapella "github.com/attestantio/go-builder-client/api/capella"
	builderspec "github.com/attestantio/go-builder-client/spec"
	"github.com/attestantio/go-eth2-client/api"
	consensusspec "github.com/attestantio/go-eth2-client/spec"
	"github.com/attestantio/go-eth2-client/spec/bellatrix"
	"github.com/attestantio/go-eth2-client/spec/capella"
	"github.com/attestantio/go-eth2-client/spec/phase0"
	"github.com/attestantio/vouch/internal/vnd"
	"github.com/attestantio/vouch/internal/vstub"
	"github.com/attestantio/vouch/services/beaconblockproposer"
	"github.com/attestantio/vouch/services/blockrelay"
	nullmetrics "github.com/attestantio/vouch/services/metrics/null"
	"github.com/attestantio/vouch/util"
	"github.com/holiman/uint256"
	"github.com/rs/zerolog"
	"github.com/shopspring/decimal"
	"go.opentelemetry.io/otel/trace"
)

// c09Relay answers its k-th request after latency[k] with bid[k] (or an error).
type c09Relay struct {
	name    string
	latency []time.Duration
	fail    []bool
	bids    []*builderspec.VersionedSignedBuilderBid
	calls   int
	asked   []time.Duration // instants (since the auction began) of the requests
	start   int64
}

func (r *c09Relay) Name() string              { return r.name }
func (r *c09Relay) Address() string           { return r.name }
func (r *c09Relay) Pubkey() *phase0.BLSPubKey { return nil }
func (r *c09Relay) BuilderBid(_ context.Context, _ *builderapi.BuilderBidOpts) (*builderapi.Response[*builderspec.VersionedSignedBuilderBid], error) {
	k := r.calls
	r.calls++
	r.asked = append(r.asked, time.Duration(vnd.NowNs()-r.start))
	if k >= len(r.bids) {
		k = len(r.bids) - 1
	}
	vnd.Sleep(r.latency[k])
	if r.fail[k] {
		return nil, errors.New("mock relay failure")
	}
	return &builderapi.Response[*builderspec.VersionedSignedBuilderBid]{Data: r.bids[k], Metadata: map[string]any{}}, nil
}
func (r *c09Relay) UnblindProposal(_ context.Context, _ *builderapi.UnblindProposalOpts) (*builderapi.Response[*api.VersionedSignedProposal], error) {
	return nil, errors.New("not used")
}

var _ builderclient.BuilderBidProvider = (*c09Relay)(nil)

const c09Slot = phase0.Slot(1000)

func c09Bid(val uint64, slotStart uint64, tag byte) *builderspec.VersionedSignedBuilderBid {
	hdr := &capella.ExecutionPayloadHeader{FeeRecipient: bellatrix.ExecutionAddress{9}, Timestamp: slotStart, BlockHash: phase0.Hash32{tag}, ExtraData: []byte{}}
	return &builderspec.VersionedSignedBuilderBid{Version: consensusspec.DataVersionCapella, Capella: &buildercapella.SignedBuilderBid{
		Message: &buildercapella.BuilderBid{Header: hdr, Value: uint256.NewInt(val), Pubkey: phase0.BLSPubKey{tag}},
	}}
}

// c09DomainType is the DOMAIN_APPLICATION_BUILDER value of the stub chain
// specification, c09Domain the genesis domain the stub node derives from it.
var (
	c09DomainType = phase0.DomainType{0x00, 0x00, 0x00, 0x01}
	c09Domain     = phase0.Domain{0x00, 0x00, 0x00, 0x01, 0xf5, 0xa5, 0xfd, 0x42}
)

// c09Spec is the spec provider New asks for the application builder domain type.
type c09Spec struct{}

func (c09Spec) Spec(_ context.Context, _ *api.SpecOpts) (*api.Response[map[string]any], error) {
	return &api.Response[map[string]any]{Data: map[string]any{"DOMAIN_APPLICATION_BUILDER": c09DomainType}, Metadata: map[string]any{}}, nil
}

// c09Domains is the domain provider New asks for the application builder domain.
type c09Domains struct{}

func (c09Domains) Domain(_ context.Context, t phase0.DomainType, _ phase0.Epoch) (phase0.Domain, error) {
	return c09Domains{}.GenesisDomain(context.Background(), t)
}

func (c09Domains) GenesisDomain(_ context.Context, t phase0.DomainType) (phase0.Domain, error) {
	if t != c09DomainType {
		return phase0.Domain{}, errors.New("unexpected domain type")
	}
	return c09Domain, nil
}

// c09New builds the strategy the way main does: through New. Deadline and bid
// gap are mandatory (non-zero) parameters.
func c09New(ct *vstub.ChainTime, deadline time.Duration, bidGap time.Duration) *Service {
	s, err := New(context.Background(), WithLogLevel(vnd.LogLevel()), WithMonitor(&nullmetrics.Service{}),
		WithSpecProvider(c09Spec{}), WithDomainProvider(c09Domains{}), WithChainTime(ct),
		WithDeadline(deadline), WithBidGap(bidGap))
	vnd.Assert(err == nil && s != nil, "C09.new.accepted")
	return s
}

// c09Service is a strategy whose deadline and bid gap do not matter (the
// harness calls below the auction loop).
func c09Service(ct *vstub.ChainTime) *Service {
	return c09New(ct, time.Second, 100*time.Millisecond)
}

// VerifC09_Deadline: the repeated-until-deadline auction with one relay
// answering up to two successive requests (each a bid with one of three values
// or an error, after a symbolic latency), symbolic deadline and gap between
// requests: the result comes back at the deadline, the winner is the highest
// eligible bid that arrived before the deadline, a bid arriving later never
// wins, there is no winner when none arrived in time, and the relay goroutine
// ends (nothing stays blocked on a result channel nobody reads any more).
func VerifC09_Deadline() { c09Deadline(1) }

// VerifC09_Deadline2: two relays (thorough).
func VerifC09_Deadline2() { c09Deadline(2) }

func c09Deadline(n int) {
	util.VerifResetBuilderClients()
	ct := vstub.NewChainTime(0)
	D := time.Duration(vnd.I64("deadline"))
	gap := time.Duration(vnd.I64("bid-gap"))
	vnd.Assume(D >= 2 && D <= 60000 && gap >= 1 && 2*gap >= D) // at most two requests per relay
	// the deadline is D (virtual ns) from now
	sinceSlotStart := time.Duration(vnd.NowNs() - ct.StartOfSlot(c09Slot).UnixNano())
	s := c09New(ct, sinceSlotStart+D, gap)
	slotStart := uint64(ct.StartOfSlot(c09Slot).Unix())
	pc := &beaconblockproposer.ProposerConfig{}
	relays := make([]*c09Relay, n)
	vals := make([][]uint64, n)
	for i := 0; i < n; i++ {
		r := &c09Relay{name: []string{"https://relay-a.example", "https://relay-b.example"}[i], start: vnd.NowNs()}
		vals[i] = make([]uint64, 2)
		for k := 0; k < 2; k++ {
			l := time.Duration(vnd.I64("latency"))
			vnd.Assume(l >= 0 && l <= 120000)
			r.latency = append(r.latency, l)
			r.fail = append(r.fail, vnd.Bool("relay.fail"))
			// values from a small catalogue (every order of two of them occurs): the relay's
			// bid statistics divide one value by another, which no solver here decides
			// for two symbolic 128-bit operands
			vals[i][k] = []uint64{3, 5, 8}[vnd.Choose("bid.value", 3)]
			r.bids = append(r.bids, c09Bid(vals[i][k], slotStart, byte(16*i+k+1)))
		}
		relays[i] = r
		util.VerifSetBuilderClient(r.name, r)
		pc.Relays = append(pc.Relays, &beaconblockproposer.RelayConfig{Address: r.name, MinValue: decimal.New(0, 0)})
	}
	start := vnd.NowNs()
	res, err := s.BuilderBid(context.Background(), c09Slot, phase0.Hash32{}, phase0.BLSPubKey{}, pc, map[phase0.BLSPubKey]*blockrelay.BuilderConfig{})
	elapsed := time.Duration(vnd.NowNs() - start)
	vnd.Assert(err == nil && res != nil, "C09.deadline.returns-results")
	vnd.Assert(elapsed <= D, "C09.deadline.returns-by-the-deadline")
	left := vnd.Quiesce()
	vnd.Assert(left == 0, "C09.deadline.relay-goroutines-terminate")
	vnd.Assert(len(res.AllProviders) == n, "C09.deadline.all-queried-relays-listed")
	// arrival instant of the k-th answer of relay i (if that request was made)
	arrival := func(i, k int) time.Duration { return relays[i].asked[k] + relays[i].latency[k] }
	exact := true
	anyInTime := false
	for i, r := range relays {
		vnd.Assert(len(r.asked) >= 1 && len(r.asked) <= 2, "C09.deadline.one-or-two-requests")
		for k := range r.asked {
			exact = vnd.And(exact, arrival(i, k) != D)
			if !r.fail[k] {
				anyInTime = vnd.Or(anyInTime, arrival(i, k) < D)
			}
		}
	}
	if res.WinningParticipation == nil {
		vnd.Cover("C09.deadline.no-winner")
		vnd.Assert(len(res.Providers) == 0, "C09.deadline.no-winner-no-providers")
		vnd.Assert(!anyInTime, "C09.deadline.no-winner-only-if-no-eligible-bid-before-the-deadline")
		return
	}
	vnd.Cover("C09.deadline.winner")
	wi, wk := -1, -1
	for i, r := range relays {
		for k := range r.asked {
			if res.WinningParticipation.Bid == r.bids[k] {
				wi, wk = i, k
			}
		}
	}
	vnd.Assert(wi >= 0 && !relays[wi].fail[wk], "C09.deadline.winner-is-an-eligible-received-bid")
	if wi < 0 {
		return
	}
	vnd.Assert(arrival(wi, wk) <= D, "C09.deadline.late-bid-never-wins")
	for i, r := range relays {
		for k := range r.asked {
			if (i != wi || k != wk) && !r.fail[k] {
				vnd.Assert(vnd.Implies(vnd.And(exact, arrival(i, k) < D), vals[i][k] <= vals[wi][wk]), "C09.deadline.winner-has-highest-value-among-bids-received-before-the-deadline")
			}
		}
	}
	inProviders := false
	for _, p := range res.Providers {
		if p == builderclient.BuilderBidProvider(relays[wi]) {
			inProviders = true
		}
	}
	vnd.Assert(inProviders, "C09.deadline.winners-relay-among-unblinding-providers")
}

// VerifC16_DeadlineBidShapes: one relay's query loop of the deadline strategy
// over bids of any shape a relay can return (no bid, empty bid, value zero /
// below / at / above the relay's minimum, zero fee recipient, wrong timestamp,
// an error), twice in a row: the loop ends without a crash and only eligible
// bids are passed on.
func VerifC16_DeadlineBidShapes() {
	ct := vstub.NewChainTime(0)
	sinceSlotStart := time.Duration(vnd.NowNs() - ct.StartOfSlot(c09Slot).UnixNano())
	s := c09New(ct, sinceSlotStart+10, 6)
	slotStart := uint64(ct.StartOfSlot(c09Slot).Unix())
	r := &c09Relay{name: "https://relay-a.example", start: vnd.NowNs()}
	min := []int64{0, 5}[vnd.Choose("relay.min-value", 2)]
	eligible := make([]bool, 2)
	for k := 0; k < 2; k++ {
		r.latency = append(r.latency, 1)
		shape := vnd.Choose("bid.shape", 7)
		r.fail = append(r.fail, shape == 0)
		val := []uint64{0, 0, 0, 3, 5, 9, 9}[shape]
		bid := c09Bid(val, slotStart, byte(k+1))
		switch shape {
		case 1:
			bid = nil // no bid
		case 5:
			bid.Capella.Message.Header.FeeRecipient = bellatrix.ExecutionAddress{}
		case 6:
			bid.Capella.Message.Header.Timestamp = slotStart + 1
		}
		r.bids = append(r.bids, bid)
		eligible[k] = (shape == 3 || shape == 4) && int64(val) >= min
	}
	respCh := make(chan *builderBidResponse, 4)
	errCh := make(chan *builderBidError, 4)
	rc := &beaconblockproposer.RelayConfig{Address: r.name, MinValue: decimal.New(min, 0)}
	s.builderBid(context.Background(), r, respCh, errCh, c09Slot, phase0.Hash32{}, phase0.BLSPubKey{}, rc, ct.StartOfSlot(c09Slot).Add(s.deadline))
	vnd.Assert(r.calls >= 1, "C16.deadline.relay-asked")
	passed := 0
	for len(respCh) > 0 {
		resp := <-respCh
		if resp.bid != nil {
			passed++
			ok := false
			for k := 0; k < r.calls && k < 2; k++ {
				if resp.bid == r.bids[k] && eligible[k] {
					ok = true
				}
			}
			vnd.Assert(ok, "C16.deadline.only-eligible-bids-passed-on")
		}
	}
	if passed > 0 {
		vnd.Cover("C16.deadline.bid-passed-on")
	}
}

// c09Values, when set, makes bid values, offsets and factors come from small catalogues of
// concrete numbers (among them the example of the documentation: value 1000, offset 10,
// factor 110 against a bid of 1105): every score is then computed by the real math/big, so a
// score formula that differs from the reference is decided at once, where the symbolic fold can
// only answer "unknown" for wide multiplications and divisions that do not cancel syntactically.
var c09Values []uint64

// ndBid builds a capella bid with symbolic value, fee recipient, timestamp,
// builder key and header (block hash).
func ndBid(prefix string) (*builderspec.VersionedSignedBuilderBid, uint64) {
	val := vnd.SmallU64(prefix+".value", 40)
	if c09Values != nil {
		val = c09Values[vnd.Choose(prefix+".value", len(c09Values))]
	}
	hdr := &capella.ExecutionPayloadHeader{
		FeeRecipient: bellatrix.ExecutionAddress(vnd.Addr(prefix + ".fee-recipient")),
		Timestamp:    vnd.U64(prefix + ".timestamp"),
		BlockHash:    phase0.Hash32(vnd.Root(prefix + ".block-hash")),
		ExtraData:    []byte{},
	}
	bid := &builderspec.VersionedSignedBuilderBid{Version: consensusspec.DataVersionCapella, Capella: &buildercapella.SignedBuilderBid{
		Message: &buildercapella.BuilderBid{Header: hdr, Value: uint256.NewInt(val), Pubkey: phase0.BLSPubKey(vnd.PubKey(prefix + ".builder"))},
	}}
	return bid, val
}

// c09Score is the reference score: ((value + offset) * factor) div 100.
func c09Score(val uint64, cfg *blockrelay.BuilderConfig) *big.Int {
	score := new(big.Int).SetUint64(val)
	if cfg != nil && cfg.Offset != nil {
		score = new(big.Int).Add(score, cfg.Offset)
	}
	if cfg != nil && cfg.Factor != nil {
		score = new(big.Int).Div(new(big.Int).Mul(score, cfg.Factor), big.NewInt(100))
	}
	return score
}

// VerifC09_DeadlineFold: one step of the auction fold from an arbitrary result state
// satisfying the invariant: the winner has the highest non-zero score seen,
// every listed provider offered the winner's header, the winner's relay is listed.
func VerifC09_DeadlineFold() {
	s := c09Service(vstub.NewChainTime(0))
	res := &blockauctioneer.Results{Participation: map[string]*blockauctioneer.Participation{}}
	relays := []*c09Relay{{name: "relay-a"}, {name: "relay-b"}}
	// builder configurations
	builderA := phase0.BLSPubKey{1}
	cfgs := map[phase0.BLSPubKey]*blockrelay.BuilderConfig{}
	var cfgA *blockrelay.BuilderConfig
	if vnd.Bool("builder.configured") {
		cfgA = &blockrelay.BuilderConfig{Category: "priority"}
		if vnd.Bool("builder.offset") {
			cfgA.Offset = new(big.Int).SetUint64(vnd.SmallU64("offset", 40))
			if c09Values != nil {
				cfgA.Offset = new(big.Int).SetUint64([]uint64{0, 5, 10}[vnd.Choose("offset", 3)])
			}
			if vnd.Bool("offset.negative") {
				cfgA.Offset = new(big.Int).Neg(cfgA.Offset)
			}
		}
		if vnd.Bool("builder.factor") {
			factors := []int64{0, 50, 100, 150}
			if c09Values != nil {
				factors = []int64{0, 50, 100, 110}
			}
			cfgA.Factor = big.NewInt(factors[vnd.Choose("factor", len(factors))])
		}
		cfgs[builderA] = cfgA
	}
	// pre-state: no winner, or a winner from relay-a with an arbitrary score
	var oldScore *big.Int
	var oldBid *builderspec.VersionedSignedBuilderBid
	if vnd.Bool("pre.has-winner") {
		var v uint64
		oldBid, v = ndBid("old")
		vnd.Assume(v > 0)
		oldScore = new(big.Int).SetUint64(v)
		res.WinningParticipation = &blockauctioneer.Participation{Score: oldScore, Bid: oldBid, Category: "standard"}
		res.Providers = []builderclient.BuilderBidProvider{relays[0]}
		res.Participation["relay-a"] = res.WinningParticipation
	}
	// the new response: an eligible bid from relay-b, by builder A or an unconfigured builder
	bid, val := ndBid("new")
	vnd.Assume(val > 0)
	cfg := (*blockrelay.BuilderConfig)(nil)
	if vnd.Bool("new.by-configured-builder") {
		bid.Capella.Message.Pubkey = builderA
		cfg = cfgA
	} else {
		bid.Capella.Message.Pubkey = phase0.BLSPubKey{2}
	}
	if oldBid != nil && vnd.Bool("new.same-header-as-winner") {
		bid.Capella.Message.Header = oldBid.Capella.Message.Header
	}
	// "offers the winning payload" = same header root (hash-tree-root is an uninterpreted function)
	sameHeader := false
	if oldBid != nil {
		r1, _ := bid.HeaderHashTreeRoot()
		r2, _ := oldBid.HeaderHashTreeRoot()
		sameHeader = r1 == r2
	}
	s.setBuilderBid(context.Background(), res, &builderBidResponse{provider: relays[1], bid: bid, score: new(big.Int).SetUint64(val)}, cfgs)

	want := c09Score(val, cfg)
	p := res.Participation["relay-b"]
	vnd.Assert(p != nil && p.Bid == bid && p.Score.Cmp(want) == 0, "C09.deadlinefold.participation-records-bid-and-reference-score")
	newWins := want.Sign() != 0 && (oldScore == nil || want.Cmp(oldScore) > 0)
	if newWins {
		vnd.Cover("C09.deadlinefold.new-winner")
		vnd.Assert(res.WinningParticipation == p, "C09.deadlinefold.higher-non-zero-score-wins")
		vnd.Assert(len(res.Providers) == 1 && res.Providers[0] == builderclient.BuilderBidProvider(relays[1]), "C09.deadlinefold.providers-reset-to-winners-relay")
	} else {
		vnd.Cover("C09.deadlinefold.winner-kept")
		if oldScore == nil {
			vnd.Assert(res.WinningParticipation == nil, "C09.deadlinefold.zero-score-never-wins")
		} else {
			vnd.Assert(res.WinningParticipation.Bid == oldBid && res.WinningParticipation.Score == oldScore, "C09.deadlinefold.lower-or-equal-score-does-not-replace-winner")
			vnd.Assert(res.Providers[0] == builderclient.BuilderBidProvider(relays[0]), "C09.deadlinefold.winners-relay-stays-listed")
			listed := len(res.Providers) == 2
			if listed {
				vnd.Assert(sameHeader && want.Sign() != 0, "C09.deadlinefold.only-relays-offering-the-winning-header-are-listed")
			}
			if sameHeader && want.Sign() != 0 {
				vnd.Assert(listed, "C09.deadlinefold.relay-offering-the-winning-header-is-listed")
			}
		}
	}
	// invariant: winner's score is maximal among recorded non-zero participations
	if res.WinningParticipation != nil {
		for _, q := range res.Participation {
			if q.Score.Sign() != 0 {
				vnd.Assert(res.WinningParticipation.Score.Cmp(q.Score) >= 0, "C09.deadlinefold.winner-has-highest-score")
			}
		}
		vnd.Assert(res.WinningParticipation.Score.Sign() != 0, "C09.deadlinefold.winner-score-non-zero")
	}
}

// VerifC09_DeadlineEligible: one request of the deadline strategy's relay loop:
// the answer is passed on as a bid exactly when it is eligible (value non-zero
// and at least the relay's minimum, non-zero fee recipient, timestamp equal to
// the slot start; no relay key known) and improves on the relay's previous bid.
func VerifC09_DeadlineEligible() {
	ct := vstub.NewChainTime(0)
	s := c09Service(ct)
	bid, val := ndBid("bid")
	relay := &c09Relay{name: "relay-a", start: vnd.NowNs(), latency: []time.Duration{0}, fail: []bool{vnd.Bool("relay.fail")}, bids: []*builderspec.VersionedSignedBuilderBid{bid}}
	if vnd.Bool("relay.nil-bid") {
		relay.bids[0] = nil
	}
	min := vnd.SmallU64("relay.min-value", 40)
	rc := &beaconblockproposer.RelayConfig{Address: "relay-a", MinValue: decimal.New(int64(min), 0)}
	// the relay's previous bid in this auction, if any
	var last *builderspec.VersionedSignedBuilderBid
	lastVal := uint64(0)
	if vnd.Bool("has-previous-bid") {
		last, lastVal = ndBid("previous")
		vnd.Assume(lastVal > 0)
	}
	respCh := make(chan *builderBidResponse, 2)
	errCh := make(chan *builderBidError, 2)
	log := zerolog.Nop()
	s.builderBidAttempt(context.Background(), &log, trace.SpanFromContext(context.Background()), relay, respCh, errCh, c09Slot, phase0.Hash32{}, phase0.BLSPubKey{}, rc, last, last, 0)
	hdr := bid.Capella.Message.Header
	slotStart := uint64(ct.StartOfSlot(c09Slot).Unix())
	eligible := !relay.fail[0] && relay.bids[0] != nil && val != 0 && val >= min &&
		hdr.FeeRecipient != (bellatrix.ExecutionAddress{}) && hdr.Timestamp == slotStart
	var resp *builderBidResponse
	select {
	case resp = <-respCh:
	default:
	}
	if eligible && (last == nil || val > lastVal) {
		vnd.Cover("C09.deadline-eligible.passed-on")
		vnd.Assert(resp != nil && resp.bid == bid && resp.score.Cmp(new(big.Int).SetUint64(val)) == 0, "C09.deadline-eligible.eligible-improving-bid-is-passed-on-with-its-value")
	} else {
		vnd.Cover("C09.deadline-eligible.not-passed-on")
		vnd.Assert(resp == nil || resp.bid == nil, "C09.deadline-eligible.ineligible-or-not-improving-bid-never-passed-on")
	}
	vnd.Assert(relay.calls == 1, "C09.deadline-eligible.relay-asked-once")
}

// c09KeyedRelay is a relay that announces a public key of its own.
type c09KeyedRelay struct {
	c09Relay
	key *phase0.BLSPubKey
}

func (r *c09KeyedRelay) Pubkey() *phase0.BLSPubKey { return r.key }

// VerifC09_DeadlineSignature: two consecutive bid requests on one strategy
// instance with the same relay. When the relay's public key is known - from the
// relay's configuration or from the relay itself - the signature of its bid is
// verified each time and a bid whose signature does not verify is never passed
// on; a key of the right length that cannot be decoded makes the relay's bid an
// error each time (never a crash, also not on the second use); with no key
// known the bid is taken without verification. (The BLS pairing check itself is
// an oracle with a symbolic outcome.)
func VerifC09_DeadlineSignature() {
	ct := vstub.NewChainTime(0)
	s := c09Service(ct)
	slotStart := uint64(ct.StartOfSlot(c09Slot).Unix())
	bid := c09Bid(7, slotStart, 1)
	relay := &c09KeyedRelay{c09Relay: c09Relay{name: "relay-a", start: vnd.NowNs(), latency: []time.Duration{0, 0}, fail: []bool{false, false}, bids: []*builderspec.VersionedSignedBuilderBid{bid, bid}}}
	rc := &beaconblockproposer.RelayConfig{Address: "relay-a", MinValue: decimal.New(0, 0)}
	known := false
	if vnd.Bool("key-in-relay-configuration") {
		rc.PublicKey = &phase0.BLSPubKey{0xa1}
		known = true
	}
	if vnd.Bool("key-announced-by-relay") {
		relay.key = &phase0.BLSPubKey{0xb2}
		known = true
	}
	undecodable := false
	if known && vnd.Bool("key-is-not-a-curve-point") {
		undecodable = true
		vnd.BLSInvalidKey((&phase0.BLSPubKey{0xa1})[:])
		vnd.BLSInvalidKey((&phase0.BLSPubKey{0xb2})[:])
	}
	log := zerolog.Nop()
	for round := 0; round < 2; round++ {
		respCh := make(chan *builderBidResponse, 2)
		errCh := make(chan *builderBidError, 2)
		before := vnd.BLSVerifyCalls()
		s.builderBidAttempt(context.Background(), &log, trace.SpanFromContext(context.Background()), relay, respCh, errCh, c09Slot, phase0.Hash32{}, phase0.BLSPubKey{}, rc, nil, nil, 0)
		var resp *builderBidResponse
		var berr *builderBidError
		select {
		case resp = <-respCh:
		default:
		}
		select {
		case berr = <-errCh:
		default:
		}
		passedOn := resp != nil && resp.bid == bid
		switch {
		case !known:
			vnd.Cover("C09.signature.no-key-known")
			vnd.Assert(vnd.BLSVerifyCalls() == before && passedOn, "C09.signature.no-key-no-verification-bid-taken")
		case undecodable:
			vnd.Cover("C09.signature.undecodable-key")
			vnd.Assert(!passedOn && berr != nil, "C09.signature.undecodable-key-is-an-error-every-time")
		default:
			vnd.Assert(vnd.BLSVerifyCalls() == before+1, "C09.signature.verified-when-a-key-is-known")
			valid := vnd.BLSVerifyResult(before)
			if valid {
				vnd.Cover("C09.signature.valid")
			} else {
				vnd.Cover("C09.signature.invalid")
			}
			vnd.Assert(passedOn == valid, "C09.signature.bid-passed-on-exactly-when-its-signature-verifies")
		}
	}
}

// VerifC09_DeadlineFoldValues: the fold step over catalogues of concrete values (see c09Values).
func VerifC09_DeadlineFoldValues() {
	c09Values = []uint64{99, 1000, 1105}
	VerifC09_DeadlineFold()
}
