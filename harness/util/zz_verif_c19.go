//go:build verif

package util

import (
	"sort"
	"time"

	"github.com/attestantio/vouch/internal/vnd"
	"github.com/rs/zerolog"
	"github.com/spf13/viper"
)

// c19Paths: the lookup path and the configuration levels that may hold a
// value. The lookup functions depend on a path only through its chain of
// prefixes, so two component names per level suffice; a sibling subtree
// ("a.x") checks that unrelated branches are ignored.
var c19Lookup = []string{"", "a", "a.b", "a.b.c", "a.x", "a.b.c.d"}

func c19Prefixes(path string) []string {
	// longest first
	var out []string
	for p := path; p != ""; {
		out = append(out, p)
		i := -1
		for j := len(p) - 1; j >= 0; j-- {
			if p[j] == '.' {
				i = j
				break
			}
		}
		if i < 0 {
			break
		}
		p = p[:i]
	}
	return out
}

func c19Key(prefix, variable string) string {
	if prefix == "" {
		return variable
	}
	return prefix + "." + variable
}

var c19Levels = []string{"", "a", "a.b", "a.b.c", "a.x"}

// VerifC19_Timeout: Timeout(path) is the value at the longest prefix with a non-zero timeout -
// of the configuration tree as it is at the time of the call: after the first lookup the value at
// one level (any) is set, changed or cleared and the same path is looked up again; nothing
// remembered from the first answer shows in the second.
func VerifC19_Timeout() {
	viper.Reset()
	vals := map[string]time.Duration{}
	for _, lvl := range c19Levels {
		if vnd.Bool("present") {
			d := time.Duration(vnd.I64("timeout"))
			viper.Set(c19Key(lvl, "timeout"), d)
			vals[lvl] = d
		}
	}
	path := c19Lookup[vnd.Choose("path", len(c19Lookup))]
	for round := 0; round < 2; round++ {
		if round == 1 {
			lvl := c19Levels[vnd.Choose("changed-level", len(c19Levels))]
			d := time.Duration(vnd.I64("changed-to")) // zero: no value any more
			viper.Set(c19Key(lvl, "timeout"), d)
			vals[lvl] = d
		}
		got := Timeout(path)
		want := vals[""] // zero when absent
		found := false
		for _, p := range c19Prefixes(path) {
			if d, ok := vals[p]; ok && d != 0 && !found {
				want, found = d, true
			}
		}
		if found {
			vnd.Cover("C19.timeout.specific")
		} else {
			vnd.Cover("C19.timeout.fallback-to-top")
		}
		vnd.Assert(got == want, "C19.timeout.longest-prefix")
	}
}

// VerifC19_Addresses: BeaconNodeAddresses(path).
func VerifC19_Addresses() {
	viper.Reset()
	vals := map[string][]string{}
	for _, lvl := range c19Levels {
		switch vnd.Choose("shape", 3) {
		case 1:
			viper.Set(c19Key(lvl, "beacon-node-addresses"), []string{})
			vals[lvl] = []string{}
		case 2:
			viper.Set(c19Key(lvl, "beacon-node-addresses"), []string{"node@" + lvl})
			vals[lvl] = []string{"node@" + lvl}
		}
	}
	legacy := vnd.Bool("legacy")
	if legacy {
		viper.Set("beacon-node-address", []string{"legacy"})
	}
	path := c19Lookup[vnd.Choose("path", len(c19Lookup))]
	got := BeaconNodeAddresses(path)
	var want []string
	found := false
	for _, p := range c19Prefixes(path) {
		if v, ok := vals[p]; ok && len(v) > 0 && !found {
			want, found = v, true
		}
	}
	if !found {
		if v, ok := vals[""]; ok {
			want = v // set at top level (even if empty)
			vnd.Cover("C19.addresses.top")
		} else if legacy {
			want = []string{"legacy"}
			vnd.Cover("C19.addresses.legacy")
		}
	} else {
		vnd.Cover("C19.addresses.specific")
	}
	vnd.Assert(len(got) == len(want), "C19.addresses.longest-prefix.len")
	for i := range want {
		if i < len(got) {
			vnd.Assert(got[i] == want[i], "C19.addresses.longest-prefix.value")
		}
	}
}

// c19RealAddressPaths: every path vouch itself looks beacon node addresses up under (main.go).
var c19RealAddressPaths = []string{
	"strategies.synccommitteecontribution.first", "strategies.synccommitteecontribution.best",
	"strategies.beaconblockroot.majority", "strategies.beaconblockroot.first",
	"strategies.beaconblockproposal.first", "strategies.beaconblockproposal.best",
	"strategies.attestationdata.majority", "strategies.attestationdata.first", "strategies.attestationdata.best",
	"strategies.aggregateattestation.first", "strategies.aggregateattestation.best",
}

// VerifC19_AddressesRealPaths: BeaconNodeAddresses over the paths vouch really uses, with their real
// component names (the short catalogue above rests on the lookup depending on a path only through its
// chain of prefixes; this one does not): any subset of the levels of the chosen path (top, "strategies",
// the family, the style) and of a sibling style holds a list, and the answer is the list of the longest
// prefix that holds one.
func VerifC19_AddressesRealPaths() {
	viper.Reset()
	path := c19RealAddressPaths[vnd.Choose("path", len(c19RealAddressPaths))]
	prefixes := c19Prefixes(path) // longest first
	levels := append([]string{""}, prefixes...)
	levels = append(levels, prefixes[1]+".other") // a sibling of the style: never consulted
	vals := map[string][]string{}
	for _, lvl := range levels {
		if vnd.Bool("level.has.addresses") {
			viper.Set(c19Key(lvl, "beacon-node-addresses"), []string{"node@" + lvl})
			vals[lvl] = []string{"node@" + lvl}
		}
	}
	got := BeaconNodeAddresses(path)
	var want []string
	for _, p := range append(prefixes, "") {
		if v, ok := vals[p]; ok {
			want = v
			break
		}
	}
	if want != nil {
		vnd.Cover("C19.realpaths.some-level-set")
	}
	vnd.Assert(len(got) == len(want), "C19.realpaths.longest-prefix.len")
	if len(want) == 1 && len(got) == 1 {
		vnd.Assert(got[0] == want[0], "C19.realpaths.value-of-the-longest-prefix-that-has-one")
	}
}

// VerifC19_LogLevel: LogLevel(path).
func VerifC19_LogLevel() {
	viper.Reset()
	names := []string{"", "debug", "Warning"}
	levels := []zerolog.Level{zerolog.NoLevel, zerolog.DebugLevel, zerolog.WarnLevel}
	vals := map[string]int{}
	for _, lvl := range []string{"", "a", "a.b", "a.x"} {
		if vnd.Bool("present") {
			k := vnd.Choose("level", len(names))
			viper.Set(c19Key(lvl, "log-level"), names[k])
			vals[lvl] = k
		}
	}
	path := c19Lookup[vnd.Choose("path", len(c19Lookup))]
	got := LogLevel(path)
	want := vals[""]
	found := false
	for _, p := range c19Prefixes(path) {
		if k, ok := vals[p]; ok && k != 0 && !found {
			want, found = k, true
		}
	}
	if want != 0 {
		vnd.Assert(got == levels[want], "C19.loglevel.longest-prefix")
		vnd.Cover("C19.loglevel.set")
	}
}

// VerifC19_LogLevelHistory: the same path looked up twice, the second time after
// the value at one level was set, changed or cleared: the answer follows the tree.
func VerifC19_LogLevelHistory() {
	viper.Reset()
	names := []string{"", "debug", "Warning"}
	levels := []zerolog.Level{zerolog.NoLevel, zerolog.DebugLevel, zerolog.WarnLevel}
	lvls := []string{"", "a", "a.b"}
	vals := map[string]int{}
	for _, lvl := range lvls {
		k := vnd.Choose("level", len(names)) // 0: none
		if k != 0 {
			viper.Set(c19Key(lvl, "log-level"), names[k])
			vals[lvl] = k
		}
	}
	const path = "a.b.c"
	for round := 0; round < 2; round++ {
		if round == 1 {
			lvl := lvls[vnd.Choose("changed-level", len(lvls))]
			k := vnd.Choose("changed-to", len(names))
			viper.Set(c19Key(lvl, "log-level"), names[k])
			vals[lvl] = k
		}
		got := LogLevel(path)
		want := vals[""]
		found := false
		for _, p := range c19Prefixes(path) {
			if k, ok := vals[p]; ok && k != 0 && !found {
				want, found = k, true
			}
		}
		if want != 0 {
			vnd.Assert(got == levels[want], "C19.loglevel.longest-prefix")
			vnd.Cover("C19.loglevel.history.set")
		}
	}
}

// VerifC19_Concurrency: ProcessConcurrency(path).
func VerifC19_Concurrency() {
	viper.Reset()
	vals := map[string]int64{}
	for _, lvl := range c19Levels {
		if vnd.Bool("present") {
			v := vnd.I64("concurrency")
			viper.Set(c19Key(lvl, "process-concurrency"), v)
			vals[lvl] = v
		}
	}
	path := c19Lookup[vnd.Choose("path", len(c19Lookup))]
	// looked up twice: the second time after a value was set or changed at one level
	for round := 0; round < 2; round++ {
		if round == 1 {
			lvl := c19Levels[vnd.Choose("changed-level", len(c19Levels))]
			v := vnd.I64("changed-to")
			viper.Set(c19Key(lvl, "process-concurrency"), v)
			vals[lvl] = v
		}
		got := ProcessConcurrency(path)
		want := vals[""]
		found := false
		for _, p := range c19Prefixes(path) {
			if v, ok := vals[p]; ok && !found {
				want, found = v, true
			}
		}
		if found {
			vnd.Cover("C19.concurrency.specific")
		}
		vnd.Assert(got == want, "C19.concurrency.longest-prefix")
	}
}

// VerifC19_Bool: HierarchicalBool(variable, path).
func VerifC19_Bool() {
	viper.Reset()
	vals := map[string]bool{}
	for _, lvl := range c19Levels {
		if vnd.Bool("present") {
			v := vnd.Bool("flag")
			viper.Set(c19Key(lvl, "some-flag"), v)
			vals[lvl] = v
		}
	}
	path := c19Lookup[vnd.Choose("path", len(c19Lookup))]
	// looked up twice: the second time after a value was set or changed at one level
	for round := 0; round < 2; round++ {
		if round == 1 {
			lvl := c19Levels[vnd.Choose("changed-level", len(c19Levels))]
			v := vnd.Bool("changed-to")
			viper.Set(c19Key(lvl, "some-flag"), v)
			vals[lvl] = v
		}
		got := HierarchicalBool("some-flag", path)
		want := vals[""]
		found := false
		for _, p := range c19Prefixes(path) {
			if v, ok := vals[p]; ok && !found {
				want, found = v, true
			}
		}
		if found {
			vnd.Cover("C19.bool.specific")
		}
		vnd.Assert(got == want, "C19.bool.longest-prefix")
	}
}

// VerifC19_AddressesForDuties: the beacon nodes used for proposing / attesting
// are the union, without duplicates and sorted, of the addresses the longest-
// prefix rule gives for the strategy style in use (the top-level addresses for
// an unknown or absent style).
func VerifC19_AddressesForDuties() {
	viper.Reset()
	viper.Set("beacon-node-addresses", []string{"top-b", "top-a"})
	set := func(path string, addrs ...string) {
		if vnd.Bool("level-set") {
			viper.Set(path+".beacon-node-addresses", addrs)
		}
	}
	set("strategies", "strat")
	set("strategies.beaconblockproposal", "prop-x", "top-a")
	set("strategies.beaconblockproposal.best", "prop-best")
	set("strategies.blindedbeaconblockproposal.first", "blind-first", "prop-x")
	set("strategies.attestationdata.majority", "att-maj")
	styles := []string{"", "best", "first", "majority", "other"}
	ps, bs, as := styles[vnd.Choose("proposal.style", 5)], styles[vnd.Choose("blinded.style", 5)], styles[vnd.Choose("attestation.style", 5)]
	if ps != "" {
		viper.Set("strategies.beaconblockproposal.style", ps)
	}
	if bs != "" {
		viper.Set("strategies.blindedbeaconblockproposal.style", bs)
	}
	if as != "" {
		viper.Set("strategies.attestationdata.style", as)
	}
	pathFor := func(family, style string, known ...string) string {
		for _, k := range known {
			if style == k {
				return "strategies." + family + "." + style
			}
		}
		return ""
	}
	union := func(paths ...string) []string {
		seen := map[string]bool{}
		var out []string
		for _, p := range paths {
			for _, a := range BeaconNodeAddresses(p) {
				if !seen[a] {
					seen[a] = true
					out = append(out, a)
				}
			}
		}
		sort.Strings(out)
		return out
	}
	same := func(a, b []string) bool {
		if len(a) != len(b) {
			return false
		}
		for i := range a {
			if a[i] != b[i] {
				return false
			}
		}
		return true
	}
	// what the longest-prefix rule gives for each path before the per-duty lists are asked for
	// (copies: viper hands out the very slice it stores)
	watched := []string{"", "strategies", "strategies.beaconblockproposal.best", "strategies.beaconblockproposal.first", "strategies.blindedbeaconblockproposal.first", "strategies.attestationdata.best", "strategies.attestationdata.majority", "submitter"}
	before := make([][]string, len(watched))
	for i, p := range watched {
		before[i] = append([]string{}, BeaconNodeAddresses(p)...)
	}
	wantP := union(pathFor("beaconblockproposal", ps, "best", "first"), pathFor("blindedbeaconblockproposal", bs, "best", "first"))
	vnd.Assert(same(BeaconNodeAddressesForProposing(), wantP), "C19.duties.proposing-nodes-are-those-of-the-styles-in-use")
	wantA := union(pathFor("attestationdata", as, "best", "first", "majority"))
	vnd.Assert(same(BeaconNodeAddressesForAttesting(), wantA), "C19.duties.attesting-nodes-are-those-of-the-style-in-use")
	// asking for the per-duty lists (start-up does, before the services are built) leaves every
	// later lookup with the value that was configured, in the order it was configured
	for i, p := range watched {
		vnd.Assert(same(BeaconNodeAddresses(p), before[i]), "C19.duties.later-lookups-still-get-the-configured-value")
	}
	vnd.Cover("C19.duties.checked")
}
