//go:build verif

package util

import (
	"sync"

	"github.com/attestantio/vouch/internal/vnd"
)

// VerifC08_ScatterCoverage: Scatter hands every input element to exactly one
// worker, for any concurrency setting (small inputs, real goroutines).
func VerifC08_ScatterCoverage() {
	items := vnd.IntRange("items", 1, 6)
	conc := vnd.IntRange("concurrency", -1, 8)
	vnd.SetGOMAXPROCS(vnd.IntRange("gomaxprocs", 1, 3))
	var mu sync.Mutex
	hits := make([]int, items)
	calls := 0
	fail := vnd.Bool("one-worker-fails")
	res, err := Scatter(items, conc, func(offset int, entries int, _ *sync.RWMutex) (interface{}, error) {
		mu.Lock()
		defer mu.Unlock()
		calls++
		vnd.Assert(entries >= 1, "C08.scatter.no-empty-extent")
		vnd.Assert(offset >= 0 && offset+entries <= items, "C08.scatter.extent-within-input")
		for i := offset; i < offset+entries; i++ {
			hits[i]++
		}
		if fail && offset == 0 {
			return nil, errTest
		}
		return nil, nil
	})
	vnd.Quiesce()
	for i := 0; i < items; i++ {
		vnd.Assert(hits[i] == 1, "C08.scatter.every-element-in-exactly-one-extent")
	}
	vnd.Assert(calls <= items, "C08.scatter.no-more-workers-than-items")
	if fail {
		vnd.Assert(err != nil, "C08.scatter.worker-error-reported")
	} else {
		vnd.Assert(err == nil && len(res) == calls, "C08.scatter.results-per-worker")
	}
	vnd.Cover("C08.scatter.checked")
}

type testErr struct{}

func (testErr) Error() string { return "worker failed" }

var errTest error = testErr{}

// VerifC08_PartitionInt: the extent arithmetic for large inputs (Int mode:
// mathematical integers with discharged no-overflow obligations).
func VerifC08_PartitionInt() {
	items := vnd.Int("items")
	conc := vnd.Int("concurrency")
	vnd.Assume(items >= 1 && items <= 1<<20)
	vnd.Assume(conc >= 1 && conc <= 1024)
	extent := calculateExtentSize(items, conc)
	vnd.Assert(extent >= 1, "C08.partition.extent-at-least-one")
	// Scatter's worker count
	workers := items / extent
	if items%extent != 0 {
		workers++
	}
	vnd.Assert(workers >= 1 && workers <= items, "C08.partition.workers-between-one-and-items")
	// the extents [w*extent, min((w+1)*extent, items)) tile [0, items)
	vnd.Assert((workers-1)*extent < items, "C08.partition.last-extent-non-empty")
	vnd.Assert(workers*extent >= items, "C08.partition.extents-cover-the-input")
	w := vnd.Int("worker")
	vnd.Assume(w >= 0 && w < workers)
	offset := w * extent
	entries := extent
	if offset+entries > items {
		entries = items - offset
	}
	vnd.Assert(entries >= 1 && offset+entries <= items, "C08.partition.each-extent-non-empty-and-inside")
	vnd.Cover("C08.partition.checked")
}
