//go:build verif

package util

import builder "github.com/attestantio/go-builder-client"

// VerifSetBuilderClient pre-populates the builder client cache so that
// FetchBuilderClient hands out a harness relay instead of dialling out.
func VerifSetBuilderClient(address string, client builder.Service) {
	buildersMu.Lock()
	defer buildersMu.Unlock()
	if builders == nil {
		builders = make(map[string]builder.Service)
	}
	builders[address] = client
}

// VerifResetBuilderClients empties the cache.
func VerifResetBuilderClients() {
	buildersMu.Lock()
	defer buildersMu.Unlock()
	builders = nil
}
