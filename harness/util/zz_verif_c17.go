//go:build verif

package util

import (
	"context"
	"strings"

	builder "github.com/attestantio/go-builder-client"
	httpclient "github.com/attestantio/go-builder-client/http"
	"github.com/attestantio/go-eth2-client/spec/phase0"
	"github.com/attestantio/vouch/internal/vnd"
	"github.com/spf13/viper"
)

// c17Client stands for a relay's REST client. Like the real one it reports its address in
// sanitised form (no trailing slash, no credentials), which need not be the configured string.
type c17Client struct{ address string }

func (c *c17Client) Name() string              { return "stub" }
func (c *c17Client) Address() string           { return c.address }
func (c *c17Client) Pubkey() *phase0.BLSPubKey { return nil }

var (
	c17Created []*c17Client
	c17Asking  []string // addresses being asked for, in the order the constructor is reached
)

// VerifStub_builderhttp_New replaces the REST client's constructor (engine redirect): it hands out a
// new stub client for the address the harness says is being instantiated.
func VerifStub_builderhttp_New(_ context.Context, _ ...httpclient.Parameter) (builder.Service, error) {
	// (no lock of its own: the constructor is reached with the client table's mutex held)
	c := &c17Client{address: "https://relay.example"}
	if len(c17Asking) > 0 {
		c.address = strings.TrimSuffix(c17Asking[0], "/")
		c17Asking = c17Asking[1:]
	}
	c17Created = append(c17Created, c)
	return c, nil
}

// c17Addresses: relay addresses as operators write them (the second is not in sanitised form).
var c17Addresses = []string{"https://relay-a.example", "https://relay-b.example/"}

// VerifC17_FetchBuilderClients: registration rounds, auctions, unblinding and forwarded
// registrations all obtain a relay's client from util.FetchBuilderClient, from goroutines of their
// own. Two of them ask at the same time for relays that have no client yet (the same relay or two
// different ones), then each relay is asked for once more. Race monitor on, every schedule within
// the preemption bound: no conflicting access to the client table, one client per relay however
// often and from wherever it is asked for, and everybody gets that one.
func VerifC17_FetchBuilderClients() {
	viper.Reset()
	VerifResetBuilderClients()
	c17Created, c17Asking = nil, nil
	pick := [2]string{c17Addresses[vnd.Choose("first-asks-for", 2)], c17Addresses[vnd.Choose("second-asks-for", 2)]}
	var got [2]builder.Service
	var errs [2]error
	done := 0
	for i := 0; i < 2; i++ {
		i := i
		// (both constructions, if there are two, are for the addresses asked for; with one relay asked
		// for twice the order does not matter)
		c17Asking = append(c17Asking, pick[i])
		go func() {
			got[i], errs[i] = FetchBuilderClient(context.Background(), pick[i], nil, "test")
			done++
		}()
	}
	left := vnd.Quiesce()
	vnd.Assert(left == 0 && done == 2, "C17.builderclients.fetches-return")
	vnd.Assert(errs[0] == nil && errs[1] == nil && got[0] != nil && got[1] != nil, "C17.builderclients.client-obtained")
	if pick[0] == pick[1] {
		vnd.Cover("C17.builderclients.same-relay-asked-for-twice-at-once")
		vnd.Assert(got[0] == got[1], "C17.builderclients.overlapping-fetches-of-one-relay-get-the-same-client")
		vnd.Assert(len(c17Created) == 1, "C20.builderclients.one-client-per-relay")
	} else {
		vnd.Assert(got[0] != got[1] && len(c17Created) == 2, "C17.builderclients.different-relays-have-different-clients")
	}
	// later fetches (every auction, every registration round) find the clients that exist
	created := len(c17Created)
	for i := 0; i < 2; i++ {
		again, err := FetchBuilderClient(context.Background(), pick[i], nil, "test")
		vnd.Assert(err == nil && again == got[i], "C20.builderclients.later-fetches-get-the-existing-client")
	}
	vnd.Assert(len(c17Created) == created, "C20.builderclients.no-client-is-instantiated-for-a-relay-that-has-one")
}
