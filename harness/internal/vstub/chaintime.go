// Package vstub holds environment stubs shared by the verification harnesses.
package vstub

import (
	"time"

	"github.com/attestantio/go-eth2-client/spec/phase0"
	"github.com/attestantio/vouch/internal/vnd"
)

// ChainTime is a harness implementation of chaintime.Service with exact
// integer arithmetic: the "current slot" is a harness-chosen value instead of
// being derived from the wall clock (the real conversions are the subject of
// the C03.time harnesses only).
type ChainTime struct {
	SPE       uint64 // slots per epoch, >= 1
	Cur       phase0.Slot
	GenesisNs int64
	SlotNs    int64
}

// SPEChoices are the slots-per-epoch values a harness ranges over (a concrete
// case split: 64-bit division by a symbolic divisor does not finish when
// bit-blasted, DESIGN §2.9).
var SPEChoices = []uint64{32}

// NewChainTime returns a chain time with slots-per-epoch chosen from
// SPEChoices, symbolic current slot below 2^40 and a slot of 2^33 ns (a power
// of two keeps slot*duration a shift for the solver; the real conversions are
// checked by C03.time).
func NewChainTime(_ uint64) *ChainTime {
	c := &ChainTime{SPE: SPEChoices[vnd.Choose("ct.spe", len(SPEChoices))], Cur: phase0.Slot(vnd.U64("ct.cur")), GenesisNs: 1600000000 * 1000000000, SlotNs: 1 << 33}
	vnd.Assume(uint64(c.Cur) < 1<<40)
	return c
}

func (c *ChainTime) GenesisTime() time.Time { return time.Unix(0, c.GenesisNs) }
func (c *ChainTime) StartOfSlot(slot phase0.Slot) time.Time {
	return time.Unix(0, c.GenesisNs+int64(slot)*c.SlotNs)
}
func (c *ChainTime) StartOfEpoch(epoch phase0.Epoch) time.Time {
	return time.Unix(0, c.GenesisNs+int64(uint64(epoch)*c.SPE)*c.SlotNs)
}
func (c *ChainTime) CurrentSlot() phase0.Slot                  { return c.Cur }
func (c *ChainTime) CurrentEpoch() phase0.Epoch                { return phase0.Epoch(uint64(c.Cur) / c.SPE) }
func (c *ChainTime) SlotToEpoch(slot phase0.Slot) phase0.Epoch { return phase0.Epoch(uint64(slot) / c.SPE) }
func (c *ChainTime) FirstSlotOfEpoch(epoch phase0.Epoch) phase0.Slot {
	return phase0.Slot(uint64(epoch) * c.SPE)
}
