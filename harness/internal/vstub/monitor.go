package vstub

import "time"

// ClientMonitor is a no-op metrics.ClientMonitor.
type ClientMonitor struct{}

func (ClientMonitor) ClientOperation(_ string, _ string, _ bool, _ time.Duration)     {}
func (ClientMonitor) StrategyOperation(_ string, _ string, _ string, _ time.Duration) {}
