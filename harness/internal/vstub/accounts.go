package vstub

import (
	"context"

	"github.com/google/uuid"
	e2wtypes "github.com/wealdtech/go-eth2-wallet-types/v2"
	e2types "github.com/wealdtech/go-eth2-types/v2"
)

// PubKey is a stub e2types.PublicKey carrying 48 bytes.
type PubKey struct{ B [48]byte }

func (p *PubKey) Marshal() []byte                { return p.B[:] }
func (p *PubKey) Aggregate(_ e2types.PublicKey)  {}
func (p *PubKey) Copy() e2types.PublicKey        { c := *p; return &c }

// Account is a stub wallet account identified by Tag (and the validator index
// it belongs to, for harness bookkeeping).
type Account struct {
	Tag    uint64
	VIndex uint64
	Key    PubKey
	Nm     string
}

func (a *Account) ID() uuid.UUID                { return uuid.UUID{} }
func (a *Account) Name() string                 { return a.Nm }
func (a *Account) PublicKey() e2types.PublicKey { return &a.Key }

// Wallet is a wallet whose Accounts() delivers a fixed list.
type Wallet struct {
	Nm   string
	Accs []e2wtypes.Account
}

func (w *Wallet) ID() uuid.UUID   { return uuid.UUID{} }
func (w *Wallet) Type() string    { return "stub" }
func (w *Wallet) Name() string    { return w.Nm }
func (w *Wallet) Version() uint   { return 1 }
func (w *Wallet) Accounts(_ context.Context) <-chan e2wtypes.Account {
	ch := make(chan e2wtypes.Account, len(w.Accs))
	for _, a := range w.Accs {
		ch <- a
	}
	close(ch)
	return ch
}
