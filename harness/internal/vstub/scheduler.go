package vstub

import (
	"context"
	"sync"
	"time"

	"github.com/attestantio/vouch/internal/vnd"
	"github.com/attestantio/vouch/services/scheduler"
)

// Job is one recorded ScheduleJob request.
type Job struct {
	Class string
	Name  string
	Time  time.Time
	Fn    scheduler.JobFunc
	// Runtime is the function a periodic job asks for the time of its next run.
	Runtime scheduler.RuntimeFunc
}

// Scheduler records requests; names in Existing are refused as duplicates.
type Scheduler struct {
	Jobs      []*Job
	Existing  []string
	Cancelled []string
	RunNow    []string
	Prefixes  []string
	Queries   []string // names asked about with JobExists
	Periodic  []*Job   // periodic jobs (never run by the stub; harnesses fire them)
	// OnSchedule, when set, observes the instant a job comes to exist.
	OnSchedule func(name string)
	// OnRun, when set, observes the instant an existing job is started early.
	OnRun func(name string)

	mu sync.Mutex // native runs only: the real code calls the scheduler from several goroutines
}

// guard serialises the stub in native runs; under the engine threads are
// cooperative and never interleave inside a stub method.
func (s *Scheduler) guard() func() {
	if vnd.Symbolic() {
		return func() {}
	}
	s.mu.Lock()
	return s.mu.Unlock
}

func (s *Scheduler) exists(name string) bool {
	r := false
	for _, n := range s.Existing {
		r = vnd.Or(r, n == name) // eager: one decision per lookup, not one per recorded name
	}
	return r
}

func (s *Scheduler) ScheduleJob(_ context.Context, class string, name string, runtime time.Time, job scheduler.JobFunc) error {
	defer s.guard()()
	if s.exists(name) {
		return scheduler.ErrJobAlreadyExists
	}
	s.Existing = append(s.Existing, name)
	s.Jobs = append(s.Jobs, &Job{Class: class, Name: name, Time: runtime, Fn: job})
	if s.OnSchedule != nil {
		s.OnSchedule(name)
	}
	return nil
}

func (s *Scheduler) SchedulePeriodicJob(_ context.Context, class string, name string, runtime scheduler.RuntimeFunc, job scheduler.JobFunc) error {
	defer s.guard()()
	s.Periodic = append(s.Periodic, &Job{Class: class, Name: name, Fn: job, Runtime: runtime})
	return nil
}

func (s *Scheduler) remove(name string) bool {
	for i, n := range s.Existing {
		if n == name {
			s.Existing = append(s.Existing[:i:i], s.Existing[i+1:]...)
			return true
		}
	}
	return false
}

func (s *Scheduler) CancelJob(_ context.Context, name string) error {
	defer s.guard()()
	if !s.remove(name) {
		return scheduler.ErrNoSuchJob
	}
	s.Cancelled = append(s.Cancelled, name)
	return nil
}

func (s *Scheduler) CancelJobIfExists(_ context.Context, name string) {
	defer s.guard()()
	if s.remove(name) {
		s.Cancelled = append(s.Cancelled, name)
	}
}

func (s *Scheduler) CancelJobs(_ context.Context, prefix string) {
	defer s.guard()()
	s.Prefixes = append(s.Prefixes, prefix)
}

func (s *Scheduler) RunJob(_ context.Context, name string) error {
	defer s.guard()()
	if !s.exists(name) {
		return scheduler.ErrNoSuchJob
	}
	s.RunNow = append(s.RunNow, name)
	if s.OnRun != nil {
		s.OnRun(name)
	}
	return nil
}

func (s *Scheduler) JobExists(_ context.Context, name string) bool {
	defer s.guard()()
	s.Queries = append(s.Queries, name)
	return s.exists(name)
}

// Asked reports whether JobExists was called for the name.
func (s *Scheduler) Asked(name string) bool {
	r := false
	for _, q := range s.Queries {
		r = vnd.Or(r, q == name)
	}
	return r
}

func (s *Scheduler) RunJobIfExists(_ context.Context, name string) {
	defer s.guard()()
	if s.exists(name) {
		s.RunNow = append(s.RunNow, name)
		if s.OnRun != nil {
			s.OnRun(name)
		}
	}
}

func (s *Scheduler) ListJobs(_ context.Context) []string { return s.Existing }

// Count returns how many recorded jobs carry the name.
func (s *Scheduler) Count(name string) int {
	n := uint64(0)
	for _, j := range s.Jobs {
		n += vnd.IteU64(j.Name == name, 1, 0) // eager: no fork per job
	}
	return int(n)
}

// Find returns the first recorded job with the name.
func (s *Scheduler) Find(name string) *Job {
	for _, j := range s.Jobs {
		if j.Name == name {
			return j
		}
	}
	return nil
}
