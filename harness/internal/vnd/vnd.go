// Package vnd ("verif nondet") is the harness vocabulary. Under the symbolic
// executor (gosym) every function here is intercepted: value sources become
// solver variables, Assume/Assert/Cover become queries. Compiled natively (for
// replay of a counterexample) the value sources read the recorded vector named
// by $VND_REPLAY and Assert panics on failure.
package vnd

import (
	"encoding/json"
	"fmt"
	"github.com/rs/zerolog"
	"math/big"
	"os"
	"runtime"
	"sync"
	"time"
)

// baseline is the number of goroutines alive when the harness run began.
var baseline int

var (
	mu      sync.Mutex
	vector  map[string]string
	counts  = map[string]int{}
	loaded  bool
	Ghosts  []string
	Covered = map[string]bool{}
)

func load() {
	if loaded {
		return
	}
	loaded = true
	vector = map[string]string{}
	if p := os.Getenv("VND_REPLAY"); p != "" {
		b, err := os.ReadFile(p)
		if err != nil {
			panic("VND: cannot read replay vector: " + err.Error())
		}
		var v struct {
			Model map[string]string `json:"model"`
		}
		if err := json.Unmarshal(b, &v); err != nil {
			panic("VND: bad replay vector: " + err.Error())
		}
		vector = v.Model
	}
}

// Reset clears per-run state (native replays running several harnesses).
func Reset() {
	mu.Lock()
	defer mu.Unlock()
	counts = map[string]int{}
	Ghosts = nil
	Covered = map[string]bool{}
}

// ResetAndLoad clears per-run state and re-reads $VND_REPLAY.
func ResetAndLoad() {
	mu.Lock()
	defer mu.Unlock()
	counts = map[string]int{}
	Ghosts = nil
	Covered = map[string]bool{}
	loaded = false
	load()
	baseline = runtime.NumGoroutine()
}

func key(name string) string {
	n := counts[name]
	counts[name] = n + 1
	return fmt.Sprintf("%s#%d", name, n)
}

func get(name string) *big.Int {
	mu.Lock()
	defer mu.Unlock()
	load()
	k := key(name)
	if s, ok := vector[k]; ok {
		v, ok := new(big.Int).SetString(s, 10)
		if ok {
			return v
		}
	}
	return new(big.Int)
}

func getBytes(name string, n int) []byte {
	mu.Lock()
	defer mu.Unlock()
	load()
	k := key(name)
	out := make([]byte, n)
	for i := range out {
		if s, ok := vector[fmt.Sprintf("%s[%d]", k, i)]; ok {
			v, _ := new(big.Int).SetString(s, 10)
			if v != nil {
				out[i] = byte(v.Uint64())
			}
		}
	}
	return out
}

func Bool(name string) bool  { return get(name).Sign() != 0 }
func U8(name string) uint8   { return uint8(get(name).Uint64()) }
func U16(name string) uint16 { return uint16(get(name).Uint64()) }
func U32(name string) uint32 { return uint32(get(name).Uint64()) }
func U64(name string) uint64 { return get(name).Uint64() }
func I64(name string) int64 {
	v := get(name)
	if v.IsInt64() {
		return v.Int64()
	}
	return int64(v.Uint64())
}
func Int(name string) int     { return int(I64(name)) }
func F64(name string) float64 { return 0 }
func IntRange(name string, lo, hi int) int {
	v := Int(name)
	if v < lo || v > hi {
		return lo
	}
	return v
}
func Choose(name string, n int) int { return IntRange(name, 0, n-1) }

func Root(name string) (r [32]byte)   { copy(r[:], getBytes(name, 32)); return }
func Sig(name string) (r [96]byte)    { copy(r[:], getBytes(name, 96)); return }
func PubKey(name string) (r [48]byte) { copy(r[:], getBytes(name, 48)); return }
func Addr(name string) (r [20]byte)   { copy(r[:], getBytes(name, 20)); return }
func Bytes(name string, n int) []byte { return getBytes(name, n) }

// Assume restricts the inputs considered. Natively a false assumption means
// the replay vector does not fit the harness (encoding mismatch).
func Assume(c bool) {
	if !c {
		panic("VND-ASSUME-FAIL")
	}
}

// Assert states a property obligation.
func Assert(c bool, label string) {
	if !c {
		panic("VND-ASSERT-FAIL " + label)
	}
}

// Fail is Assert(false, label).
func Fail(label string) { panic("VND-ASSERT-FAIL " + label) }

// Cover marks a reachability witness (vacuity guard).
func Cover(label string) {
	mu.Lock()
	Covered[label] = true
	mu.Unlock()
}

// Sleep advances virtual time for the calling goroutine (stub latency).
func Sleep(d time.Duration) {
	if d > 0 {
		time.Sleep(d)
	}
}

// NowNs is the (virtual) clock.
// TraceLogging reports whether the run has trace-level logging on (harness option LogEnabled).
func TraceLogging() bool { return get("vnd.trace-logging").Sign() != 0 }

// LogLevel is the log level harnesses build their services with: disabled, or trace when
// TraceLogging (the engine models every zerolog call as a no-op and only Event.Enabled() differs).
func LogLevel() zerolog.Level {
	if TraceLogging() {
		return zerolog.TraceLevel
	}
	return zerolog.Disabled
}

// Delay is a duration a harness stub waits for. In the engine (virtual clock) and in the native replay of
// a counterexample it is d; in the native validation of cover witnesses - which only runs when nothing
// was violated - it is a hundredth of d, so that a stub standing for a slow source does not make every
// validated witness wait out real seconds.
func Delay(d time.Duration) time.Duration {
	if os.Getenv("VND_BATCH") != "" {
		return d / 100
	}
	return d
}

func NowNs() int64 { return time.Now().UnixNano() }

// Quiesce lets every other goroutine run until none can progress and returns
// the number still alive (blocked). Natively it is approximated by a pause.
func Quiesce() int {
	// wait until the goroutines started since the run began are gone, or until
	// their number has not changed for a while (blocked for good), at most 10 s
	start := time.Now()
	last, stableSince := runtime.NumGoroutine(), start
	for {
		time.Sleep(2 * time.Millisecond)
		n, now := runtime.NumGoroutine(), time.Now()
		if baseline > 0 && n <= baseline && now.Sub(start) >= 10*time.Millisecond {
			return 0
		}
		if n != last {
			last, stableSince = n, now
		}
		if now.Sub(stableSince) > 500*time.Millisecond || now.Sub(start) > 10*time.Second {
			return 0
		}
	}
}

// HeldLocks is the number of mutex/rwmutex acquisitions currently held (engine only).
func HeldLocks() int { return 0 }

// Blocked is the number of other goroutines that have not finished (engine only).
func Blocked() int { return 0 }

// Spawned is the number of goroutines started so far (engine only).
func Spawned() int { return 0 }

// Ghost records an observation for translator validation.
func Ghost(format string, args ...interface{}) {
	mu.Lock()
	Ghosts = append(Ghosts, fmt.Sprintf(format, args...))
	mu.Unlock()
}

// Symbolic reports whether the harness runs under the symbolic executor.
func Symbolic() bool { return false }

// Hash64 is a functionally consistent hash (uninterpreted in the solver).
func Hash64(name string, args ...uint64) uint64 {
	h := uint64(1469598103934665603)
	for _, ch := range []byte(name) {
		h ^= uint64(ch)
		h *= 1099511628211
	}
	for _, v := range args {
		for i := 0; i < 8; i++ {
			h ^= (v >> (8 * uint(i))) & 0xff
			h *= 1099511628211
		}
	}
	return h
}

// SetGOMAXPROCS fixes what runtime.GOMAXPROCS(0) returns under the engine.
func SetGOMAXPROCS(n int) {}

// And, Or, Implies, Not are eager (non-short-circuit) boolean connectives:
// under the symbolic executor they build one formula instead of forking.
func And(a, b bool) bool     { return a && b }
func Or(a, b bool) bool      { return a || b }
func Implies(a, b bool) bool { return !a || b }
func Not(a bool) bool        { return !a }

// IteU64 is a non-forking conditional.
func IteU64(c bool, a, b uint64) uint64 {
	if c {
		return a
	}
	return b
}

// SmallU64 is a value below 2^bits (under the engine it also has a
// mathematical-integer twin, which keeps math/big arithmetic on it cheap).
func SmallU64(name string, bits int) uint64 {
	v := U64(name)
	if bits < 64 && v >= 1<<uint(bits) {
		panic("VND-ASSUME-FAIL")
	}
	return v
}

// BLSVerifyCalls is the number of BLS signature verifications the code has made
// so far (engine only: there the outcome of each is a symbolic boolean).
func BLSVerifyCalls() int { return 0 }

// BLSVerifyResult is the outcome of the i-th verification (engine only).
func BLSVerifyResult(_ int) bool { return false }

// BLSInvalidKey declares 48 bytes that are not a valid BLS public key: parsing
// them fails (engine only; natively such bytes have to be chosen for real).
func BLSInvalidKey(_ []byte) {}
