//go:build verif

package main

import (
	"context"
	"math/big"
	"strings"

	"github.com/attestantio/go-eth2-client/spec/phase0"
	"github.com/attestantio/vouch/internal/vnd"
	"github.com/attestantio/vouch/services/blockrelay"
	"github.com/spf13/viper"
)

// VerifC09_BuilderConfigs: the per-builder modifiers handed to the auction are
// those configured for that very builder: for 1..2 builders under
// blockrelay.builder-configs, each with any subset of category / factor /
// offset set, in every order in which the configuration may be walked, a
// builder's entry has exactly the values set for it and defaults (standard
// category, no factor, no offset) for what is not set.
func VerifC09_BuilderConfigs() {
	viper.Reset()
	n := vnd.IntRange("builders", 1, 2)
	keys := []string{"0x" + strings.Repeat("aa", 48), "0x" + strings.Repeat("bb", 48), "0x" + strings.Repeat("cc", 48)}
	type want struct {
		category, factor, offset string
	}
	wants := make([]want, n)
	for i := 0; i < n; i++ {
		base := "blockrelay.builder-configs." + keys[i]
		setCat, setFactor, setOffset := vnd.Bool("category.set"), vnd.Bool("factor.set"), vnd.Bool("offset.set")
		vnd.Assume(setCat || setFactor || setOffset) // a builder is listed by having some setting
		if setCat {
			wants[i].category = []string{"privileged", "excluded", "special"}[i]
			viper.Set(base+".category", wants[i].category)
		}
		if setFactor {
			wants[i].factor = []string{"50", "0", "200"}[i]
			viper.Set(base+".factor", wants[i].factor)
		}
		if setOffset {
			wants[i].offset = []string{"10000000000", "-5", "7"}[i]
			viper.Set(base+".offset", wants[i].offset)
		}
	}
	res, err := obtainBuilderConfigs(context.Background())
	vnd.Assert(err == nil && len(res) == n, "C09.builderconfigs.one-entry-per-configured-builder")
	for i := 0; i < n; i++ {
		var pk phase0.BLSPubKey
		for j := range pk {
			pk[j] = []byte{0xaa, 0xbb, 0xcc}[i]
		}
		cfg := res[pk]
		vnd.Assert(cfg != nil, "C09.builderconfigs.entry-present")
		if cfg == nil {
			continue
		}
		wantCat := blockrelay.StandardBuilderCategory
		if wants[i].category != "" {
			wantCat = wants[i].category
		}
		vnd.Assert(cfg.Category == wantCat, "C09.builderconfigs.category-is-this-builders-own")
		if wants[i].factor == "" {
			vnd.Assert(cfg.Factor == nil, "C09.builderconfigs.no-factor-unless-set-for-this-builder")
		} else {
			f, _ := new(big.Int).SetString(wants[i].factor, 10)
			vnd.Assert(cfg.Factor != nil && cfg.Factor.Cmp(f) == 0, "C09.builderconfigs.factor-is-this-builders-own")
		}
		if wants[i].offset == "" {
			vnd.Assert(cfg.Offset == nil, "C09.builderconfigs.no-offset-unless-set-for-this-builder")
		} else {
			o, _ := new(big.Int).SetString(wants[i].offset, 10)
			vnd.Assert(cfg.Offset != nil && cfg.Offset.Cmp(o) == 0, "C09.builderconfigs.offset-is-this-builders-own")
		}
	}
	vnd.Cover("C09.builderconfigs.checked")
}
