#!/usr/bin/env python3
"""reg_add.py <prop> <pkg> <func> <tier> [key=value ...] [--bound "text"] : add a harness to harness/registry.json"""
import json, sys
a=sys.argv[1:]
prop,pkg,fn,tier=a[:4]
h={"pkg":pkg,"func":fn,"tier":tier}
bounds=[]
i=4
while i<len(a):
    if a[i]=='--bound': bounds.append(a[i+1]); i+=2; continue
    k,v=a[i].split('=',1)
    try: v=json.loads(v)
    except Exception: pass
    h[k]=v; i+=1
p='/verif/harness/registry.json'
r=json.load(open(p))
hs=r[prop]['harnesses']
hs[:]=[x for x in hs if not (x["pkg"]==pkg and x["func"]==fn and x["tier"]==tier)]
# quick before thorough
idx=len(hs)
if tier=='quick':
    idx=next((j for j,x in enumerate(hs) if x['tier']!='quick'),len(hs))
hs.insert(idx,h)
for b in bounds:
    if b not in r[prop]['bounds']: r[prop]['bounds'].append(b)
json.dump(r,open(p,'w'),indent=1)
print(prop,len(hs),'harnesses')
