#!/bin/bash
# confirm_seed.sh <seed-worktree> <seed-id> <demo pkg dir (relative)>
# Confirms a seeded change in a fresh scratch worktree of /repo:
#  (1) applies, (2) builds, (3) the existing test suite passes with it,
#  (4) the demonstration fails with it and (5) passes without it.
# Stores it under /verif/seeded/<seed-id>/ and removes the scratch worktree.
set -u
export GOFLAGS=-mod=mod GOPROXY=off GOSUMDB=off GOTOOLCHAIN=local
src=$1; id=$2; pkg=$3
w=/tmp/confirm_$id
out=/verif/seeded/$id
mkdir -p $out
git -C /repo worktree remove --force $w 2>/dev/null
git -C /repo worktree add --detach $w HEAD >/dev/null 2>&1 || { echo "worktree failed"; exit 2; }
cp $src/SEED_patch.diff $out/patch.diff
cp $src/$pkg/zz_seed_demo_test.go $out/demo_test.go
cp $src/SEED_README.md $out/README.md
cd $w
r_apply=fail; r_build=fail; r_suite=fail; r_demo_with=unexpected-pass; r_demo_without=fail
git apply $out/patch.diff && r_apply=ok
go build ./... && r_build=ok
go test -vet=off -count=1 -timeout 25m ./... > $out/suite_with.log 2>&1 && r_suite=ok
grep -v "^ok\|no test files" $out/suite_with.log | head -20
cp $out/demo_test.go $pkg/zz_seed_demo_test.go
go test -vet=off -count=1 -run 'TestSeed' ./$pkg > $out/demo_with.log 2>&1 || r_demo_with=fails-as-expected
git apply -R $out/patch.diff
go test -vet=off -count=1 -run 'TestSeed' ./$pkg > $out/demo_without.log 2>&1 && r_demo_without=ok
cd /
git -C /repo worktree remove --force $w
echo "$id apply=$r_apply build=$r_build suite_with=$r_suite demo_with=$r_demo_with demo_without=$r_demo_without" | tee $out/confirm.txt
