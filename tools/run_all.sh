#!/bin/bash
# run_all.sh [tier] : runs every registered check against /repo, prints one line per property
tier=${1:-quick}
cd /verif
for i in $(seq -w 1 20); do
  p=C$i
  t0=$(date +%s)
  timeout 7200 ./bin/vcheck $p --tier $tier > /tmp/runall_$p.log 2>&1; rc=$?
  echo "$p exit=$rc $(( $(date +%s)-t0 ))s $(grep -c KNOWN-FINDING /tmp/runall_$p.log) known; $(grep -m2 'VIOLATION\|BOUND\|ENCODING\|ERROR\|INCONCLUSIVE' /tmp/runall_$p.log | cut -c1-300)"
done
