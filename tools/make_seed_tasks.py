#!/usr/bin/env python3
"""make_seed_tasks.py <round-dir, e.g. /tmp/seed5> <round-number>: writes one task file per property for fresh
sub-agents (only the property text and the rules; nothing from /verif) and creates one scratch worktree each."""
import json, subprocess, sys, os
root, rnd = sys.argv[1], int(sys.argv[2])
os.makedirs(root, exist_ok=True)
props={json.loads(l)['id']:json.loads(l) for l in open('/verif/properties.jsonl')}
tmpl='''You are helping test a verification suite for the Go project attestantio/vouch (an Ethereum validator client). You have your own scratch git worktree of the repository at @ROOT@/@S@ (work ONLY there; never touch /repo or /verif, and do not read anything under /verif or under any other @ROOT@/* directory). The sandbox is offline: export GOFLAGS=-mod=mod GOPROXY=off GOSUMDB=off GOTOOLCHAIN=local in every shell call.

The property under study is given at the end of this file. Read it, then read the code it names AND the code that code calls or is called by (helpers, constructors, event handlers, configuration parsing, data types with methods, callers in other packages).

Your task: make ONE small, realistic change to the NON-test source of vouch (the kind of slip a maintainer could make in a refactor, optimisation or tidy-up) that BREAKS the property, while:
 1. the tree still compiles (`go build ./...`),
 2. every EXISTING test still passes unchanged (run at least `go test -vet=off -count=1` of every package you touch and of the packages that import it; do not edit or delete existing tests),
 3. the breakage needs something specific to manifest (a particular input, failure, ordering, timing or history) and does not show in ordinary use,
 4. you demonstrate it: write ONE new test file `zz_seed_demo_test.go` in the relevant package (internal test, test names starting `TestSeed`) that FAILS with your change and PASSES on the original source. Verify both directions yourself. Do NOT use `git stash` (it is shared between worktrees of other agents); to check the original source use `git diff -- <changed files> > SEED_patch.diff` then `git apply -R SEED_patch.diff` / `git apply SEED_patch.diff`.

This is round @RND@: earlier rounds already used the obvious places (the main condition of each named function, off-by-one in the main loop, dropped lock, the constructor's start-up check, the first error branch). @HINT@ Do not simply revert one of the recent commits whose message starts with "fix:" (see `git log --oneline | head -40`). Keep the change to a few lines. Do not add build tags, do not change go.mod, do not change test helpers or mocks.

Leave in the worktree root: SEED_patch.diff (git diff of the non-test source change only, applicable with `git apply` to a clean tree), SEED_README.md (what the change is, which clause of the property it breaks, exactly what is needed for it to manifest, the commands you ran and their outcomes). Leave the demo test in its package directory as zz_seed_demo_test.go. Leave the worktree with the change applied. Report briefly: the changed file/function, the change, which clause it breaks, what it needs to manifest, the demo test's path and outcomes with/without.

==================== PROPERTY ====================
'''
hints_by_round={
 5:["Look for a slip that needs a HISTORY: state a service keeps between two calls (a cache, a map, a semaphore, a stored slice, a flag) that is updated wrongly, so that the first call is right and only a second or later call on the same instance misbehaves.",
    "Look for a slip in the wiring: a constructor (`New`) or a parameter default, a value passed to the wrong parameter of a helper, two parameters of the same type swapped, a field initialised from the wrong option, a unit mix-up (slots vs epochs, ms vs ns).",
    "Look for a slip in lifetimes and concurrency: a context cancelled too early or never, a goroutine that outlives its caller holding a resource, a channel with the wrong capacity, a lock released one statement too early, a result published before it is complete, a timer based on the wrong instant."],
 6:["Look for a slip in error handling and partial failure: what becomes of the other results when one of several parallel operations fails, an error swallowed (or a harmless one promoted to fatal), a `defer` that now runs in the wrong order or on the wrong path, a retry that repeats a side effect, a `continue` that became a `return` (or the reverse) inside a loop over validators, relays or nodes.",
    "Look for a slip in types and conversions: signed vs unsigned, a narrowing conversion or an overflow at a large but legal value, integer division before multiplication, a copy of a struct where the pointer was meant (or the reverse), a map keyed by a formatted string that now collides, a comparison of pointers where values were meant, a slice whose length is taken before it is filtered.",
    "Look for a slip in the interplay of two options or modes: a feature switch or configuration flag (for example unblinding from all relays, logging of results, sync committee inclusion verification, multi-instance / failover options, grace or delay settings, thresholds) whose non-default value takes a path on which the property no longer holds, or two settings that are each fine alone but wrong together."],
 7:["Look for a slip at a boundary in time or position: exactly at a slot, epoch or sync-committee-period boundary, the first epoch or slot 0, the far-future epoch, the instant of a fork or of genesis, the last element of a list, a deadline that is reached exactly; an inclusive bound that became exclusive (or the reverse) somewhere other than the main loop.",
    "Look for a slip in the ORDER of side effects inside one function: a state update (mark, cache entry, map publication, job removal, pending flag) moved before or after a call that can fail, block or be slow; a value read before the call that should be read after it (or the reverse); cleanup that now runs before the last use.",
    "Look for a slip in the plumbing BETWEEN two services or packages: the value one passes to the other (controller to attester / aggregator / proposer / sync committee services, proposer to relay service, relay service to bid strategy, account manager to validators manager, signer to domain provider): a field dropped or defaulted at the boundary, taken from the wrong one of two similar objects, or converted with the wrong unit."],
 8:["Look in the rarely used corners of the code the property depends on: components few deployments configure and few tests touch (the deadline builder-bid strategy, the legacy version-1 execution configuration, the immediate submitter, the dynamic and static graffiti providers, the latest / majority / first block root and header strategies, the sync committee subscriber, the standard (non-advanced) paths), or a branch for an older fork / data version.",
    "Look for a slip around logging, metrics and tracing: a value computed only for a log line or a metric that now feeds control flow (or the reverse), an argument of a log call whose evaluation can panic or has a side effect, an early return placed inside an `if e := log.Trace(); e.Enabled()` style guard, a monitor call moved onto a path where its operand is nil.",
    "Look for a slip in defaults and fallbacks: what happens when an optional collaborator or optional piece of configuration is absent (nil interface, zero value, empty list, missing key) - a guard removed, inverted or moved below its first use; a default applied at the wrong level; an empty result treated as an error (or an error as an empty result)."],
 9:["Look for a slip of sharing versus copying: a slice, map or pointer that caller and callee (or two goroutines, or two duties, or a cache and its reader) now share where each used to have its own, a result handed out that aliases internal state, an `append` onto a backing array somebody else still reads, a sort, filter or compaction done in place on an input, a loop variable or accumulator reused across iterations without being reset.",
    "Look for a helper, method or constant that has MORE THAN ONE caller or use (chain-time conversions, account lookups, duty constructors and accessors, the relay/REST client helpers, configuration getters in `util`, shared metrics or logging helpers): adjust it for the benefit of one caller in a way that quietly breaks another caller on which the property depends.",
    "Look for a slip in selection and matching: choosing among several candidates (nodes, relays, bids, accounts, wallets, configuration entries, committees, keys of a map) by the wrong key, the wrong comparison (prefix instead of whole, case, `<` instead of `<=` on a tie, first instead of last), an early `break` that stops at the first match where all were needed, iteration over a map where order matters, or a de-duplication that merges entries that differ."],
 10:["Look for a slip around numeric settings and thresholds: a zero, negative or very large value of a timeout, delay, grace, threshold, process-concurrency, gas limit, boost factor or count that takes a different path (division by it, a `<= 0` guard, a default substituted for an explicit zero, a duration compared in the wrong unit, an unsigned subtraction that wraps).",
    "Look for a slip in a `switch` over versions or kinds (spec.DataVersion from phase0 to deneb and beyond, blinded versus unblinded, account kinds, client types, relay entry kinds): a case that falls into the wrong branch, a missing case that now takes the default, a nil check on the wrong member of a versioned struct.",
    "Look for a slip in clean-up and bookkeeping that only matters later: an entry that is not removed (or is removed too early) from a map, cache, pending set or job table; a counter or flag not restored on one return path; state recorded for the wrong slot, epoch or key so that a later, unrelated operation finds or misses it."],
 11:["Look for a slip on a second-chance path: failover to another node or relay, a retry after a failure, the fallback taken when the preferred source returns nothing or answers late, the path taken when a cached value is missing or stale - the first attempt stays right and only the fallback is wrong (wrong argument, wrong slot or key, result not checked, state left behind by the failed first attempt).",
    "Look for a slip in the validation of data received from outside (beacon node, relay, remote signer, configuration server): one of several checks dropped, weakened, applied to the wrong element or field, or done only after the value has already been used or stored; a check that holds for the first element of a list but is skipped for the rest.",
    "Look for a slip in bytes and strings: hex prefix or case handling, trimming, truncation or padding into a fixed-size array, `copy` with the wrong length or offset, a key built from part of a value, a comparison of a prefix, byte order, formatting verbs that change a map key or a name used for matching."],
}
hints=hints_by_round.get(rnd, hints_by_round[10])
import glob as _glob
earlier={}
for _f in sorted(_glob.glob('/verif/seeded/*/meta.json')):
    _m=json.load(open(_f)); earlier.setdefault(_m['property'],[]).append(_m['change'])
i=rnd
for k in sorted(props):
    p=props[k]; a=p['anchors']; q=p['quantifier']
    mech='; '.join(f"{x['name']} ({x['where']})" if isinstance(x,dict) else str(x) for x in a['mechanism'])
    t=f"""Property {p['id']}: {p['title']}

Statement: {p['statement']}

Quantifier (histories, schedules, inputs): {q['text'] if isinstance(q,dict) else q}

Why the existing tests cannot settle it: {p['why_tests_cant']}

Relevant files: {', '.join(a['files'])}
Mechanisms meant to make it hold: {mech}
"""
    s='w%02d'%int(k[1:])
    avoid=''
    if rnd>=8 and earlier.get(k):
        avoid='\n\nChanges that EARLIER ROUNDS already made for this property - choose something else, in a different function where possible:\n'+'\n'.join(' - '+c for c in earlier[k])+'\n'
    open(f'{root}/{s}.task.txt','w').write(tmpl.replace('@ROOT@',root).replace('@RND@',str(rnd)).replace('@S@',s).replace('@HINT@',hints[i%3])+t+avoid)
    subprocess.run(['git','-C','/repo','worktree','add','--detach',f'{root}/{s}','HEAD'],capture_output=True)
    i+=1
print(len(props),'tasks in',root)
