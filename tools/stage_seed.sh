#!/bin/bash
# stage_seed.sh <agent worktree> <seed-id> : copies a sub-agent's patch into /verif/seeded/<id>/ so that
# tools/try_seed.sh can be run before the (slow) confirmation; confirm_seed.sh later overwrites with the same files.
mkdir -p /verif/seeded/$2 && cp $1/SEED_patch.diff /verif/seeded/$2/patch.diff && cp $1/SEED_README.md /verif/seeded/$2/README.md
