#!/bin/bash
# try_seed.sh <seed-id> <property>... : runs the quick checks (TIER=thorough for the other tier)
# against a scratch worktree of /repo with the seeded change applied (VERIF_REPO), then removes the
# worktree. /repo and /verif/evidence are not touched. (The registered commands always check /repo.)
id=$1; shift
w=/tmp/try_seed/w_$id
mkdir -p /tmp/try_seed
git -C /repo worktree remove --force $w 2>/dev/null
git -C /repo worktree add --detach $w HEAD >/dev/null 2>&1 || { echo "worktree failed"; exit 2; }
git -C $w apply /verif/seeded/$id/patch.diff || { git -C /repo worktree remove --force $w; exit 2; }
for p in "$@"; do
  t0=$(date +%s)
  VERIF_REPO=$w timeout 1800 /verif/bin/vcheck $p ${TIER:+-tier $TIER} > /tmp/try_seed/$id.$p.log 2>&1; rc=$?
  echo "$id $p exit=$rc $(( $(date +%s)-t0 ))s: $(grep -m3 'VIOLATION\|KNOWN\|BOUND\|ENCODING\|ERROR' /tmp/try_seed/$id.$p.log | cut -c1-400)"
done
git -C /repo worktree remove --force $w
rm -rf $w.verif
