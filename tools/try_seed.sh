#!/bin/bash
# try_seed.sh <seed-id> <property>... : applies the seeded change to /repo, runs the quick checks, restores /repo.
id=$1; shift
git -C /repo status --short | grep -v '^??' && { echo "/repo dirty"; exit 2; }
git -C /repo apply /verif/seeded/$id/patch.diff || exit 2
mkdir -p /tmp/try_seed
for p in "$@"; do
  cp /verif/evidence/$p.json /tmp/try_seed/$p.json.bak
  t0=$(date +%s)
  timeout 1800 /verif/bin/vcheck $p ${TIER:+-tier $TIER} > /tmp/try_seed/$id.$p.log 2>&1; rc=$?
  echo "$id $p exit=$rc $(( $(date +%s)-t0 ))s: $(grep -m3 'VIOLATION\|KNOWN\|BOUND\|ENCODING\|ERROR' /tmp/try_seed/$id.$p.log | cut -c1-400)"
  cp /tmp/try_seed/$p.json.bak /verif/evidence/$p.json
done
git -C /repo checkout -- .
git -C /repo status --short | grep -v '^??'
