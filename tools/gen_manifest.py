#!/usr/bin/env python3
"""Regenerates /verif/MANIFEST.json from harness/registry.json and tools/claims.json."""
import json, os
V = '/verif'
reg = json.load(open(f'{V}/harness/registry.json'))
claims = json.load(open(f'{V}/tools/claims.json'))
props = [json.loads(l) for l in open(f'{V}/properties.jsonl')]
checks, na = [], []
for p in props:
    pid = p['id']
    if pid in reg and pid in claims['claimed']:
        c = claims['claimed'][pid]
        checks.append({
            "property_id": pid,
            "quick_cmd": f"/verif/bin/vcheck {pid} --tier quick",
            "thorough_cmd": f"/verif/bin/vcheck {pid} --tier thorough",
            "evidence_file": f"/verif/evidence/{pid}.json",
            "replay_cmd_template": f"/verif/bin/vcheck {pid} --replay {{path}}",
            "engine": "gosym",
            "level_claimed": {"category": reg[pid].get("level", "model_checking"), "text": c["text"], "design_ref": f"DESIGN.md §4 {pid}"},
            "level_note": c["note"],
            "technique": c.get("technique", "SMT-based bounded symbolic execution of the Go SSA of the real code (own executor gosym + z3); solver counterexamples replayed against the natively compiled code"),
        })
    else:
        na.append({"property_id": pid, "reason": claims['not_applicable'].get(pid, "not yet decided by the solver-based machinery in this round (no check registered)")})
m = {
 "version": 1,
 "setup_cmd": "cd /verif/engine && GOFLAGS=-mod=mod GOPROXY=off GOSUMDB=off GOTOOLCHAIN=local go build -o /verif/bin/vcheck .",
 "hooks": {
  "guard": "verif",
  "enable": "no source hooks in /repo: harness files (//go:build verif) and the packages internal/vnd and internal/vstub are injected from /verif/harness through go/packages overlays (symbolic run) and `go test -tags verif -overlay` (native replay); nothing is written under /repo",
  "baseline_off_cmd": "cd /repo && GOFLAGS=-mod=mod GOPROXY=off GOSUMDB=off GOTOOLCHAIN=local go test -vet=off -count=1 -timeout 25m ./...",
  "source_commits": [],
  "add_only": True
 },
 "engines": [{"name": "gosym", "path": "/verif/engine", "serves_properties": [c["property_id"] for c in checks],
   "kind_free_text": "bounded symbolic executor for Go SSA (golang.org/x/tools/go/ssa v0.29.0): integers as SMT bit-vectors, path conditions and assertions decided by z3 (check-sat-assuming over a persistent process), goroutines/channels/locks/virtual time with schedule exploration, happens-before race monitor; counterexamples replayed natively with go test -overlay"}],
 "checks": checks,
 "not_applicable": na,
 "notes": claims.get("notes", "")
}
json.dump(m, open(f'{V}/MANIFEST.json', 'w'), indent=1)
print("checks:", [c["property_id"] for c in checks], "not_applicable:", [n["property_id"] for n in na])
