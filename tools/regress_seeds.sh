#!/bin/bash
# regress_seeds.sh [pattern] : every stored seeded change (or those whose id matches the pattern) is tried
# again against the quick check of its own property (tools/try_seed.sh); prints one line per change and a
# summary of those no longer reported. Two trials run side by side.
cd /verif
pat=${1:-C}
ls seeded | grep "^$pat" > /tmp/regress_ids.txt
run() { id=$1; ./tools/try_seed.sh $id ${id%%-*} 2>&1 | head -1 | cut -c1-200; }
export -f run
cat /tmp/regress_ids.txt | xargs -P 2 -I{} bash -c 'run {}' | tee /tmp/regress_seeds.log
echo "not reported:"; grep -v "exit=1" /tmp/regress_seeds.log
