#!/bin/bash
# reconfirm_pkg.sh <seed-id> <pkg>... : the existing tests of the given packages, three times, in a fresh scratch
# worktree with the seeded change applied (used when the whole-suite run of confirm_seed.sh failed in a
# timing-sensitive test of a package the change does not touch, under machine load).
export GOFLAGS=-mod=mod GOPROXY=off GOSUMDB=off GOTOOLCHAIN=local
id=$1; shift
w=/tmp/reconfirm_$id
git -C /repo worktree remove --force $w 2>/dev/null
git -C /repo worktree add --detach $w HEAD >/dev/null 2>&1 || exit 2
cd $w && git apply /verif/seeded/$id/patch.diff || exit 2
ok=0
for i in 1 2 3; do go test -vet=off -count=1 "$@" > /tmp/reconfirm_$id.log 2>&1 && ok=$((ok+1)); done
cd /; git -C /repo worktree remove --force $w
echo "$id existing tests of $* with the change: $ok/3 runs pass" | tee -a /verif/seeded/$id/confirm.txt
