#!/usr/bin/env python3
"""coverage_audit.py: for every property, the functions declared in the files the
property names that no registered harness of that property executes
(from evidence/<id>.json functions_encoded). Unexecuted code is unchecked code."""
import json, re, os, sys
props=[json.loads(l) for l in open('/verif/properties.jsonl')]
fre=re.compile(r'^func\s+(?:\(\s*\w*\s*(\*?)\s*(\w+)(?:\[[^\]]*\])?\s*\)\s*)?(\w+)\s*[\(\[]', re.M)
allcov={}
for p in props:
    pid=p['id']
    ev=json.load(open(f'/verif/evidence/{pid}.json'))
    cov=set(f['function'] for f in ev['coverage']['functions_encoded'])
    allcov[pid]=cov
union=set().union(*allcov.values())
for p in props:
    pid=p['id']; cov=allcov[pid]
    missing=[]
    for f in p['anchors']['files']:
        path='/repo/'+f
        if not os.path.exists(path): continue
        src=open(path).read()
        pkgdir=os.path.dirname(f)
        imp='github.com/attestantio/vouch'+('/'+pkgdir if pkgdir else '')
        for m in fre.finditer(src):
            star,recv,name=m.groups()
            if recv:
                full=f'({star}{imp}.{recv}).{name}'
            else:
                full=f'{imp}.{name}'
            if name in('init',) or name.startswith(('With','monitor','Monitor','registerMetrics','registerPrometheusMetrics')): continue
            if full not in cov:
                # generic instantiations etc: match by suffix
                if any(c.endswith('.'+name) and imp in c for c in cov): continue
                missing.append((f,full.split('vouch/')[-1], full in union))
    print(pid, len(missing),'functions in the named files not executed by its harnesses')
    for f,fn,elsewhere in missing:
        print('   ',fn, '(executed under another property)' if elsewhere else '')
