#!/bin/bash
# reconfirm_seed.sh <seed-id> <demo pkg dir> : re-confirms a stored seeded change against /repo's current HEAD
# (after a fix: commit changed the file it touches and patch.diff was rebased): applies, builds, existing
# suite passes with it, demonstration fails with it and passes without it. Appends to confirm.txt.
set -u
export GOFLAGS=-mod=mod GOPROXY=off GOSUMDB=off GOTOOLCHAIN=local
id=$1; pkg=$2
w=/tmp/reconfirm_$id
out=/verif/seeded/$id
git -C /repo worktree remove --force $w 2>/dev/null
git -C /repo worktree add --detach $w HEAD >/dev/null 2>&1 || { echo "worktree failed"; exit 2; }
cd $w
r_apply=fail; r_build=fail; r_suite=fail; r_demo_with=unexpected-pass; r_demo_without=fail
git apply $out/patch.diff && r_apply=ok
go build ./... && r_build=ok
go test -vet=off -count=1 -timeout 25m ./... > $out/suite_with.log 2>&1 && r_suite=ok
grep -v "^ok\|no test files" $out/suite_with.log | head -20
cp $out/demo_test.go $pkg/zz_seed_demo_test.go
go test -vet=off -count=1 -run 'TestSeed' ./$pkg > $out/demo_with.log 2>&1 || r_demo_with=fails-as-expected
git apply -R $out/patch.diff
go test -vet=off -count=1 -run 'TestSeed' ./$pkg > $out/demo_without.log 2>&1 && r_demo_without=ok
cd /
git -C /repo worktree remove --force $w
echo "$id (rebased on $(git -C /repo log --format=%h -1)) apply=$r_apply build=$r_build suite_with=$r_suite demo_with=$r_demo_with demo_without=$r_demo_without" | tee -a $out/confirm.txt
