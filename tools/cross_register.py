#!/usr/bin/env python3
"""cross_register.py: lists, per property, the harnesses registered under OTHER properties that execute code of
the files the property is anchored in (from evidence/*.json: instructions_executed_per_source_file of the last
run and properties.jsonl: anchors.files). A harness checks panic-freedom, lock balance and its own oracles of
whatever it runs, so a change seeded against property P in such a file is often reported by that harness - but
only P's own command counts for P. Candidates are reviewed by hand (tools/reg_add.py)."""
import json, glob, sys, fnmatch
props={}
for l in open('/verif/properties.jsonl'):
    p=json.loads(l); props[p['id']]=p
reg=json.load(open('/verif/harness/registry.json'))
registered={pid:{(h['pkg'],h['func']) for h in v['harnesses']} for pid,v in reg.items()}
hfiles={}
for f in glob.glob('/verif/evidence/*.json'):
    e=json.load(open(f))
    for h in e['coverage']['harnesses']:
        fs=h.get('instructions_executed_per_source_file') or {}
        k=(h['pkg'],h['harness'])
        cur=hfiles.setdefault(k,{})
        for a,b in fs.items(): cur[a]=max(cur.get(a,0),b)
minins=int(sys.argv[1]) if len(sys.argv)>1 else 300
for pid in sorted(props):
    files=props[pid]['anchors']['files']
    out=[]
    for k,fs in hfiles.items():
        if k in registered.get(pid,set()): continue
        tot=sum(fs.values()) or 1
        hit={a:n for a,n in fs.items() if any(a==x or fnmatch.fnmatch(a,x) for x in files)}
        n=sum(hit.values())
        if n>=minins:
            where=[p for p,v in registered.items() if k in v]
            out.append((n,k,where,sorted(hit,key=hit.get,reverse=True)[:2]))
    if out:
        print(pid)
        for n,k,where,top in sorted(out,reverse=True):
            print(f"   {k[1]:38s} {k[0]:45s} under {','.join(where):12s} {n:8d} instr in {', '.join(top)}")
